#!/bin/bash
# usage: try_patch_wt.sh <patch.diff> <scratch worktree of /repo> — like try_seed.sh but on a scratch
# worktree (so that several patches can be examined in parallel and /repo stays untouched).
P="$1"; WT="$2"
cd "$WT" || exit 2
git reset -q --hard HEAD; git clean -fdq
if ! git apply "$P" 2>/dev/null; then
  if ! patch -p1 --fuzz=3 -s --no-backup-if-mismatch < "$P" >/dev/null 2>&1; then
    echo "patch does not apply"; git reset -q --hard HEAD; git clean -fdq; exit 2
  fi
fi
OUT=/tmp/trywt-$(basename "$WT")
mkdir -p $OUT; cp /verif/known_findings.json $OUT/
${VCHECK:-/verif/bin/vcheck} -all -repo "$WT" -verif $OUT 2>&1 | grep -E "^(FAIL|VIOLATION)" | cut -c1-400
git reset -q --hard HEAD; git clean -fdq
