#!/bin/bash
# usage: confirm_seed.sh <worktree> <seed-id> <property>
# Confirms a sub-agent's seeded defect in its scratch worktree: (1) builds, (2) full suite green with the
# change (demo moved aside), (3) demo fails with the change, (4) demo passes without it.
# On success stores patch.diff + demo + meta.json under /verif/seeded/<seed-id>/.
set -u
WT="$1"; SID="$2"; PROP="$3"
export GOFLAGS=-mod=mod GOPROXY=off
LOG=/tmp/confirm-$SID.log
: > $LOG
cd "$WT" || exit 2
[ -f MUTANT.diff ] || { echo "no MUTANT.diff" | tee -a $LOG; exit 2; }
DEMOS=$(git status --porcelain | awk '$1=="??"{print $2}' | grep '_test.go$' || true)
echo "demo files: $DEMOS" | tee -a $LOG
[ -n "$DEMOS" ] || { echo "no demo test file" | tee -a $LOG; exit 2; }
# normalise: make sure tree == HEAD + MUTANT.diff
git checkout -q -- . && git apply MUTANT.diff || { echo "patch does not apply" | tee -a $LOG; exit 2; }
mkdir -p /tmp/seedconfirm-keep/$SID
for d in $DEMOS; do mkdir -p /tmp/seedconfirm-keep/$SID/$(dirname $d); mv $d /tmp/seedconfirm-keep/$SID/$d; done
echo "== build" | tee -a $LOG
go build ./... >>$LOG 2>&1 || { echo "BUILD FAILED" | tee -a $LOG; exit 1; }
echo "== full suite with change" | tee -a $LOG
go test -vet=off -count=1 ./... >>$LOG 2>&1; SUITE=$?
echo "suite exit=$SUITE" | tee -a $LOG
if [ $SUITE != 0 ]; then
  # The suite has a few wall-clock assertions (ping delays, queue shrink timers) that fail under machine
  # load. Re-run exactly the failed tests, three times, in their packages; the change counts as suite-green
  # only if every one of them passes every time.
  FAILED=$(grep -h '^--- FAIL: ' $LOG | awk '{print $3}' | sort -u | paste -sd'|')
  FPKGS=$(grep -h '^FAIL[[:space:]]' $LOG | awk '{print $2}' | grep '/' | sort -u)
  if [ -n "$FAILED" ] && [ -n "$FPKGS" ]; then
    echo "== re-running failed tests: $FAILED in $FPKGS" | tee -a $LOG
    go test -vet=off -count=3 -run "^($FAILED)\$" $FPKGS >>$LOG.rerun 2>&1; RR=$?
    echo "rerun exit=$RR" | tee -a $LOG
    if [ $RR = 0 ]; then SUITE=0; echo "suite failure was a timing flake (rerun x3 green)" | tee -a $LOG; fi
  fi
fi
for d in $DEMOS; do cp /tmp/seedconfirm-keep/$SID/$d $d; done
PKGS=$(for d in $DEMOS; do echo ./$(dirname $d); done | sort -u)
echo "== demo with change ($PKGS)" | tee -a $LOG
go test -vet=off -count=1 -run 'TestSeededDemo' $PKGS >>$LOG 2>&1; WITH=$?
echo "demo with change exit=$WITH" | tee -a $LOG
git apply -R MUTANT.diff || { echo "cannot revert" | tee -a $LOG; exit 2; }
echo "== demo without change" | tee -a $LOG
go test -vet=off -count=1 -run 'TestSeededDemo' $PKGS >>$LOG 2>&1; WITHOUT=$?
echo "demo without change exit=$WITHOUT" | tee -a $LOG
git checkout -q -- . ; git apply MUTANT.diff
if [ $SUITE = 0 ] && [ $WITH != 0 ] && [ $WITHOUT = 0 ]; then
  OUT=/verif/seeded/$SID; mkdir -p $OUT
  cp MUTANT.diff $OUT/patch.diff
  for d in $DEMOS; do cp $d $OUT/$(basename $d).txt; done
  [ -f MUTANT.md ] && cp MUTANT.md $OUT/notes.md
  python3 - "$SID" "$PROP" "$DEMOS" <<'PY'
import json,sys
sid,prop,demos=sys.argv[1:4]
json.dump({"seed":sid,"property":prop,"base_commit":"56f77c32","demo_files":demos.split(),
 "confirmed":{"build":"go build ./... ok","suite_with_change":"go test -vet=off -count=1 ./... exit 0 (demo moved aside)","demo_with_change":"go test -run TestSeededDemo: FAIL","demo_without_change":"go test -run TestSeededDemo: ok"},
 "needs_to_manifest":"see notes.md","detected_by":"(filled in after running the checks)"},
 open(f"/verif/seeded/{sid}/meta.json","w"),indent=1)
PY
  echo "CONFIRMED $SID" | tee -a $LOG
  exit 0
fi
echo "NOT CONFIRMED $SID (suite=$SUITE with=$WITH without=$WITHOUT)" | tee -a $LOG
exit 1
