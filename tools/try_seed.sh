#!/bin/bash
# usage: try_seed.sh <patch.diff> [tier]   — applies a seeded defect to /repo, runs every check, reverts.
# Prints the properties whose check reports a VIOLATION. Never leaves /repo modified.
P="$1"; TIER="${2:-quick}"
cd /repo || exit 2
if ! git diff --quiet; then echo "/repo has uncommitted changes; refusing"; exit 2; fi
if ! git apply "$P" 2>/dev/null; then
  if ! git apply -3 "$P" 2>/dev/null; then
    patch -p1 --fuzz=3 -s < "$P" || { echo "patch does not apply"; git checkout -q -- .; exit 2; }
  fi
fi
git reset -q 2>/dev/null
cd /verif && ./setup.sh >/dev/null 2>&1
./bin/vcheck -all -tier "$TIER" -verif /tmp/tryseed-out 2>&1 | grep -E "^(FAIL|VIOLATION)" | cut -c1-400
cd /repo && git checkout -q -- . && git clean -fdq
git -C /repo status --short | head -3
