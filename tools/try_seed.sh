#!/bin/bash
# usage: try_seed.sh <patch.diff> [tier]   — applies a seeded defect to /repo, runs every check, reverts.
# Prints the properties whose check reports a VIOLATION. Never leaves /repo modified.
# The analyzer binary is NOT rebuilt here (build it first with ./setup.sh) so that editing rule
# sources while a matrix run is in flight cannot change the binary under it.
P="$1"; TIER="${2:-quick}"
cd /repo || exit 2
if [ -n "$(git status --porcelain)" ]; then echo "/repo has uncommitted changes; refusing"; exit 2; fi
restore() { git -C /repo reset -q --hard HEAD; git -C /repo clean -fdq; }
if ! git apply "$P" 2>/dev/null; then
  if ! patch -p1 --fuzz=3 -s --no-backup-if-mismatch < "$P" >/dev/null 2>&1; then
    echo "patch does not apply"; restore; exit 2
  fi
fi
rm -f $(git ls-files --others --exclude-standard | grep -E '\.(rej|orig)$') 2>/dev/null
cd /verif
./bin/vcheck -all -tier "$TIER" -verif /tmp/tryseed-out 2>&1 | grep -E "^(FAIL|VIOLATION)" | cut -c1-400
restore
git -C /repo status --short | head -3
