#!/bin/bash
# usage: try_refactors.sh <dir with refactor-N.diff> — applies each behaviour-preserving refactoring to /repo,
# runs every check and reports VIOLATION lines (each one is a false alarm to correct in the machinery).
D="$1"
for f in $(ls $D/refactor-*.diff | sort -V); do
  out=$(/verif/tools/try_seed.sh "$f")
  n=$(echo "$out" | grep -c "^VIOLATION")
  echo "== $(basename $D)/$(basename $f): violations=$n"
  echo "$out" | grep -E "^(FAIL|patch does not|/repo has)" | cut -c1-330 | head -6
done
