#!/usr/bin/env python3
"""Regenerates /verif/MANIFEST.json from the analyzer's registry (vcheck -manifest) and na.json."""
import json, subprocess, os
V = os.path.dirname(os.path.dirname(os.path.abspath(__file__)))
props = [json.loads(l) for l in open(os.path.join(V, 'properties.jsonl'))]
reg = {e['ID']: e for e in json.loads(subprocess.check_output([os.path.join(V, 'bin/vcheck'), '-manifest']))}
na = json.load(open(os.path.join(V, 'not_applicable.json')))
baseline = json.load(open('/root/.vp/BASELINE.json'))['cmd']
checks, notapp = [], []
for p in props:
    i = p['id']
    if i in reg:
        e = reg[i]
        checks.append({
            "property_id": i,
            "quick_cmd": f"./check.sh {i} quick",
            "thorough_cmd": f"./check.sh {i} thorough",
            "evidence_file": f"/verif/evidence/{i}.json",
            "replay_cmd_template": "cat {path}",
            "engine": "vcheck",
            "level_claimed": {
                "category": e['Level'],
                "text": ("Static decision of the structural clauses the property depends on, on every path of the current source: " + e['Explanation'] + " Not decided by this check: " + e['NotDecided']),
                "design_ref": f"DESIGN.md section 5, {i}",
            },
            "level_note": e['LevelNote'] or "Trusted base: go/types, go/ssa (x/tools v0.50.0) and its dominator tree, go/packages loading with the repo's go.mod; no centrifuge code is executed. A pass means the armed structural clauses hold on every path, not that the behavioural property holds.",
            "technique": e['Technique'] or "static analysis: SSA/CFG dominance, guard and lockset rules",
        })
    else:
        notapp.append({"property_id": i, "reason": na.get(i, "check not built yet (work in progress)")})
m = {
    "version": 1,
    "setup_cmd": "./setup.sh",
    "hooks": {"guard": "verif", "enable": "none needed: static analysis, nothing is executed; no hook commits", "baseline_off_cmd": baseline, "source_commits": [], "add_only": True},
    "engines": [{"name": "vcheck", "path": "tools/vcheck", "serves_properties": sorted(reg), "kind_free_text": "repository-specific static analyzer: go/packages + go/types + go/ssa; dominance/guard/order rules, must-hold locksets, who-may-write/call, case-set and field-table agreement, constant-table validation, linear bounds prover, Lua token lints"}],
    "checks": checks,
    "notes": "Technique family: static analysis. Every check inspects /repo's current working tree (type-checked, SSA) on each run; results of one analysis are shared between the per-property commands through a cache keyed by the hash of every .go/.lua/go.mod/go.sum/.proto file under /repo plus the analyzer binary. Known findings: known_findings.json.",
    "not_applicable": notapp,
}
json.dump(m, open(os.path.join(V, 'MANIFEST.json'), 'w'), indent=1)
print(len(checks), "claimed;", len(notapp), "not applicable/pending")
