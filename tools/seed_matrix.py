#!/usr/bin/env python3
"""Applies every confirmed seed under /verif/seeded/*/patch.diff and every behaviour-preserving
refactoring under /verif/refactors/*/refactor-*.diff to a scratch worktree of /repo (K in parallel; /repo
itself is never touched), runs ALL checks on it and records which properties report a violation.
A seed should be reported; any violation on a refactoring is a false alarm.
Writes seeded/MATRIX.md and updates each seed's meta.json.
usage: seed_matrix.py [seed-id ...] [--no-refactors] [-j K]"""
import json, os, subprocess, sys, glob, re, shutil
from concurrent.futures import ThreadPoolExecutor
import queue
V='/verif'
argv=sys.argv[1:]
K=4
if '-j' in argv:
    i=argv.index('-j'); K=int(argv[i+1]); del argv[i:i+2]
args=[a for a in argv if not a.startswith('--')]
only=set(args)
do_ref='--no-refactors' not in argv and not only
subprocess.run([f'{V}/setup.sh'],cwd=V)
def natkey(s):
    return [int(t) if t.isdigit() else t for t in re.split(r'(\d+)', s)]
# scratch worktrees
pool=queue.Queue()
wts=[]
for k in range(K):
    wt=f'/tmp/wt-matrix{k}'
    subprocess.run(['git','-C','/repo','worktree','remove','--force',wt],capture_output=True)
    subprocess.run(['git','-C','/repo','worktree','prune'],capture_output=True)
    r=subprocess.run(['git','-C','/repo','worktree','add','-q','--detach',wt,'HEAD'],capture_output=True,text=True)
    if r.returncode!=0:
        print('cannot create worktree',wt,r.stderr); sys.exit(2)
    wts.append(wt); pool.put(wt)
def run(patch):
    wt=pool.get()
    try:
        out=subprocess.run([f'{V}/tools/try_patch_wt.sh', patch, wt], capture_output=True, text=True, errors='replace').stdout
    finally:
        pool.put(wt)
    props=sorted({l.split('property=')[1].split()[0] for l in out.splitlines() if l.startswith('VIOLATION')})
    fails=[l for l in out.splitlines() if l.startswith('FAIL')]
    rules=sorted({l.split()[2] for l in fails if len(l.split())>2})
    if any(l.startswith('patch does not apply') for l in out.splitlines()): props=['PATCH-DOES-NOT-APPLY']
    return props,rules,fails
seeds=[]
for d in sorted(glob.glob(f'{V}/seeded/*/'), key=natkey):
    sid=os.path.basename(d.rstrip('/'))
    if only and sid not in only: continue
    if os.path.exists(os.path.join(d,'patch.diff')): seeds.append((sid,d))
refs=sorted(glob.glob(f'{V}/refactors/*/refactor-*.diff'), key=natkey) if do_ref else []
rows=[]; ref_rows=[]
with ThreadPoolExecutor(max_workers=K) as ex:
    futs=[(sid,d,ex.submit(run,os.path.join(d,'patch.diff'))) for sid,d in seeds]
    rfuts=[(p,ex.submit(run,p)) for p in refs]
    for sid,d,f in futs:
        props,rules,fails=f.result()
        meta=json.load(open(os.path.join(d,'meta.json')))
        meta['detected_by']=props; meta['rules_fired']=rules
        meta['first_report']=fails[0][:300] if fails else ''
        json.dump(meta,open(os.path.join(d,'meta.json'),'w'),indent=1)
        rows.append((sid,meta['property'],props,rules))
        print(sid,meta['property'],props,rules,flush=True)
    for p,f in rfuts:
        props,rules,fails=f.result()
        name='/'.join(p.split('/')[-2:])
        ref_rows.append((name,props))
        print('REFACTOR',name,props,(fails[0][:160] if fails else ''),flush=True)
for wt in wts:
    subprocess.run(['git','-C','/repo','worktree','remove','--force',wt],capture_output=True)
    shutil.rmtree(f'/tmp/trywt-{os.path.basename(wt)}',ignore_errors=True)
subprocess.run(['git','-C','/repo','worktree','prune'],capture_output=True)
if not only:
    with open(f'{V}/seeded/MATRIX.md','w') as f:
        f.write('# Seeded defects vs checks\n\nEach row: a sub-agent-written defect (confirmed: builds, suite green, demo fails with / passes without), the property it was written against, and the checks that report it when the patch is applied to a copy of /repo. Seeds named -2 come from a second round in which the agent was told which site the first round had used.\n\n| seed | target | detected by | rules |\n|---|---|---|---|\n')
        for sid,prop,props,rules in rows:
            f.write(f"| {sid} | {prop} | {', '.join(props) or '**missed**'} | {', '.join(rules)} |\n")
        det=sum(1 for r in rows if r[2] and r[2]!=['PATCH-DOES-NOT-APPLY'])
        f.write(f"\n{det} of {len(rows)} seeds are reported.\n")
        if ref_rows:
            f.write('\n# Behaviour-preserving refactorings (must stay silent)\n\nWritten by sub-agents asked for clean-ups that change no behaviour (extract/inline helper, rename, if-chain ↔ switch, early returns, reorder independent statements, defer ↔ explicit unlock, stdlib replacements, move to another file). Any violation here is a false alarm.\n\n| refactoring | alarms |\n|---|---|\n')
            for name,props in ref_rows:
                f.write(f"| {name} | {', '.join(props) or 'none'} |\n")
            bad=sum(1 for r in ref_rows if r[1])
            f.write(f"\n{len(ref_rows)-bad} of {len(ref_rows)} refactorings raise no alarm.\n")
