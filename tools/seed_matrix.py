#!/usr/bin/env python3
"""Applies every confirmed seed under /verif/seeded/*/patch.diff to /repo (one at a time, reverted afterwards),
runs all checks and records which properties report a violation; then does the same with every
behaviour-preserving refactoring under /verif/refactors/*/refactor-*.diff, where ANY violation is a false alarm.
Writes seeded/MATRIX.md and updates each seed's meta.json.
usage: seed_matrix.py [seed-id ...] [--no-refactors]"""
import json, os, subprocess, sys, glob, re
V='/verif'
os.makedirs('/tmp/tryseed-out', exist_ok=True)
subprocess.run(['cp', f'{V}/known_findings.json', '/tmp/tryseed-out/'])
args=[a for a in sys.argv[1:] if not a.startswith('--')]
only=set(args)
do_ref='--no-refactors' not in sys.argv and not only
rows=[]
def natkey(s):
    return [int(t) if t.isdigit() else t for t in re.split(r'(\d+)', s)]
for d in sorted(glob.glob(f'{V}/seeded/*/'), key=natkey):
    sid=os.path.basename(d.rstrip('/'))
    if only and sid not in only: continue
    p=os.path.join(d,'patch.diff')
    if not os.path.exists(p): continue
    out=subprocess.run([f'{V}/tools/try_seed.sh', p], capture_output=True, text=True).stdout
    props=sorted({l.split('property=')[1].split()[0] for l in out.splitlines() if l.startswith('VIOLATION')})
    fails=[l for l in out.splitlines() if l.startswith('FAIL')]
    rules=sorted({l.split()[2] for l in fails if len(l.split())>2})
    meta=json.load(open(os.path.join(d,'meta.json')))
    meta['detected_by']=props
    meta['rules_fired']=rules
    meta['first_report']=fails[0][:300] if fails else ''
    if 'does not apply' in out or 'refusing' in out: meta['detected_by']=['PATCH-DOES-NOT-APPLY']
    json.dump(meta,open(os.path.join(d,'meta.json'),'w'),indent=1)
    rows.append((sid,meta['property'],meta['detected_by'],rules))
    print(sid,meta['property'],meta['detected_by'],rules,flush=True)
ref_rows=[]
if do_ref:
    for p in sorted(glob.glob(f'{V}/refactors/*/refactor-*.diff'), key=natkey):
        name='/'.join(p.split('/')[-2:])
        out=subprocess.run([f'{V}/tools/try_seed.sh', p], capture_output=True, text=True).stdout
        props=sorted({l.split('property=')[1].split()[0] for l in out.splitlines() if l.startswith('VIOLATION')})
        if 'does not apply' in out or 'refusing' in out: props=['PATCH-DOES-NOT-APPLY']
        ref_rows.append((name,props))
        print('REFACTOR',name,props,flush=True)
if not only:
    with open(f'{V}/seeded/MATRIX.md','w') as f:
        f.write('# Seeded defects vs checks\n\nEach row: a sub-agent-written defect (confirmed: builds, suite green, demo fails with / passes without), the property it was written against, and the checks that report it when the patch is applied to /repo. Seeds named -2 come from a second round in which the agent was told which site the first round had used.\n\n| seed | target | detected by | rules |\n|---|---|---|---|\n')
        for sid,prop,props,rules in rows:
            f.write(f"| {sid} | {prop} | {', '.join(props) or '**missed**'} | {', '.join(rules)} |\n")
        det=sum(1 for r in rows if r[2] and r[2]!=['PATCH-DOES-NOT-APPLY'])
        f.write(f"\n{det} of {len(rows)} seeds are reported.\n")
        if ref_rows:
            f.write('\n# Behaviour-preserving refactorings (must stay silent)\n\nWritten by sub-agents asked for clean-ups that change no behaviour (extract/inline helper, rename, if-chain ↔ switch, early returns, reorder independent statements, defer ↔ explicit unlock, stdlib replacements, move to another file). Any violation here is a false alarm.\n\n| refactoring | alarms |\n|---|---|\n')
            for name,props in ref_rows:
                f.write(f"| {name} | {', '.join(props) or 'none'} |\n")
            bad=sum(1 for r in ref_rows if r[1])
            f.write(f"\n{len(ref_rows)-bad} of {len(ref_rows)} refactorings raise no alarm.\n")
