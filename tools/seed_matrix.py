#!/usr/bin/env python3
"""Applies every confirmed seed under /verif/seeded/*/patch.diff to /repo (one at a time, reverted afterwards),
runs all checks and records which properties report a violation. Writes seeded/MATRIX.md and updates meta.json."""
import json, os, subprocess, sys, glob
V='/verif'
os.makedirs('/tmp/tryseed-out', exist_ok=True)
subprocess.run(['cp', f'{V}/known_findings.json', '/tmp/tryseed-out/'])
rows=[]
only=set(sys.argv[1:])
for d in sorted(glob.glob(f'{V}/seeded/*/')):
    sid=os.path.basename(d.rstrip('/'))
    if only and sid not in only: continue
    p=os.path.join(d,'patch.diff')
    if not os.path.exists(p): continue
    out=subprocess.run([f'{V}/tools/try_seed.sh', p], capture_output=True, text=True).stdout
    props=sorted({l.split('property=')[1].split()[0] for l in out.splitlines() if l.startswith('VIOLATION')})
    fails=[l for l in out.splitlines() if l.startswith('FAIL')]
    rules=sorted({l.split()[2] for l in fails if len(l.split())>2})
    meta=json.load(open(os.path.join(d,'meta.json')))
    meta['detected_by']=props
    meta['rules_fired']=rules
    meta['first_report']=fails[0][:300] if fails else ''
    if 'does not apply' in out: meta['detected_by']=['PATCH-DOES-NOT-APPLY']
    json.dump(meta,open(os.path.join(d,'meta.json'),'w'),indent=1)
    rows.append((sid,meta['property'],props,rules))
    print(sid,meta['property'],props,rules,flush=True)
if not only:
    with open(f'{V}/seeded/MATRIX.md','w') as f:
        f.write('# Seeded defects vs checks\n\nEach row: a sub-agent-written defect (confirmed: builds, suite green, demo fails with / passes without), the property it was written against, and the checks that report it when the patch is applied to /repo.\n\n| seed | target | detected by | rules |\n|---|---|---|---|\n')
        for sid,prop,props,rules in rows:
            f.write(f"| {sid} | {prop} | {', '.join(props) or '**missed**'} | {', '.join(rules)} |\n")
