package main

import (
	"crypto/sha256"
	"encoding/hex"
	"encoding/json"
	"flag"
	"fmt"
	"io"
	"os"
	"path/filepath"
	"runtime/debug"
	"sort"
	"strconv"
	"strings"
	"syscall"
	"time"

	"golang.org/x/tools/go/ssa"
)

type buildConfig struct {
	Label string
	Env   []string
	Flags []string
}

var quickConfigs = []buildConfig{{Label: "default"}}
var thoroughConfigs = []buildConfig{
	{Label: "default"},
	{Label: "tags=appengine", Flags: []string{"-tags=appengine"}},
	{Label: "GOARCH=386", Env: []string{"GOARCH=386"}},
}

func selfHash() string {
	exe, err := os.Executable()
	if err != nil {
		return "noexe"
	}
	f, err := os.Open(exe)
	if err != nil {
		return "noexe"
	}
	defer f.Close()
	h := sha256.New()
	io.Copy(h, f)
	return hex.EncodeToString(h.Sum(nil))[:16]
}

func analyse(repo, tier string, only string) *RunResult {
	start := time.Now()
	rr := &RunResult{Tier: tier, Props: map[string]*PropResult{}}
	cfgs := quickConfigs
	if tier == "thorough" {
		cfgs = thoroughConfigs
	}
	ids := propIDs()
	for ci, bc := range cfgs {
		w, err := LoadWorld(repo, bc.Label, bc.Env, bc.Flags)
		if err != nil {
			rr.LoadErr = fmt.Sprintf("[%s] %v", bc.Label, err)
			break
		}
		rr.Configs = append(rr.Configs, bc.Label)
		if ci == 0 {
			rr.Packages = len(w.Pkgs)
			rr.PkgsTotal = w.NPkgsTotal
			rr.Funcs = len(w.AllFuncs)
		}
		for _, id := range ids {
			if only != "" && id != only {
				continue
			}
			pr := runProp(w, id)
			if ci == 0 {
				rr.Props[id] = pr
			} else {
				// merge: keep failing obligations of other configs and those not seen before
				base := rr.Props[id]
				have := map[string]bool{}
				for _, o := range base.Obs {
					have[o.Rule+"|"+o.Site] = true
				}
				for _, o := range pr.Obs {
					if !o.OK || !have[o.Rule+"|"+o.Site] {
						if !o.OK && have[o.Rule+"|"+o.Site] {
							// already reported failing in base config? keep one
							dup := false
							for _, b := range base.Obs {
								if b.Rule == o.Rule && b.Site == o.Site && !b.OK {
									dup = true
								}
							}
							if dup {
								continue
							}
						}
						base.Obs = append(base.Obs, o)
					}
				}
			}
		}
		w = nil
		debug.FreeOSMemory()
	}
	rr.WallS = time.Since(start).Seconds()
	return rr
}

func propIDs() []string {
	ids := make([]string, 0, len(registry))
	for id := range registry {
		ids = append(ids, id)
	}
	sort.Strings(ids)
	return ids
}

func main() {
	prop := flag.String("prop", "", "property id (C01…); empty with -all prints a summary of all")
	tier := flag.String("tier", "quick", "quick|thorough")
	repo := flag.String("repo", "/repo", "repository root")
	verif := flag.String("verif", "/verif", "verif root (evidence, cache, known findings)")
	all := flag.Bool("all", false, "evaluate all properties and print a summary")
	nocache := flag.Bool("nocache", false, "ignore the result cache")
	dump := flag.String("dump", "", "debug: dump guards/locks for pkg:func")
	list := flag.Bool("list", false, "list registered properties")
	manifest := flag.Bool("manifest", false, "print per-property manifest metadata as JSON")
	flag.Parse()
	addRound2Docs()
	start := time.Now()
	if *list {
		for _, id := range propIDs() {
			fmt.Println(id, registry[id].Level)
		}
		return
	}
	if *manifest {
		printManifest()
		return
	}
	if *dump != "" {
		doDump(*repo, *dump)
		return
	}
	if t := os.Getenv("VERIF_TIER"); t == "quick" || t == "thorough" {
		if !flagPassed("tier") {
			*tier = t
		}
	}
	seed, _ := strconv.ParseInt(os.Getenv("VERIF_SEED"), 10, 64)
	if *prop != "" && registry[*prop] == nil {
		fmt.Fprintf(os.Stderr, "unknown property %s\n", *prop)
		os.Exit(2)
	}
	hash, nfiles, err := TreeHash(*repo)
	if err != nil || nfiles == 0 {
		fmt.Fprintf(os.Stderr, "cannot hash %s: %v (files=%d)\n", *repo, err, nfiles)
		os.Exit(2)
	}
	cacheDir := filepath.Join(*verif, ".cache")
	os.MkdirAll(cacheDir, 0o755)
	cacheFile := filepath.Join(cacheDir, fmt.Sprintf("%s-%s-%s.json", hash[:24], *tier, selfHash()))
	var rr *RunResult
	cacheHit := false
	// serialise the expensive analysis across concurrent invocations
	lock, lerr := os.OpenFile(filepath.Join(cacheDir, "lock-"+*tier), os.O_CREATE|os.O_RDWR, 0o644)
	if lerr == nil {
		syscall.Flock(int(lock.Fd()), syscall.LOCK_EX)
	}
	if !*nocache {
		if b, err := os.ReadFile(cacheFile); err == nil {
			var c RunResult
			if json.Unmarshal(b, &c) == nil && c.TreeHash == hash && c.LoadErr == "" {
				rr = &c
				cacheHit = true
			}
		}
	}
	if rr == nil {
		rr = analyse(*repo, *tier, "")
		rr.TreeHash = hash
		if b, err := json.Marshal(rr); err == nil && rr.LoadErr == "" {
			tmp := cacheFile + ".tmp"
			if os.WriteFile(tmp, b, 0o644) == nil {
				os.Rename(tmp, cacheFile)
			}
			pruneCache(cacheDir, cacheFile)
		}
	}
	if lerr == nil {
		syscall.Flock(int(lock.Fd()), syscall.LOCK_UN)
		lock.Close()
	}
	wall := time.Since(start).Seconds()
	if *all {
		code := 0
		for _, id := range propIDs() {
			if c := emit(rr, id, *tier, seed, wall, cacheHit, *verif); c != 0 {
				code = 1
			}
		}
		os.Exit(code)
	}
	if *prop == "" {
		fmt.Fprintln(os.Stderr, "need -prop or -all")
		os.Exit(2)
	}
	os.Exit(emit(rr, *prop, *tier, seed, wall, cacheHit, *verif))
}

func flagPassed(name string) bool {
	found := false
	flag.Visit(func(f *flag.Flag) {
		if f.Name == name {
			found = true
		}
	})
	return found
}

func pruneCache(dir, keep string) {
	ents, err := os.ReadDir(dir)
	if err != nil {
		return
	}
	type fi struct {
		p string
		t time.Time
	}
	var fs []fi
	for _, e := range ents {
		if !strings.HasSuffix(e.Name(), ".json") {
			continue
		}
		info, err := e.Info()
		if err != nil {
			continue
		}
		fs = append(fs, fi{filepath.Join(dir, e.Name()), info.ModTime()})
	}
	sort.Slice(fs, func(i, j int) bool { return fs[i].t.After(fs[j].t) })
	for i, f := range fs {
		if i >= 6 && f.p != keep {
			os.Remove(f.p)
		}
	}
}

// doDump prints, for each call/store in a function, its descriptor, guards and lockset (debug aid).
func doDump(repo, spec string) {
	w, err := LoadWorld(repo, "default", nil, nil)
	if err != nil {
		fmt.Println(err)
		os.Exit(2)
	}
	parts := strings.SplitN(spec, ":", 2)
	fn := w.Func(parts[0], parts[1])
	if fn == nil {
		fmt.Println("unresolved", spec)
		os.Exit(2)
	}
	li := w.Locks()
	if dbgHook != nil {
		dbgHook(w)
	}
	for _, f := range WithClosures(fn) {
		fmt.Printf("== %s entry locks %s\n", FuncName(f), li.Entry(f))
		for _, b := range f.Blocks {
			for _, in := range b.Instrs {
				var d string
				switch x := in.(type) {
				case *ssa.Call:
					d = "call " + D(x)
				case *ssa.Go:
					d = "go " + calleeName(x.Common())
				case *ssa.Defer:
					d = "defer " + calleeName(x.Common())
				case *ssa.Store:
					d = "store " + D(x.Addr) + " = " + D(x.Val)
				case *ssa.MapUpdate:
					d = "mapupdate " + D(x.Map) + "[" + D(x.Key) + "] = " + D(x.Value)
				case *ssa.Return:
					rs := []string{}
					for _, r := range x.Results {
						rs = append(rs, D(r))
					}
					d = "return " + strings.Join(rs, ", ")
				case *ssa.If:
					d = "if " + D(x.Cond)
				default:
					continue
				}
				fmt.Printf("b%d %s  %s\n      guards=%v\n      locks=%s\n", b.Index, w.InstrPos(in), d, GuardStrings(in), li.HeldAt(in))
			}
		}
	}
}

func printManifest() {
	type ent struct {
		ID, Level, Explanation, NotDecided, Technique, LevelNote string
		Rules                                                    map[string]string
	}
	var out []ent
	for _, id := range propIDs() {
		m := registry[id]
		out = append(out, ent{m.ID, m.Level, m.Explanation, m.NotDecided, m.Technique, m.LevelNote, m.Rules})
	}
	b, _ := json.MarshalIndent(out, "", " ")
	fmt.Println(string(b))
}
