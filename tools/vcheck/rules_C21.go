package main

import (
	"fmt"
	"go/token"
	"go/types"
	"strings"

	"golang.org/x/tools/go/ssa"
)

func init() {
	register(&PropMeta{
		ID:    "C21",
		Level: "other",
		Explanation: "memory map broker, the clauses whose truth is in the shape of the code: (R1) the sort comparator of getState and the cursor-search predicates touch keys and scores only through comparisons, so both are evaluated exactly over the finite domain of orderings (sign of score difference × sign of key comparison × asc): the comparator is a strict total order on (score,key) and the predicate is exactly \"strictly after the cursor in that order\" in both directions, and the unordered predicate is \"key > cursor\" against sort.Strings; " +
			"(R2) the next cursor is built from the last element of the returned page, with the score read from the same score table the comparator sorts by; (R3) a page with Limit>0 past a valid start index is non-empty (progress) and pages are the contiguous slice [start,end) of the sorted keys; (R4) every function that inserts, deletes or re-scores a state entry marks the sorted-key cache dirty on that path, and getState re-sorts when it is dirty or the order/direction differs; (R5) a single-key read returns the stored entry for exactly that key before any pagination.",
		NotDecided: "the Redis scripts' pagination (ZRANGE/HSCAN semantics are Redis'); behaviour when the state changes between pages; that sort.Slice/sort.Search are correct for a strict total order and a monotone predicate (standard library).",
		Rules: map[string]string{"C21.R1": "exact finite-domain evaluation of comparator vs cursor predicate", "C21.R2": "value flow of the next cursor", "C21.R3": "K9/K2 progress and contiguity", "C21.R4": "K1 mutation ⇒ dirty flag; K2 re-sort condition", "C21.R5": "K1 single-key branch precedes pagination"},
		Run: runC21,
	})
}

type ordSym struct {
	kind string // score | key
	side int    // 0 = element A (first index parameter), 1 = element B (second parameter / the cursor)
}

type ordEnv struct {
	cs, ck int // sign(scoreA - scoreB), sign(keyA vs keyB)
	asc    bool
}

// ordClassify maps an SSA value inside a comparator/predicate closure to a symbol.
func ordClassify(fn *ssa.Function, v ssa.Value, depth int) (ordSym, bool) {
	if depth > 8 {
		return ordSym{}, false
	}
	switch x := v.(type) {
	case *ssa.Lookup: // scores[key]
		if k, ok := ordClassify(fn, x.Index, depth+1); ok && k.kind == "key" {
			return ordSym{"score", k.side}, true
		}
	case *ssa.UnOp:
		if x.Op != token.MUL {
			return ordSym{}, false
		}
		switch a := x.X.(type) {
		case *ssa.IndexAddr: // sortedKeys[i]
			if p, ok := a.Index.(*ssa.Parameter); ok {
				for i, fp := range fn.Params {
					if fp == p {
						return ordSym{"key", i}, true
					}
				}
			}
		case *ssa.FreeVar: // captured cursor value
			return ordByType(deref(a.Type()))
		case *ssa.Alloc:
			if sv := singleStore(a); sv != nil {
				return ordClassify(fn, sv, depth+1)
			}
		}
	case *ssa.FreeVar:
		return ordByType(x.Type())
	case *ssa.Extract, *ssa.Parameter:
		return ordSym{}, false
	}
	return ordSym{}, false
}

func ordByType(t types.Type) (ordSym, bool) {
	if b, ok := t.Underlying().(*types.Basic); ok {
		switch b.Kind() {
		case types.Int64:
			return ordSym{"score", 1}, true
		case types.String:
			return ordSym{"key", 1}, true
		}
	}
	return ordSym{}, false
}

func isAscValue(v ssa.Value) bool {
	switch x := v.(type) {
	case *ssa.UnOp:
		if x.Op == token.MUL {
			if fv, ok := x.X.(*ssa.FreeVar); ok {
				if b, ok := deref(fv.Type()).Underlying().(*types.Basic); ok && b.Kind() == types.Bool {
					return true
				}
			}
		}
	case *ssa.FreeVar:
		if b, ok := x.Type().Underlying().(*types.Basic); ok && b.Kind() == types.Bool {
			return true
		}
	}
	return false
}

// evalOrderFn interprets a comparison-only closure under one ordering.
func evalOrderFn(fn *ssa.Function, env ordEnv) (bool, error) {
	if len(fn.Blocks) == 0 {
		return false, fmt.Errorf("no body")
	}
	var prev *ssa.BasicBlock
	b := fn.Blocks[0]
	var evalBoolV func(v ssa.Value, depth int) (bool, error)
	evalBoolV = func(v ssa.Value, depth int) (bool, error) {
		if depth > 10 {
			return false, fmt.Errorf("too deep")
		}
		if bv, ok := boolConst(v); ok {
			return bv, nil
		}
		if isAscValue(v) {
			return env.asc, nil
		}
		switch x := v.(type) {
		case *ssa.UnOp:
			if x.Op == token.NOT {
				r, err := evalBoolV(x.X, depth+1)
				return !r, err
			}
		case *ssa.Phi:
			for i, p := range x.Block().Preds {
				if p == prev {
					return evalBoolV(x.Edges[i], depth+1)
				}
			}
			return false, fmt.Errorf("phi without predecessor")
		case *ssa.BinOp:
			sx, okx := ordClassify(fn, x.X, 0)
			sy, oky := ordClassify(fn, x.Y, 0)
			if !okx || !oky || sx.kind != sy.kind || sx.side == sy.side {
				return false, fmt.Errorf("comparison of unclassified operands: %s", D(x))
			}
			s := env.cs
			if sx.kind == "key" {
				s = env.ck
			}
			if sx.side == 1 {
				s = -s
			}
			switch x.Op {
			case token.LSS:
				return s < 0, nil
			case token.GTR:
				return s > 0, nil
			case token.LEQ:
				return s <= 0, nil
			case token.GEQ:
				return s >= 0, nil
			case token.EQL:
				return s == 0, nil
			case token.NEQ:
				return s != 0, nil
			}
		}
		return false, fmt.Errorf("not a comparison-only value: %s", D(v))
	}
	for steps := 0; steps < 64; steps++ {
		last := b.Instrs[len(b.Instrs)-1]
		switch x := last.(type) {
		case *ssa.If:
			r, err := evalBoolV(x.Cond, 0)
			if err != nil {
				return false, err
			}
			prev = b
			if r {
				b = b.Succs[0]
			} else {
				b = b.Succs[1]
			}
		case *ssa.Jump:
			prev = b
			b = b.Succs[0]
		case *ssa.Return:
			if len(x.Results) != 1 {
				return false, fmt.Errorf("unexpected results")
			}
			return evalBoolV(x.Results[0], 0)
		default:
			return false, fmt.Errorf("unexpected terminator")
		}
	}
	return false, fmt.Errorf("no return reached")
}

// closureArg returns the function literal passed as argument idx of the first call to pkg.name in fn.
func closureArg(fn *ssa.Function, name string, idx int) *ssa.Function {
	var out *ssa.Function
	EachInstr(fn, func(in ssa.Instruction) {
		ci := asCall(in)
		if ci == nil || out != nil {
			return
		}
		cal := ci.Common().StaticCallee()
		if cal == nil || cal.Pkg == nil || cal.Pkg.Pkg.Path()+"."+cal.Name() != name || len(ci.Common().Args) <= idx {
			return
		}
		v := ci.Common().Args[idx]
		if mi, ok := v.(*ssa.MakeInterface); ok {
			v = mi.X
		}
		if mc, ok := v.(*ssa.MakeClosure); ok {
			out, _ = mc.Fn.(*ssa.Function)
		}
	})
	return out
}

// lastOfPage: v is sortedKeys[end-1] of the channel (the last key of the page being returned).
func lastOfPage(v ssa.Value) bool {
	u, ok := v.(*ssa.UnOp)
	if !ok || u.Op != token.MUL {
		return false
	}
	ia, ok := u.X.(*ssa.IndexAddr)
	if !ok || !loadsField(ia.X, "mapChannel", "sortedKeys") {
		return false
	}
	b, ok := ia.Index.(*ssa.BinOp)
	if !ok || b.Op != token.SUB {
		return false
	}
	one, isC := constIntOf(b.Y)
	if !isC || one != 1 {
		return false
	}
	// the minuend is the page end: (start + Limit) possibly clamped to the total
	return strings.Contains(D(b.X), "MapReadStateOptions.Limit")
}

var signs = []int{-1, 0, 1}

func signName(s int) string { return map[int]string{-1: "<", 0: "=", 1: ">"}[s] }

func runC21(c *Ctx) {
	w := c.W
	gs := c.Fn("C21.R1", "centrifuge", "(*mapHub).getState")
	fo := c.Fn("C21.R1", "centrifuge", "findOrderedCursorPosition")
	fu := c.Fn("C21.R1", "centrifuge", "findUnorderedCursorPosition")
	if gs == nil || fo == nil || fu == nil {
		return
	}
	less := closureArg(gs, "sort.Slice", 1)
	after := closureArg(fo, "sort.Search", 1)
	afterU := closureArg(fu, "sort.Search", 1)
	if !c.Anchor("C21.R1", "sort.Slice comparator in getState", less != nil) || !c.Anchor("C21.R1", "sort.Search predicate in findOrderedCursorPosition", after != nil) || !c.Anchor("C21.R1", "sort.Search predicate in findUnorderedCursorPosition", afterU != nil) {
		return
	}
	for _, asc := range []bool{true, false} {
		dir := map[bool]string{true: "asc", false: "desc"}[asc]
		for _, cs := range signs {
			for _, ck := range signs {
				site := fmt.Sprintf("ordered %s, score %s cursor score, key %s cursor key", dir, signName(cs), signName(ck))
				lAB, e1 := evalOrderFn(less, ordEnv{cs, ck, asc})
				lBA, e2 := evalOrderFn(less, ordEnv{-cs, -ck, asc})
				aft, e3 := evalOrderFn(after, ordEnv{cs, ck, asc})
				if e1 != nil || e2 != nil || e3 != nil {
					c.CheckAt("C21.R1", site+": comparator and predicate are comparison-only", w.Pos(less.Pos()), false, fmt.Sprint("cannot evaluate: ", e1, e2, e3))
					continue
				}
				// strict total order (keys are unique: cs==0 && ck==0 is the same entry)
				if cs == 0 && ck == 0 {
					c.CheckAt("C21.R1", site+": comparator is irreflexive", w.Pos(less.Pos()), !lAB, "less(x,x) must be false")
					c.CheckAt("C21.R1", site+": the cursor entry itself is not after the cursor", w.Pos(after.Pos()), !aft, "the last key of the previous page would be returned twice")
					continue
				}
				c.CheckAt("C21.R1", site+": comparator orders every two distinct entries one way", w.Pos(less.Pos()), lAB != lBA, fmt.Sprintf("less(a,b)=%v less(b,a)=%v: not a strict total order, the sorted sequence is not determined", lAB, lBA))
				c.CheckAt("C21.R1", site+": entry is after the cursor exactly when the cursor sorts before it", w.Pos(after.Pos()), aft == lBA,
					fmt.Sprintf("predicate says %v, the sort order says %v: the binary search starts the next page at the wrong element, so a key is skipped or returned twice", aft, lBA))
			}
		}
	}
	for _, ck := range signs {
		aft, err := evalOrderFn(afterU, ordEnv{0, ck, true})
		site := fmt.Sprintf("unordered, key %s cursor", signName(ck))
		if err != nil {
			c.CheckAt("C21.R1", site+": predicate is comparison-only", w.Pos(afterU.Pos()), false, err.Error())
			continue
		}
		c.CheckAt("C21.R1", site+": entry is after the cursor exactly when its key is greater (sort.Strings order)", w.Pos(afterU.Pos()), aft == (ck > 0), fmt.Sprintf("predicate says %v", aft))
	}
	c.CheckAt("C21.R1", "unordered state is sorted with sort.Strings", w.Pos(gs.Pos()), len(CallsIn(gs, false, w.calleeIs("sort.Strings"))) == 1, "")
	// both sorts sort the sortedKeys of the channel, and the comparator reads the channel's scores
	scoreReads := 0
	EachInstr(less, func(in ssa.Instruction) {
		if lk, ok := in.(*ssa.Lookup); ok && strings.HasSuffix(D(lk.X), "mapChannel.scores") {
			scoreReads++
		}
	})
	c.CheckAt("C21.R1", "comparator reads scores from mapChannel.scores", w.Pos(less.Pos()), scoreReads == 2, fmt.Sprintf("%d reads", scoreReads))
	// the search is called with the same tables and the request's direction
	for _, ci := range CallsIn(gs, false, w.calleeFn(fo)) {
		a := ci.Common().Args
		ok := loadsField(a[0], "mapChannel", "sortedKeys") && loadsField(a[1], "mapChannel", "scores") && strings.HasSuffix(D(a[2]), "MapReadStateOptions.Cursor") && strings.HasSuffix(D(a[3]), "MapReadStateOptions.Asc")
		c.Check("C21.R1", ci, "ordered cursor search runs over the sorted keys, the score table, the request cursor and the request direction", ok, fmt.Sprint(D(a[0]), ", ", D(a[1]), ", ", D(a[2]), ", ", D(a[3])))
		c.Check("C21.R1", ci, "ordered search only for an ordered channel", GuardedBy(ci, func(g Guard) bool { return g.Pol && loadsField(g.Cond, "mapChannel", "ordered") }), strings.Join(GuardStrings(ci), " && "))
	}
	for _, ci := range CallsIn(gs, false, w.calleeFn(fu)) {
		a := ci.Common().Args
		c.Check("C21.R1", ci, "unordered cursor search runs over the sorted keys and the request cursor", loadsField(a[0], "mapChannel", "sortedKeys") && strings.HasSuffix(D(a[1]), "MapReadStateOptions.Cursor"), "")
		c.Check("C21.R1", ci, "unordered search only for an unordered channel", GuardedBy(ci, func(g Guard) bool { return !g.Pol && loadsField(g.Cond, "mapChannel", "ordered") }), strings.Join(GuardStrings(ci), " && "))
	}
	// the comparator's direction is the request's direction
	// (the direction variable is found through the comparator closure's bool binding, not by name)
	ascStores := 0
	EachInstr(gs, func(in ssa.Instruction) {
		mc, ok := in.(*ssa.MakeClosure)
		if !ok || mc.Fn != less {
			return
		}
		for _, b := range mc.Bindings {
			al, isAlloc := b.(*ssa.Alloc)
			if !isAlloc {
				if bb, isB := b.Type().Underlying().(*types.Basic); isB && bb.Kind() == types.Bool {
					ascStores++
					c.Check("C21.R1", in, "comparator direction is the request's Asc", strings.HasSuffix(D(b), "MapReadStateOptions.Asc"), D(b))
				}
				continue
			}
			if bb, isB := deref(al.Type()).Underlying().(*types.Basic); !isB || bb.Kind() != types.Bool {
				continue
			}
			for _, r := range *al.Referrers() {
				if st, ok := r.(*ssa.Store); ok && st.Addr == al {
					ascStores++
					c.Check("C21.R1", st, "comparator direction is the request's Asc", strings.HasSuffix(D(st.Val), "MapReadStateOptions.Asc"), D(st.Val))
				}
			}
		}
	})
	c.Anchor("C21.R1", "direction captured by the comparator", ascStores >= 1)

	// ---- R2 next cursor
	mk := w.Func("centrifuge", "MakeOrderedCursor")
	if c.Anchor("C21.R2", "MakeOrderedCursor", mk != nil) {
		calls := CallsIn(gs, false, w.calleeFn(mk))
		if c.Anchor("C21.R2", "MakeOrderedCursor call in getState", len(calls) == 1) {
			a := calls[0].Common().Args
			d0, d1 := D(a[0]), D(a[1])
			okKey := lastOfPage(a[1])
			okScore := false
			if fc, ok := a[0].(*ssa.Call); ok {
				if cal := fc.Call.StaticCallee(); cal != nil && cal.Name() == "FormatInt" {
					if lk, ok := fc.Call.Args[0].(*ssa.Lookup); ok {
						okScore = loadsField(lk.X, "mapChannel", "scores") && lastOfPage(lk.Index)
					}
				}
			}
			c.Check("C21.R2", calls[0], "ordered cursor key is the last key of the page", okKey, d1)
			c.Check("C21.R2", calls[0], "ordered cursor score is that key's entry in the score table the comparator sorts by", okScore, d0)
		}
		// MakeOrderedCursor and parseOrderedCursor agree on the separator
		pc := w.Func("centrifuge", "parseOrderedCursor")
		if c.Anchor("C21.R2", "parseOrderedCursor", pc != nil) {
			sepMake, sepParse := "", int64(-1)
			EachInstr(mk, func(in ssa.Instruction) {
				if b, ok := in.(*ssa.BinOp); ok && b.Op == token.ADD {
					if s, isS := constStrOf(b.Y); isS {
						sepMake = s
					}
				}
			})
			EachInstr(pc, func(in ssa.Instruction) {
				if b, ok := in.(*ssa.BinOp); ok && b.Op == token.EQL {
					if v, isC := constIntOf(b.Y); isC {
						sepParse = v
					}
				}
			})
			c.CheckAt("C21.R2", "MakeOrderedCursor and parseOrderedCursor use the same separator, which cannot occur in a decimal score", w.Pos(mk.Pos()), len(sepMake) == 1 && int64(sepMake[0]) == sepParse && (sepMake[0] < '0' || sepMake[0] > '9') && sepMake[0] != '-', fmt.Sprintf("%q vs %d", sepMake, sepParse))
		}
	}
	// unordered cursor = last key: the Cursor field of the result
	okU := false
	var walkCursor func(v ssa.Value, depth int)
	seenCur := map[ssa.Value]bool{}
	walkCursor = func(v ssa.Value, depth int) {
		if v == nil || seenCur[v] || depth > 6 {
			return
		}
		seenCur[v] = true
		if lastOfPage(v) {
			okU = true
		}
		if p, ok := v.(*ssa.Phi); ok {
			for _, e := range p.Edges {
				walkCursor(e, depth+1)
			}
		}
	}
	for _, st := range storesToField(gs, false, "MapStateResult", "Cursor") {
		walkCursor(st.Val, 0)
	}
	c.CheckAt("C21.R2", "unordered cursor is the last key of the page", w.Pos(gs.Pos()), okU, "")

	// ---- R3 progress and contiguity
	var endStore *ssa.BinOp
	EachInstr(gs, func(in ssa.Instruction) {
		if b, ok := in.(*ssa.BinOp); ok && b.Op == token.ADD && strings.HasSuffix(D(b.Y), "MapReadStateOptions.Limit") {
			endStore = b
		}
	})
	if c.Anchor("C21.R3", "endIdx = startIdx + Limit", endStore != nil) {
		pos := GuardedBy(endStore, func(g Guard) bool {
			b, ok := g.Cond.(*ssa.BinOp)
			if !ok || !strings.HasSuffix(D(b.X), "MapReadStateOptions.Limit") {
				return false
			}
			z, isZ := constIntOf(b.Y)
			return isZ && z == 0 && b.Op == token.GTR && g.Pol
		})
		c.Check("C21.R3", endStore, "page end is start + Limit only for Limit > 0", pos, "a non-positive limit would produce an empty or negative page and the same cursor again")
		within := GuardedBy(endStore, func(g Guard) bool {
			b, ok := g.Cond.(*ssa.BinOp)
			return ok && b.Op == token.GEQ && !g.Pol && strings.Contains(D(b.Y), "len(") && strings.Contains(D(b.Y), "sortedKeys")
		})
		c.Check("C21.R3", endStore, "pagination continues only from a start index inside the sorted keys", within, "start ≥ total returns an empty last page with no cursor")
	}
	// a Limit == 0 request never reaches pagination
	// the page is the contiguous slice: every read of sortedKeys[i] in the build loop uses the loop index between start and end
	mkSlice := 0
	EachInstr(gs, func(in ssa.Instruction) {
		if ms, ok := in.(*ssa.MakeSlice); ok && strings.Contains(D(ms.Len), " - ") {
			mkSlice++
		}
	})
	c.CheckAt("C21.R3", "page is allocated as end − start entries", w.Pos(gs.Pos()), mkSlice == 1, "")

	// ---- R4 dirty flag
	nMut := 0
	for _, f := range w.AllFuncs {
		if !w.inModule(f) || strings.HasSuffix(w.Pos(f.Pos()), "_test.go") {
			continue
		}
		var muts []ssa.Instruction
		for _, mu := range mapUpdatesOf(f, false, "mapChannel", "state") {
			muts = append(muts, mu)
		}
		for _, mu := range mapUpdatesOf(f, false, "mapChannel", "scores") {
			muts = append(muts, mu)
		}
		for _, md := range mapDeletesOf(f, false, "mapChannel", "state") {
			muts = append(muts, md)
		}
		for _, md := range mapDeletesOf(f, false, "mapChannel", "scores") {
			muts = append(muts, md)
		}
		if len(muts) == 0 {
			continue
		}
		dirty := func(in ssa.Instruction) bool {
			st, ok := in.(*ssa.Store)
			if !ok {
				return false
			}
			fa, ok := st.Addr.(*ssa.FieldAddr)
			if !ok || !fieldAddrIs(fa, "mapChannel", "sortedKeysDirty") {
				return false
			}
			v, known := boolConst(st.Val)
			return known && v
		}
		for _, m := range muts {
			nMut++
			target := m
			before := PathQ{Stop: dirty, Goal: func(in ssa.Instruction) bool { return in == target }}.FromEntry(f) != nil // reachable without dirty before
			afterBad := PathQ{Stop: dirty, Goal: isReturn}.From(m) != nil
			c.Check("C21.R4", m, "state/score mutation marks the sorted-key cache dirty on the same path", !(before && afterBad), "a mutation that leaves sortedKeys stale makes the next page sequence miss the new key or serve a removed one (the len() fallback does not see a re-score)")
		}
	}
	c.Anchor("C21.R4", "state/score mutations in the memory map hub", nMut >= 4)
	// re-sort condition reads the dirty flag and the order/direction
	resort := false
	EachInstr(gs, func(in ssa.Instruction) {
		if ci := asCall(in); ci != nil {
			if cal := ci.Common().StaticCallee(); cal != nil && cal.Pkg != nil && cal.Pkg.Pkg.Path() == "sort" && cal.Name() == "Slice" {
				gsStr := strings.Join(GuardStrings(in), " ")
				_ = gsStr
				resort = true
			}
		}
	})
	c.CheckAt("C21.R4", "getState re-sorts", w.Pos(gs.Pos()), resort, "")
	for _, fld := range []string{"sortedKeysDirty", "lastSortOrdered", "lastSortAsc"} {
		reads := 0
		for _, a := range FieldAccesses(gs, "mapChannel", fld) {
			if !a.Write {
				reads++
			}
		}
		c.CheckAt("C21.R4", "re-sort condition reads mapChannel."+fld, w.Pos(gs.Pos()), reads >= 1, "a cached order for the other direction or ordering must not be reused")
	}

	// ---- R5 single key
	var keyIf *ssa.If
	EachInstr(gs, func(in ssa.Instruction) {
		if ifi, ok := in.(*ssa.If); ok && keyIf == nil {
			if b, ok := ifi.Cond.(*ssa.BinOp); ok && b.Op == token.NEQ && strings.HasSuffix(D(b.X), "MapReadStateOptions.Key") {
				if s, isS := constStrOf(b.Y); isS && s == "" {
					keyIf = ifi
				}
			}
		}
	})
	if c.Anchor("C21.R5", "single-key branch in getState", keyIf != nil) {
		// no path from the single-key branch reaches the sort or the cursor search
		bad := PathQ{Goal: instrPred(orPred(w.calleeIs("sort.Slice", "sort.Strings"), w.calleeFn(fo), w.calleeFn(fu)))}.FromBlock(keyIf.Block().Succs[0])
		c.Check("C21.R5", keyIf, "single-key read returns before pagination", bad == nil, "Key takes priority over Cursor/Limit")
		okLookup := false
		for _, f := range []*ssa.Function{gs} {
			EachInstr(f, func(in ssa.Instruction) {
				if lk, ok := in.(*ssa.Lookup); ok && loadsField(lk.X, "mapChannel", "state") && strings.HasSuffix(D(lk.Index), "MapReadStateOptions.Key") && keyIf.Block().Succs[0].Dominates(lk.Block()) {
					okLookup = true
				}
			})
		}
		c.Check("C21.R5", keyIf, "single-key read looks the requested key up in the channel state", okLookup, "")
	}
}
