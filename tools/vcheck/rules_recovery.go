package main

import (
	"fmt"
	"go/token"
	"go/types"
	"sort"
	"strings"

	"golang.org/x/tools/go/ssa"
)

func init() {
	register(&PropMeta{
		ID:    "C02",
		Level: "other",
		Explanation: "(R1) subscribeCmd puts recovered publications into the reply only on the Recovered edge; (R2) isStreamRecovered and isCacheRecovered never return publications together with recovered=false; " +
			"(R3) a recovery read error is either ErrorUnrecoverablePosition (then: reject when the client demanded it, else Recovered=false and no publications) or ends the attempt; " +
			"(R4) Node.history returns without error for a given Since only when the epochs agree (or no epoch was given); " +
			"(R5) isStreamRecovered reports true only past an epoch-equality test and a first/last-offset test of the history result; " +
			"(R6) the single-flight key of history reads contains every field of the options the result depends on (including the Since epoch), so callers that must be answered differently never share one read.",
		NotDecided: "exactness of the returned set at value level (trimming, limit truncation against live publishes); the Redis history scripts.",
		Rules: map[string]string{"C02.R1": "K2 guard on res.Publications", "C02.R2": "result coupling", "C02.R3": "error discipline", "C02.R4": "K2 path guard in Node.history", "C02.R5": "K2 path guards in isStreamRecovered", "C02.R6": "K6 field-table: key covers options"},
		Run:   runC02,
	})
	register(&PropMeta{
		ID:    "C03",
		Level: "other",
		Explanation: "(R1) = C02.R2 for isCacheRecovered; (R2) recoverCache returns as the recovered publication only one that passed both the server and the client tags filter, and takes the single-entry fast path only when both filters are nil; " +
			"(R3) the retry after a populated cache is dominated by Populated && !recovered and every recoverCache call of subscribeCmd passes the subscription's two filters; " +
			"(R4) in cache mode without delta the merged list is cut to its last element before it reaches the reply (a publication buffered during the subscribe cannot add a second one).",
		NotDecided: "that the history's first element is the newest (broker ordering); the recovered truth table as values.",
		Rules: map[string]string{"C03.R2": "K2 guards in recoverCache", "C03.R3": "K2 + sibling agreement of call arguments", "C03.R4": "K1/K2: cache-mode trim after merge", "C03.R5": "K2: no foreign guard on the scan element in recoverCache"},
		Run:   runC03,
	})
	register(&PropMeta{
		ID:    "C16",
		Level: "other",
		Explanation: "(R1) every function that moves publications read from a broker or from the subscribe-time buffer into a reply applies both the server and the client tags filter on the way (isStreamRecovered, recoverCache, map state pages, map stream pages, map live transition in its positioned and streamless branches), and the live broadcast computes wasFiltered from both; " +
			"(R2) every full-payload enqueue is unreachable for wasFiltered && !deltaSub; (R3) a changed server tags filter of a map subscription ends in Unsubscribe(state invalidated).",
		NotDecided: "filter values; delta subscriptions (excluded by the statement).",
		Rules: map[string]string{"C16.R1": "K6b: both filters on every delivery function", "C16.R2": "K2 path guard on fullData enqueues", "C16.R3": "K2: invalidation on filter change"},
		Run:   runC16,
	})
	register(&PropMeta{
		ID:    "C39",
		Level: "other",
		Explanation: "(R1) uniqueNonFilteredPublications appends an entry only when it is not a filtered marker (Time != -1) and its offset was not seen; (R2) MergePublications sorts the concatenation by offset before deduplicating; " +
			"(R3) every failure return sits inside the buffered-publications branch, behind an offset-discontinuity test, and is taken only when no skipped offset covers the hole.",
		NotDecided: "the value-level 'exactly when' of the hole test.",
		Rules: map[string]string{"C39.R1": "K2 guards on the append", "C39.R2": "K1 sort before dedup", "C39.R3": "K2 guards on false returns", "C39.R4": "value flow: the (duplicate-carrying) placeholder offsets are used only as a set"},
		Run:   runC39,
	})
}

// leafFieldPaths lists dotted leaf field paths of a struct type (through pointers to structs).
func leafFieldPaths(t types.Type, prefix string, depth int) []string {
	if depth > 4 {
		return nil
	}
	for {
		if p, ok := t.(*types.Pointer); ok {
			t = p.Elem()
			continue
		}
		break
	}
	st, ok := t.Underlying().(*types.Struct)
	if !ok {
		return []string{strings.TrimPrefix(prefix, ".")}
	}
	if n, ok := t.(*types.Named); ok && n.Obj().Pkg() != nil && n.Obj().Pkg().Path() == "time" {
		return []string{strings.TrimPrefix(prefix, ".")}
	}
	var out []string
	for i := 0; i < st.NumFields(); i++ {
		out = append(out, leafFieldPaths(st.Field(i).Type(), prefix+"."+st.Field(i).Name(), depth+1)...)
	}
	return out
}

func runC02(c *Ctx) {
	w := c.W
	subscribeCmd := c.Fn("C02.R1", "centrifuge", "(*Client).subscribeCmd")
	if subscribeCmd != nil {
		n := 0
		for _, st := range storesToField(subscribeCmd, false, "SubscribeResult", "Publications") {
			d := D(st.Val)
			if !strings.Contains(d, "MergePublications(") && !strings.Contains(d, "makeRecoveredPubsDeltaFossil(") && !strings.Contains(d, "recover") {
				continue
			}
			n++
			okG := GuardedBy(st, func(g Guard) bool { return g.Pol && loadsField(g.Cond, "SubscribeResult", "Recovered") })
			c.Check("C02.R1", st, "recovered publications reach the reply only on the Recovered edge", okG, "recovered=false must come with no recovered publications")
		}
		c.Floor("C02.R1", 2)
		// R3
		rh := CallsIn(subscribeCmd, false, w.calleeIs("Node.recoverHistory"))
		if c.Anchor("C02.R3", "Node.recoverHistory call in subscribeCmd", len(rh) == 1) {
			found := false
			EachInstr(subscribeCmd, func(in ssa.Instruction) {
				ifi, ok := in.(*ssa.If)
				if !ok || !strings.Contains(D(ifi.Cond), "errors.Is(") || !strings.Contains(D(ifi.Cond), "ErrorUnrecoverablePosition") || !strings.Contains(D(ifi.Cond), "recoverHistory(") {
					return
				}
				found = true
				// other errors end the attempt
				bad := PathQ{Stop: func(x ssa.Instruction) bool { return isReturn(x) }, Goal: instrPred(w.calleeIs("PubSubSync.LockBufferAndReadBuffered"))}.FromBlock(ifi.Block().Succs[1])
				c.Check("C02.R3", ifi, "any other recovery error ends the attempt", bad == nil, "an unknown history error must not fall through to a successful subscribe")
				// unrecoverable edge: Recovered=false stored or ErrorUnrecoverablePosition returned
				hasFalse := false
				for _, st := range storesToField(subscribeCmd, false, "SubscribeResult", "Recovered") {
					if v, known := boolConst(st.Val); known && !v && ifi.Block().Succs[0].Dominates(st.Block()) {
						hasFalse = true
					}
				}
				c.Check("C02.R3", ifi, "unrecoverable position yields Recovered=false (or the error when the client rejects unrecovered)", hasFalse, "an epoch mismatch must never be reported as recovered")
			})
			c.Anchor("C02.R3", "errors.Is(err, ErrorUnrecoverablePosition) test on the recoverHistory error", found)
		}
	}
	// R2
	for _, name := range []string{"isStreamRecovered", "isCacheRecovered"} {
		fn := c.Fn("C02.R2", "centrifuge", name)
		if fn == nil {
			continue
		}
		EachInstr(fn, func(in ssa.Instruction) {
			r, ok := in.(*ssa.Return)
			if !ok {
				return
			}
			vals := retVals(r)
			if len(vals) != 2 {
				return
			}
			if isNilConst(vals[0]) {
				c.Check("C02.R2", r, "return without publications", true, "")
				return
			}
			bv, known := boolConst(vals[1])
			okT := known && bv
			if !okT {
				// a variable result: must be known true here
				okT = Guarded(r, func(g Guard) bool { return g.Pol && (g.Cond == vals[1] || D(g.Cond) == D(vals[1])) })
			}
			c.Check("C02.R2", r, "publications are returned only together with recovered=true", okT, "recovered=false with publications lets the client apply a discontinuous set")
		})
	}
	c.Floor("C02.R2", 5)
	// R4
	hist := c.Fn("C02.R4", "centrifuge", "(*Node).history")
	if hist != nil {
		EachInstr(hist, func(in ssa.Instruction) {
			r, ok := in.(*ssa.Return)
			if !ok {
				return
			}
			vals := retVals(r)
			if len(vals) != 2 || !isNilConst(vals[1]) {
				return
			}
			okG := PathGuarded(r, func(g Guard) bool {
				d := D(g.Cond)
				b, isB := g.Cond.(*ssa.BinOp)
				if !isB {
					return false
				}
				// Since == nil
				if strings.HasSuffix(D(b.X), "Filter.Since") && isNilConst(b.Y) {
					return (b.Op == token.NEQ && !g.Pol) || (b.Op == token.EQL && g.Pol)
				}
				if strings.Contains(d, "Since.Epoch") || strings.Contains(d, ".Epoch ==") || strings.Contains(d, ".Epoch !=") {
					if s, isS := constStrOf(b.Y); isS && s == "" {
						return (b.Op == token.EQL && g.Pol) || (b.Op == token.NEQ && !g.Pol)
					}
					if strings.Contains(D(b.X), "Epoch") && strings.Contains(D(b.Y), "Epoch") {
						return (b.Op == token.EQL && g.Pol) || (b.Op == token.NEQ && !g.Pol)
					}
				}
				return false
			})
			c.Check("C02.R4", r, "history succeeds for a Since position only when the epochs agree", okG, "a position from another epoch would be answered as if it were current")
		})
		c.Floor("C02.R4", 1)
	}
	// R5
	isr := c.Fn("C02.R5", "centrifuge", "isStreamRecovered")
	if isr != nil {
		EachInstr(isr, func(in ssa.Instruction) {
			r, ok := in.(*ssa.Return)
			if !ok {
				return
			}
			vals := retVals(r)
			if len(vals) != 2 {
				return
			}
			if bv, known := boolConst(vals[1]); known && !bv {
				return
			}
			epochOK := PathGuarded(r, func(g Guard) bool {
				b, isB := g.Cond.(*ssa.BinOp)
				if !isB {
					return false
				}
				if s, isS := constStrOf(b.Y); isS && s == "" && strings.Contains(D(b.X), "Epoch") {
					return (b.Op == token.EQL && g.Pol) || (b.Op == token.NEQ && !g.Pol)
				}
				if strings.Contains(D(b.X), "Epoch") && strings.Contains(D(b.Y), "Epoch") {
					return (b.Op == token.EQL && g.Pol) || (b.Op == token.NEQ && !g.Pol)
				}
				return false
			})
			c.Check("C02.R5", r, "recovered=true only past the epoch test", epochOK, "Recovered=true must never be reported when the epoch differs")
			// offsets
			d := D(vals[1])
			if ph, isPhi := vals[1].(*ssa.Phi); isPhi {
				d = D(ph)
			}
			offsetVsParam := func(v ssa.Value) bool {
				b, ok := v.(*ssa.BinOp)
				return ok && b.Op == token.EQL && strings.HasSuffix(D(b.X), ".Offset") && mentionsParamOfKind(b.Y, types.Uint64, 0)
			}
			retTests := func(v ssa.Value) bool {
				if offsetVsParam(v) {
					return true
				}
				if ph, ok := v.(*ssa.Phi); ok {
					for _, e := range ph.Edges {
						if offsetVsParam(e) {
							return true
						}
					}
				}
				return false
			}
			_ = d
			offOK := Guarded(r, func(g Guard) bool { return g.Pol && offsetVsParam(g.Cond) }) || retTests(vals[1])
			c.Check("C02.R5", r, "recovered=true only past the first/last offset test", offOK, "a missing publication after the requested offset or a truncated result must not be reported as recovered")
		})
		c.Floor("C02.R5", 2)
	}
	// R6
	sf := c.Fn("C02.R6", "centrifuge", "(*Node).historySingleFlight")
	if sf != nil {
		var optsT types.Type
		for _, p := range sf.Params {
			if typeShort(p.Type()) == "HistoryOptions" {
				optsT = p.Type()
			}
		}
		if c.Anchor("C02.R6", "HistoryOptions parameter of historySingleFlight", optsT != nil) {
			var written []string
			// (the key may be built in historySingleFlight itself or in a helper it calls)
			for _, ci := range w.Deep(sf, 2).Calls(w.calleeIs("Builder.WriteString")) {
				written = append(written, D(ci.Common().Args[1]))
			}
			leaves := leafFieldPaths(optsT, "", 0)
			sort.Strings(leaves)
			for _, leaf := range leaves {
				ok := false
				for _, wr := range written {
					if strings.Contains(wr, "."+leaf) || strings.Contains(wr, leaf) {
						ok = true
					}
				}
				c.CheckAt("C02.R6", "(*centrifuge.Node).historySingleFlight: key includes HistoryOptions."+leaf, w.Pos(sf.Pos()), ok,
					"two history reads that differ in this field would be merged into one call: the second caller gets the first caller's answer (e.g. a foreign epoch is answered as the current one)")
			}
			c.Floor("C02.R6", 4)
		}
	}
	// the de-duplication keys are injective: a field is written unconditionally, or behind a nil test
	// (absent ≠ any present value) — never behind a comparison of the field itself, which maps all the
	// values on the other side to one key (limit 0 = "position only" and limit −1 = "everything")
	for _, name := range []string{"(*Node).historySingleFlight", "(*Node).mapStreamKey", "(*Node).mapStateKey"} {
		fn := w.Func("centrifuge", name)
		if fn == nil {
			continue
		}
		k := 0
		for _, ci := range w.Deep(fn, 2).Calls(w.calleeIs("Builder.WriteString")) {
			arg := ci.Common().Args[1]
			if _, isLit := constStrOf(arg); isLit {
				continue
			}
			k++
			fld := fieldLeafOf(arg, 0)
			var bad string
			for _, g := range Guards(ci) {
				b, ok := g.Cond.(*ssa.BinOp)
				if !ok {
					continue
				}
				if isNilConst(b.Y) || isNilConst(b.X) {
					// a nil test may only guard fields *behind* the tested pointer (Since.Offset under
					// Since != nil); a field of another branch written only when that pointer is set
					// (Reverse under Since != nil) is dropped from the key for all calls without it
					tested := D(b.X)
					if isNilConst(b.X) {
						tested = D(b.Y)
					}
					if strings.Contains(tested, ".") && !strings.Contains(D(arg), tested) && !types.Identical(b.X.Type(), types.Universe.Lookup("error").Type()) {
						bad = g.String() + " (a nil test of a different field)"
					}
					continue
				}
				if _, isStrLit := constStrOf(b.Y); isStrLit && b.Op == token.NEQ {
					// `x != ""` for a string: the empty string written or not written is the same key suffix
					continue
				}
				if fld != "" && (strings.HasSuffix(D(b.X), "."+fld) || strings.HasSuffix(D(b.Y), "."+fld)) {
					bad = g.String()
				}
			}
			c.Check("C02.R6", ci, "de-duplication key writes the field unconditionally (or behind a nil test only)", bad == "",
				"guard "+bad+": all values of the field on the other side of the comparison share one key, so concurrent calls that differ only there get each other's result")
		}
		c.CheckAt("C02.R6", name+": key fields written", w.Pos(fn.Pos()), k >= 2, fmt.Sprint(k))
	}
}

// fieldLeafOf: the last field name read on the way to v (through conversions and formatting calls).
func fieldLeafOf(v ssa.Value, depth int) string {
	if v == nil || depth > 6 {
		return ""
	}
	switch x := v.(type) {
	case *ssa.Call:
		for _, a := range x.Call.Args {
			if s := fieldLeafOf(a, depth+1); s != "" {
				return s
			}
		}
	case *ssa.Convert:
		return fieldLeafOf(x.X, depth+1)
	case *ssa.ChangeType:
		return fieldLeafOf(x.X, depth+1)
	case *ssa.UnOp:
		if fa, ok := x.X.(*ssa.FieldAddr); ok {
			if _, f, ok := FieldOf(fa); ok {
				return f
			}
		}
		return fieldLeafOf(x.X, depth+1)
	case *ssa.Field:
		if _, f, ok := FieldOf(x); ok {
			return f
		}
	}
	return ""
}

func runC03(c *Ctx) {
	w := c.W
	rc := c.Fn("C03.R2", "centrifuge", "(*Node).recoverCache")
	if rc != nil {
		// the two *tagsFilter parameters, by position (client filter first, server filter second)
		var tf, stf *ssa.Parameter
		for _, p := range rc.Params {
			if typeShort(p.Type()) == "tagsFilter" {
				if tf == nil {
					tf = p
				} else if stf == nil {
					stf = p
				}
			}
		}
		if c.Anchor("C03.R2", "filter parameters of recoverCache", tf != nil && stf != nil) {
			notFilteredBy := func(p *ssa.Parameter) func(Guard) bool {
				return func(g Guard) bool {
					call, ok := g.Cond.(*ssa.Call)
					if !ok || g.Pol {
						return false
					}
					f := call.Call.StaticCallee()
					return f != nil && f.Name() == "publicationFiltered" && len(call.Call.Args) == 2 && call.Call.Args[1] == ssa.Value(p)
				}
			}
			isNilTest := func(p *ssa.Parameter) func(Guard) bool {
				return func(g Guard) bool {
					b, ok := g.Cond.(*ssa.BinOp)
					return ok && b.X == ssa.Value(p) && isNilConst(b.Y) && ((b.Op == token.EQL && g.Pol) || (b.Op == token.NEQ && !g.Pol))
				}
			}
			n := 0
			EachInstr(rc, func(in ssa.Instruction) {
				r, ok := in.(*ssa.Return)
				if !ok {
					return
				}
				vals := retVals(r)
				if len(vals) != 4 || isNilConst(vals[1]) {
					return
				}
				n++
				filtered := Guarded(r, notFilteredBy(tf)) && Guarded(r, notFilteredBy(stf))
				bothNil := Guarded(r, isNilTest(tf)) && Guarded(r, isNilTest(stf))
				c.Check("C03.R2", r, "recovered publication passed both filters (or both filters are nil)", filtered || bothNil, "cache recovery would deliver a publication the subscription's server or client filter excludes")
				// R5: nothing but the filters decides which element of the history result is taken —
				// the newest *visible* publication is the first one both filters let through
				if filtered {
					var foreign []string
					for _, g := range Guards(r) {
						d := D(g.Cond)
						if !strings.Contains(d, "Publications[") {
							continue // not about an element of the history result
						}
						if call, ok := g.Cond.(*ssa.Call); ok {
							if f := call.Call.StaticCallee(); f != nil && f.Name() == "publicationFiltered" {
								continue
							}
						}
						foreign = append(foreign, g.String())
					}
					c.Check("C03.R5", r, "only the tags filters decide which publication of the scan is recovered", len(foreign) == 0,
						"a publication is skipped by a test other than the filters ("+strings.Join(foreign, "; ")+"): a publication both filters let through (filters can match on missing tags: neq, nin, nex, not) is then not the one delivered, or nothing is recovered although the cache is not empty")
				}
			})
			c.Floor("C03.R2", 2)
		}
	}
	subscribeCmd := c.Fn("C03.R3", "centrifuge", "(*Client).subscribeCmd")
	if subscribeCmd != nil && rc != nil {
		calls := CallsIn(subscribeCmd, false, w.calleeFn(rc))
		if c.Anchor("C03.R3", "recoverCache calls in subscribeCmd", len(calls) >= 1) {
			for _, ci := range calls {
				args := ci.Common().Args
				ok := len(args) == 5 && strings.HasSuffix(D(args[3]), ".tagsFilter") && strings.HasSuffix(D(args[4]), ".serverTagsFilter")
				d := "every cache read of the subscribe must apply the subscription's client and server tags filters"
				if len(args) == 5 {
					d += " (got " + D(args[3]) + ", " + D(args[4]) + ")"
				}
				c.Check("C03.R3", ci, "recoverCache receives the subscription's tags filters", ok, d)
			}
			// the retry is dominated by Populated && !recovered
			for i, ci := range calls {
				if i == 0 {
					continue
				}
				okG := GuardedBy(ci, func(g Guard) bool { return g.Pol && strings.HasSuffix(D(g.Cond), ".Populated") }) && len(Guards(ci)) > 1
				c.Check("C03.R3", ci, "cache retry only after the application reported the cache populated", okG, "the retry must not run (or replace the first result) otherwise")
			}
		}
		// R4 trim
		merges := CallsIn(subscribeCmd, false, w.calleeIs("recovery.MergePublications"))
		found := false
		EachInstr(subscribeCmd, func(in ssa.Instruction) {
			sl, ok := in.(*ssa.Slice)
			if !ok || sl.Low == nil || sl.High != nil {
				return
			}
			lo := D(sl.Low)
			if !strings.Contains(lo, "len(") || !strings.HasSuffix(lo, " - 1)") || !strings.Contains(D(sl.X), "MergePublications(") {
				return
			}
			modeCache, _ := w.ConstInt("centrifuge", "RecoveryModeCache")
			if GuardedBy(sl, eqConstGuard("RecoveryMode", modeCache, true)) {
				for _, m := range merges {
					if Precedes(m, sl) {
						found = true
					}
				}
			}
		})
		c.CheckAt("C03.R4", "(*centrifuge.Client).subscribeCmd: cache-mode result cut to the newest publication after the merge", w.Pos(subscribeCmd.Pos()), found,
			"the merged list contains publications buffered during the subscribe; without the cut cache recovery delivers more than the single newest publication")
	}
}

func runC16(c *Ctx) {
	w := c.W
	matchCall := func(ci ssa.CallInstruction) bool {
		f := ci.Common().StaticCallee()
		return f != nil && f.Name() == "Match" && f.Pkg != nil && strings.HasSuffix(f.Pkg.Pkg.Path(), "internal/filter")
	}
	type del struct {
		fn       string
		minPairs int
	}
	for _, d := range []del{
		{"(*Client).handleMapStatePhase", 1}, {"(*Client).handleMapStreamPhase", 1}, {"(*Client).handleMapTransitionToLive", 2}, {"(*subShard).broadcastPublication", 1},
	} {
		fn := c.Fn("C16.R1", "centrifuge", d.fn)
		if fn == nil {
			continue
		}
		srv, cli := 0, 0
		for _, f := range WithClosures(fn) {
			for _, ci := range CallsIn(f, false, matchCall) {
				a := D(ci.Common().Args[0])
				if strings.Contains(a, "serverTagsFilter.filter") {
					srv++
				} else if strings.Contains(a, "tagsFilter.filter") {
					cli++
				}
			}
			// the same through a helper that receives the filter and applies filter.Match itself
			EachInstr(f, func(in ssa.Instruction) {
				ci := asCall(in)
				if ci == nil || matchCall(ci) {
					return
				}
				cal := w.Callee(ci)
				if cal == nil || !w.inModule(cal) || !w.MayReach(cal, matchCall, 2) {
					return
				}
				for _, arg := range ci.Common().Args {
					a := D(arg)
					if typeShort(arg.Type()) != "tagsFilter" {
						continue
					}
					if strings.Contains(a, "serverTagsFilter") {
						srv++
					} else if strings.Contains(a, "tagsFilter") {
						cli++
					}
				}
			})
		}
		c.CheckAt("C16.R1", FuncName(fn)+": applies the server tags filter on every delivery branch", w.Pos(fn.Pos()), srv >= d.minPairs, fmt.Sprintf("%d server-filter Match call(s), %d branch(es) deliver publications", srv, d.minPairs))
		c.CheckAt("C16.R1", FuncName(fn)+": applies the client tags filter on every delivery branch", w.Pos(fn.Pos()), cli >= d.minPairs, fmt.Sprintf("%d client-filter Match call(s), %d branch(es) deliver publications", cli, d.minPairs))
	}
	// isStreamRecovered / recoverCache via publicationFiltered with both parameters
	for _, name := range []string{"isStreamRecovered", "(*Node).recoverCache"} {
		fn := c.Fn("C16.R1", "centrifuge", name)
		if fn == nil {
			continue
		}
		seen := map[string]bool{}
		for _, ci := range CallsIn(fn, false, w.calleeIs("publicationFiltered")) {
			if p, ok := ci.Common().Args[1].(*ssa.Parameter); ok {
				seen[p.Name()] = true
			}
		}
		c.CheckAt("C16.R1", FuncName(fn)+": both filters applied", w.Pos(fn.Pos()), seen["tf"] && seen["serverTf"], fmt.Sprintf("filters applied: %v", seen))
	}
	pf := c.Fn("C16.R1", "centrifuge", "publicationFiltered")
	if pf != nil {
		c.CheckAt("C16.R1", "publicationFiltered: decides by filter.Match", w.Pos(pf.Pos()), len(CallsIn(pf, false, matchCall)) == 1, "the shared helper must evaluate the filter")
	}
	// broadcast: wasFiltered true edge for each failing match
	bc := w.Func("centrifuge", "(*subShard).broadcastPublication")
	if bc != nil {
		for _, ci := range CallsIn(bc, false, matchCall) {
			// the match result must be tested
			v := ci.Value()
			tested := false
			if v != nil {
				for _, r := range *v.Referrers() {
					if ex, ok := r.(*ssa.Extract); ok && ex.Index == 0 && ex.Referrers() != nil && len(*ex.Referrers()) > 0 {
						tested = true
					}
				}
			}
			c.Check("C16.R1", ci, "broadcast uses the filter verdict", tested, "an ignored verdict delivers filtered publications")
		}
	}
	// R2
	for _, name := range []string{"(*Client).writePublicationUpdatePosition", "(*Client).writePublication"} {
		fn := c.Fn("C16.R2", "centrifuge", name)
		if fn == nil {
			continue
		}
		for _, e := range CallsIn(fn, false, w.calleeIs("Client.writeEncodedPushData")) {
			if !strings.HasSuffix(D(e.Common().Args[1]), "preparedData.fullData") {
				continue
			}
			okG := PathGuarded(e, func(g Guard) bool {
				d := D(g.Cond)
				if strings.HasSuffix(d, "preparedData.wasFiltered") && !g.Pol {
					return true
				}
				if strings.HasSuffix(d, "preparedData.deltaSub") && g.Pol {
					return true
				}
				return false
			})
			c.Check("C16.R2", e, "full payload enqueued only for !wasFiltered (or a delta subscription)", okG, "a publication excluded by the subscription's filters would be delivered on the live path")
		}
	}
	c.Floor("C16.R2", 3)
	// R3
	hsr := c.Fn("C16.R3", "centrifuge", "(*Client).handleSubRefresh")
	if hsr != nil {
		ok := false
		for _, f := range WithClosures(hsr) {
			for _, u := range CallsIn(f, false, w.calleeIs("Client.Unsubscribe")) {
				if GuardedBy(u, func(g Guard) bool { return g.Pol && strings.Contains(D(g.Cond), "updateServerTagsFilter(") }) {
					ok = true
				}
			}
		}
		c.CheckAt("C16.R3", "(*centrifuge.Client).handleSubRefresh: changed server tags filter of a map subscription invalidates it", w.Pos(hsr.Pos()), ok, "a map subscription keeps state selected by the old filter")
	}
}

func runC39(c *Ctx) {
	w := c.W
	uq := c.Fn("C39.R1", "internal/recovery", "uniqueNonFilteredPublications")
	if uq != nil {
		n := 0
		EachInstr(uq, func(in ssa.Instruction) {
			mu, ok := in.(*ssa.MapUpdate)
			if !ok {
				return
			}
			n++
			notMarker := GuardedBy(mu, func(g Guard) bool {
				b, ok := g.Cond.(*ssa.BinOp)
				if !ok || !loadsField(b.X, "Publication", "Time") {
					return false
				}
				v, isC := constIntOf(b.Y)
				return isC && v == -1 && ((b.Op == token.EQL && !g.Pol) || (b.Op == token.NEQ && g.Pol))
			})
			notSeen := GuardedBy(mu, func(g Guard) bool { return !g.Pol && strings.HasPrefix(D(g.Cond), "ok(") })
			c.Check("C39.R1", mu, "an entry is kept only if it is not a filtered marker", notMarker, "filtered placeholders must never reach the client")
			c.Check("C39.R1", mu, "an entry is kept only once per offset", notSeen, "duplicate offsets would be delivered twice")
		})
		c.Anchor("C39.R1", "seen-offset bookkeeping in uniqueNonFilteredPublications", n > 0)
	}
	mp := c.Fn("C39.R2", "internal/recovery", "MergePublications")
	if mp != nil {
		sorts := CallsIn(mp, false, w.calleeIs("sort.Slice", "sort.SliceStable", "slices.SortFunc", "slices.SortStableFunc"))
		ded := CallsIn(mp, false, w.calleeIs("recovery.uniqueNonFilteredPublications", "uniqueNonFilteredPublications"))
		if c.Anchor("C39.R2", "sort and dedup calls in MergePublications", len(sorts) == 1 && len(ded) == 1) {
			c.Check("C39.R2", ded[0], "sorted by offset before deduplication", Precedes(sorts[0], ded[0]), "the gap check walks the merged list in offset order")
			// comparator compares Offset with <
			okCmp := false
			for _, cl := range mp.AnonFuncs {
				EachInstr(cl, func(in ssa.Instruction) {
					if b, ok := in.(*ssa.BinOp); ok && b.Op == token.LSS && loadsField(b.X, "Publication", "Offset") && loadsField(b.Y, "Publication", "Offset") {
						// i-th element on the left, j-th on the right
						if len(cl.Params) == 2 && strings.Contains(D(b.X), "arg:"+cl.Params[0].Name()) && strings.Contains(D(b.Y), "arg:"+cl.Params[1].Name()) {
							okCmp = true
						}
					}
				})
			}
			c.Check("C39.R2", sorts[0], "sort comparator orders by Offset ascending", okCmp, "the merged list must be ordered by offset")
		}
		// R3
		k := 0
		EachInstr(mp, func(in ssa.Instruction) {
			r, ok := in.(*ssa.Return)
			if !ok {
				return
			}
			vals := retVals(r)
			if len(vals) != 3 {
				return
			}
			if bv, known := boolConst(vals[2]); !known || bv {
				return
			}
			k++
			// (all equivalent spellings: len>0 taken, len==0 not taken, …; the second parameter is the buffered set)
			inBuffered := Guarded(r, func(g Guard) bool {
				b, ok := g.Cond.(*ssa.BinOp)
				if !ok {
					return false
				}
				lc, isLen := b.X.(*ssa.Call)
				if !isLen || len(mp.Params) < 2 {
					return false
				}
				if bi, isB := lc.Call.Value.(*ssa.Builtin); !isB || bi.Name() != "len" || lc.Call.Args[0] != ssa.Value(mp.Params[1]) {
					return false
				}
				k, isC := constIntOf(b.Y)
				if !isC {
					return false
				}
				switch {
				case k == 0 && (b.Op == token.GTR || b.Op == token.NEQ):
					return g.Pol
				case k == 0 && (b.Op == token.EQL || b.Op == token.LEQ):
					return !g.Pol
				case k == 1 && b.Op == token.GEQ:
					return g.Pol
				case k == 1 && b.Op == token.LSS:
					return !g.Pol
				}
				return false
			})
			disc := Guarded(r, func(g Guard) bool {
				b, ok := g.Cond.(*ssa.BinOp)
				if !ok || !loadsField(b.X, "Publication", "Offset") || !strings.Contains(D(b.Y), "+ 1") {
					return false
				}
				return (b.Op == token.NEQ && g.Pol) || (b.Op == token.EQL && !g.Pol)
			})
			c.Check("C39.R3", r, "failure only when buffered publications were present", inBuffered, "without buffered publications there is nothing to be discontinuous with")
			c.Check("C39.R3", r, "failure only behind an offset discontinuity", disc, "a contiguous merge must succeed")
			skipAware := GuardedBy(r, func(g Guard) bool {
				d := D(g.Cond)
				return strings.Contains(d, "uniqueNonFilteredPublications(") || strings.Contains(d, "slices.Contains(")
			})
			c.Check("C39.R3", r, "failure only when no filtered placeholder covers the hole", skipAware, "offsets withheld by the filter are not gaps")
		})
		c.Anchor("C39.R3", "failure returns of MergePublications", k >= 1)
		runC39SetUse(c, mp)
	}
}

// runC39SetUse (C39.R4): the offsets of filtered placeholders are collected without de-duplication (a
// filtered publication present in both the recovered and the buffered set contributes its offset twice),
// so the gap test may use them only as a *set*: emptiness, membership (slices.Contains, an equality
// scan, or a map built from them). Counting, positional indexing or binary search over them is wrong
// exactly when an offset is duplicated — a hole is then hidden or invented.
func runC39SetUse(c *Ctx, mp *ssa.Function) {
	w := c.W
	var src ssa.Value
	EachInstr(mp, func(in ssa.Instruction) {
		if call, ok := in.(*ssa.Call); ok {
			if cal := call.Call.StaticCallee(); cal != nil && cal.Name() == "uniqueNonFilteredPublications" {
				for _, r := range *call.Referrers() {
					if ex, ok := r.(*ssa.Extract); ok && ex.Index == 2 {
						src = ex
					}
				}
			}
		}
	})
	if !c.Anchor("C39.R4", "skipped placeholder offsets returned by uniqueNonFilteredPublications", src != nil) {
		return
	}
	// does the producer de-duplicate? (then any use is fine)
	prod := w.Func("internal/recovery", "uniqueNonFilteredPublications")
	nUses := 0
	seen := map[ssa.Value]bool{}
	var visit func(v ssa.Value)
	elemOK := func(ia ssa.Value) (bool, string) {
		// element loads: only equality comparisons or use as a map key
		for _, r := range *ia.Referrers() {
			ld, ok := r.(*ssa.UnOp)
			if !ok {
				return false, "element address escapes"
			}
			for _, u := range *ld.Referrers() {
				switch x := u.(type) {
				case *ssa.BinOp:
					if x.Op != token.EQL && x.Op != token.NEQ {
						return false, "element compared with " + x.Op.String() + " (order/counting, not membership)"
					}
				case *ssa.MapUpdate:
					if x.Key != ssa.Value(ld) {
						return false, "element stored as a map value"
					}
				case *ssa.DebugRef:
				default:
					return false, "element used by " + strings.SplitN(u.String(), " ", 2)[0]
				}
			}
		}
		return true, ""
	}
	visit = func(v ssa.Value) {
		if v == nil || seen[v] || v.Referrers() == nil {
			return
		}
		seen[v] = true
		for _, r := range *v.Referrers() {
			switch x := r.(type) {
			case *ssa.DebugRef:
			case *ssa.Phi:
				visit(x)
			case *ssa.Store:
				if al, ok := x.Addr.(*ssa.Alloc); ok && x.Val == v {
					for _, rr := range *al.Referrers() {
						if u, ok := rr.(*ssa.UnOp); ok && u.X == al {
							visit(u)
						}
					}
				}
			case *ssa.Call:
				nUses++
				if b, ok := x.Call.Value.(*ssa.Builtin); ok && b.Name() == "len" {
					// only compared with zero
					okZero := true
					for _, u := range *x.Referrers() {
						if bo, ok := u.(*ssa.BinOp); ok {
							if k, isC := constIntOf(bo.Y); !isC || k != 0 {
								okZero = false
							}
						} else if _, dbg := u.(*ssa.DebugRef); !dbg {
							okZero = false
						}
					}
					c.Check("C39.R4", x, "number of placeholder offsets used only as an emptiness test", okZero, "the count includes duplicates: comparing it with a range length hides a missing offset behind a duplicated placeholder")
					continue
				}
				cal := x.Call.StaticCallee()
				okC := cal != nil && cal.Object() != nil && cal.Object().Pkg() != nil && cal.Object().Pkg().Path() == "slices" && (cal.Object().Name() == "Contains" || cal.Object().Name() == "Index")
				name := "?"
				if cal != nil {
					name = cal.Name()
				}
				c.Check("C39.R4", x, "placeholder offsets queried by membership only", okC, "call "+name+": the slice may hold the same offset twice (recovered ∩ buffered), so a positional or binary-search based range test is wrong exactly in the history/live overlap window")
			case *ssa.IndexAddr:
				nUses++
				ok, why := elemOK(x)
				c.Check("C39.R4", x, "placeholder offsets read element-wise only for equality / set building", ok, why+": duplicates make counting or ordering arguments over the slice unsound")
			case *ssa.Slice:
				nUses++
				c.Check("C39.R4", x, "placeholder offsets are not resliced", false, "positional reasoning over a multiset")
			default:
				if _, isRet := r.(*ssa.Return); isRet {
					continue
				}
				nUses++
				c.Check("C39.R4", r, "placeholder offsets used as a set", false, "unrecognised use "+strings.SplitN(r.String(), " ", 2)[0])
			}
		}
	}
	visit(src)
	_ = prod
	c.Anchor("C39.R4", "uses of the placeholder offsets in MergePublications", nUses >= 2)
}
