package main

import (
	"fmt"
	"go/token"
	"go/types"
	"strings"

	"golang.org/x/tools/go/ssa"
)

func init() {
	register(&PropMeta{
		ID:    "C09",
		Level: "other",
		Explanation: "(R1) in dispatchCommand every command handler call is unreachable for an unauthenticated connection unless the command is connect (the gate returns DisconnectBadRequest before the read event is issued); " +
			"(R2) the frame-type chain and the handler chain of dispatchCommand test the same command fields and both end in DisconnectBadRequest; " +
			"(R3, at most once) in every command handler, reply helper and handler callback no path contains two terminal events (reply write, error write, error/disconnect flush), and no handler returns a non-nil error after it already wrote a reply; " +
			"(R4, at least once) every path through a handler callback ends with a terminal event, a close, or a delegation to another callback; every `return nil` of a handler is preceded by a terminal event or a delegation; " +
			"(R5) a pong is accepted only while a ping is outstanding (lastPing > 0), otherwise DisconnectBadRequest; the sign flip is made under c.mu.",
		NotDecided: "malformed-frame handling inside the protocol decoder (external module); that application handlers call their callback exactly once (API contract).",
		Rules: map[string]string{"C09.R1": "K2 path guard: authenticated gate", "C09.R2": "K7 case-set agreement in dispatchCommand", "C09.R3": "K5 at-most-one terminal event per path", "C09.R4": "K5 at-least-one terminal event per path", "C09.R5": "K2+K3 pong validation"},
		Run: runC09,
	})
}

func hasReplyWriterParam(f *ssa.Function) bool {
	for _, p := range f.Params {
		if typeShort(p.Type()) == "replyWriter" {
			return true
		}
	}
	return false
}

func runC09(c *Ctx) {
	w := c.W
	li := w.Locks()
	disp := c.Fn("C09.R1", "centrifuge", "(*Client).dispatchCommand")
	isHandlerCall := func(ci ssa.CallInstruction) bool {
		f := w.Callee(ci)
		return f != nil && f.Signature.Recv() != nil && typeShort(f.Signature.Recv().Type()) == "Client" && strings.HasPrefix(f.Name(), "handle") && f.Name() != "handleCommandDispatchError" && f.Name() != "handleCommandFinished"
	}
	if disp != nil {
		hcalls := CallsIn(disp, false, isHandlerCall)
		c.Anchor("C09.R1", "command handler calls in dispatchCommand", len(hcalls) >= 12)
		for _, h := range hcalls {
			isConnect := calleeName(h.Common()) == "Client.handleConnect"
			okG := PathGuarded(h, func(g Guard) bool {
				d := D(g.Cond)
				// !c.authenticated false edge, i.e. authenticated
				if strings.HasSuffix(d, "Client.authenticated") && g.Pol {
					return true
				}
				// isConnect true edge (Command.Connect != nil)
				if b, ok := g.Cond.(*ssa.BinOp); ok && isConnect && strings.HasSuffix(D(b.X), "Command.Connect") && isNilConst(b.Y) {
					return (b.Op == token.NEQ && g.Pol) || (b.Op == token.EQL && !g.Pol)
				}
				return false
			})
			c.Check("C09.R1", h, "handler reachable only for an authenticated connection (or the connect command)", okG, "before a successful connect every other command must close the connection without invoking any application handler")
		}
		// the gate's failing edge returns DisconnectBadRequest before issueCommandReadEvent
		rd := CallsIn(disp, false, w.calleeIs("Client.issueCommandReadEvent"))
		for _, r := range rd {
			okG := PathGuarded(r, func(g Guard) bool {
				d := D(g.Cond)
				if strings.HasSuffix(d, "Client.authenticated") && g.Pol {
					return true
				}
				if b, ok := g.Cond.(*ssa.BinOp); ok && strings.HasSuffix(D(b.X), "Command.Connect") && isNilConst(b.Y) {
					return (b.Op == token.NEQ && g.Pol) || (b.Op == token.EQL && !g.Pol)
				}
				return false
			})
			c.Check("C09.R1", r, "command-read event only past the authentication gate", okG, "the read event is an application handler")
		}
		// R2: fields tested with != nil
		fields := func(afterRead bool) map[string]bool {
			m := map[string]bool{}
			EachInstr(disp, func(in ssa.Instruction) {
				b, ok := in.(*ssa.BinOp)
				if !ok || b.Op != token.NEQ || !isNilConst(b.Y) {
					return
				}
				_, f, isF := FieldOf(unload(b.X))
				if !isF || !strings.Contains(D(b.X), "Command.") {
					return
				}
				isAfter := false
				for _, r := range rd {
					if Reaches(r, b) {
						isAfter = true
					}
				}
				if isAfter == afterRead {
					m[f] = true
				}
			})
			return m
		}
		ft, hd := fields(false), fields(true)
		delete(ft, "Connect") // isConnect is computed once before the chain as well
		ftAll := fields(false)
		missingH := setDiff(ftAll, hd)
		missingF := setDiff(hd, ftAll)
		// ping has no frame type of its own in the first chain? report exact sets
		c.CheckAt("C09.R2", "(*centrifuge.Client).dispatchCommand: frame-type chain and handler chain cover the same command fields", w.Pos(disp.Pos()), len(missingF) <= 1 && len(missingH) == 0,
			fmt.Sprintf("frame-type chain tests %v; handler chain tests %v; only-in-handlers=%v only-in-frame-types=%v", keys(ftAll), keys(hd), missingF, missingH))
		nDefault := 0
		EachInstr(disp, func(in ssa.Instruction) {
			r, ok := in.(*ssa.Return)
			if !ok {
				return
			}
			vals := retVals(r)
			if len(vals) == 2 && strings.Contains(D(vals[0]), "DisconnectBadRequest") {
				nDefault++
			}
		})
		c.CheckAt("C09.R2", "(*centrifuge.Client).dispatchCommand: unknown commands end in DisconnectBadRequest", w.Pos(disp.Pos()), nDefault >= 4, fmt.Sprintf("%d bad-request returns (gate, unnecessary pong, id-less command, two chain defaults)", nDefault))

		// R5
		found := false
		EachInstr(disp, func(in ssa.Instruction) {
			ifi, ok := in.(*ssa.If)
			if !ok {
				return
			}
			b, ok := ifi.Cond.(*ssa.BinOp)
			// `lastPing <= 0` (reject on the true edge) or its negation `lastPing > 0` (reject on the false edge)
			if !ok || (b.Op != token.LEQ && b.Op != token.GTR) || !strings.HasSuffix(D(b.X), "Client.lastPing") {
				return
			}
			if z, isZ := constIntOf(b.Y); !isZ || z != 0 {
				return
			}
			rejectEdge := 0
			if b.Op == token.GTR {
				rejectEdge = 1
			}
			found = true
			bad := PathQ{Goal: func(x ssa.Instruction) bool {
				r, ok := x.(*ssa.Return)
				if !ok {
					return false
				}
				vals := retVals(r)
				return len(vals) == 2 && !strings.Contains(D(vals[0]), "DisconnectBadRequest")
			}}.FromBlock(ifi.Block().Succs[rejectEdge])
			c.Check("C09.R5", ifi, "a pong without an outstanding ping closes the connection with bad request", bad == nil, "an unsolicited pong must not be accepted")
		})
		c.Anchor("C09.R5", "`lastPing <= 0` test in dispatchCommand", found)
		for _, st := range storesToField(disp, false, "Client", "lastPing") {
			held := li.HeldAt(st)
			okV := false
			if u, ok := st.Val.(*ssa.UnOp); ok && u.Op == token.SUB && strings.HasSuffix(D(u.X), "Client.lastPing") {
				okV = true
			}
			c.Check("C09.R5", st, "pong flips the sign of lastPing under c.mu", held.Holds("Client.mu", true) && okV, "a second pong for the same ping must be recognised as unnecessary (held: "+held.String()+")")
		}
	}

	// ---- R3 / R4: terminal events
	// writeMapSubscribeReply is reply-or-error (it returns the encode error instead of writing) and is
	// therefore analysed as a delegation, not as a terminal event
	terminal := w.calleeIs("Client.writeEncodedCommandReply", "Client.writeError", "Client.writeDisconnectOrErrorFlush", "Client.logWriteInternalErrorFlush")
	isDisconnectValue := func(v ssa.Value) bool {
		mi, ok := v.(*ssa.MakeInterface)
		if !ok {
			return false
		}
		return typeShort(mi.X.Type()) == "Disconnect"
	}
	uniExempt := func(cond ssa.Value, outcome bool) bool {
		// unidirectional transports have no command id to answer
		if call, ok := cond.(*ssa.Call); ok && call.Call.IsInvoke() && call.Call.Method.Name() == "Unidirectional" && outcome {
			return false
		}
		return true
	}
	closing := func(in ssa.Instruction) bool {
		ci := asCall(in)
		if ci == nil {
			return false
		}
		cp := w.calleeIs("Client.close", "Client.Disconnect", "Client.spawnCloseUnlessClosing", "Client.handleInsufficientStateDisconnect")
		if cp(ci) {
			return true
		}
		if _, isGo := in.(*ssa.Go); isGo {
			if cal := w.Callee(ci); cal != nil && w.MayReach(cal, cp, 2) {
				return true
			}
		}
		return false
	}
	// delegation: a call that receives a closure (the next callback) or another reply-carrying function
	delegation := func(in ssa.Instruction) bool {
		ci := asCall(in)
		if ci == nil {
			return false
		}
		for _, a := range ci.Common().Args {
			v := a
			if ct, ok := v.(*ssa.ChangeType); ok {
				v = ct.X
			}
			if mc, ok := v.(*ssa.MakeClosure); ok {
				if hasReplyWriterFreeVar(mc) {
					return true
				}
			}
		}
		if cal := w.Callee(ci); cal != nil && w.inModule(cal) && hasReplyWriterParam(cal) && !terminal(ci) {
			return true
		}
		return false
	}
	var scope []*ssa.Function
	for _, f := range w.AllFuncs {
		root := f
		for root.Parent() != nil {
			root = root.Parent()
		}
		if root.Signature.Recv() == nil || typeShort(root.Signature.Recv().Type()) != "Client" {
			continue
		}
		if !hasReplyWriterParam(root) {
			continue
		}
		n := root.Name()
		if n == "writeEncodedCommandReply" || n == "writeError" {
			continue // the primitives themselves
		}
		scope = append(scope, f)
	}
	c.Anchor("C09.R3", "reply-carrying functions of Client", len(scope) >= 30)
	nR3 := 0
	for _, f := range scope {
		terms := CallsIn(f, false, terminal)
		for _, t1 := range terms {
			nR3++
			var second ssa.Instruction
			for _, t2 := range terms {
				if t2 != t1 && Reaches(t1, t2) {
					second = t2
				}
			}
			// a delegation after a terminal event would answer again
			if second == nil {
				if x := (PathQ{Goal: func(in ssa.Instruction) bool { return in != ssa.Instruction(t1) && delegation(in) && callUsesReply(in) }}).From(t1); x != nil {
					second = x
				}
			}
			d := "a command carrying an id receives exactly one reply with that id"
			if second != nil {
				d += " — a second terminal event at " + w.InstrPos(second) + " is reachable after this one"
			}
			c.Check("C09.R3", t1, "no second reply/error write reachable after "+calleeName(t1.Common()), second == nil, d)
			// handler functions: no non-nil error return after a terminal event (dispatch would answer again)
			if f.Parent() == nil && f.Signature.Results().Len() == 1 && isErrorType(f.Signature.Results().At(0).Type()) {
				bad := PathQ{Goal: func(in ssa.Instruction) bool {
					r, ok := in.(*ssa.Return)
					if !ok {
						return false
					}
					vals := retVals(r)
					// returning a Disconnect closes the connection (no second reply)
					return len(vals) == 1 && !isNilConst(vals[0]) && !isDisconnectValue(vals[0])
				}}.From(t1)
				c.Check("C09.R3", t1, "no error return after the reply was written", bad == nil, "dispatchCommand writes an error reply (or closes) for a returned error: the command would be answered twice")
			}
		}
	}
	c.Floor("C09.R3", 60)

	// R4 at least once
	for _, f := range scope {
		name := FuncName(f)
		if f.Parent() != nil {
			// callback closure: only closures that capture the reply writer are reply-carrying
			if !closureCapturesRW(f) {
				continue
			}
			stop := func(in ssa.Instruction) bool {
				if ci := asCall(in); ci != nil && terminal(ci) {
					return true
				}
				return closing(in) || delegation(in)
			}
			bad := PathQ{Stop: stop, Goal: isReturn, EdgeCond: func(cond ssa.Value, outcome bool) bool {
				// paths on which the connection is known closed need no reply
				if b, ok := cond.(*ssa.BinOp); ok && strings.HasSuffix(D(b.X), "Client.status") {
					if v, isC := constIntOf(b.Y); isC {
						sc, _ := w.ConstInt("centrifuge", "statusClosed")
						if v == sc && ((b.Op == token.EQL && outcome) || (b.Op == token.NEQ && !outcome)) {
							return false
						}
					}
				}
				return true
			}}.FromEntry(f)
			d := "every command that carries an id receives a reply unless the connection is closed"
			if bad != nil {
				d += " — the return at " + w.InstrPos(bad) + " is reachable without a reply, an error, a close or a delegation"
			}
			c.CheckAt("C09.R4", name+": every path answers", w.Pos(f.Pos()), bad == nil, d)
			continue
		}
		if f.Signature.Results().Len() != 1 || !isErrorType(f.Signature.Results().At(0).Type()) {
			continue
		}
		stop := func(in ssa.Instruction) bool {
			if ci := asCall(in); ci != nil && terminal(ci) {
				return true
			}
			return closing(in) || delegation(in)
		}
		bad := PathQ{Stop: stop, Goal: func(in ssa.Instruction) bool {
			r, ok := in.(*ssa.Return)
			if !ok {
				return false
			}
			vals := retVals(r)
			return len(vals) == 1 && isNilConst(vals[0])
		}, EdgeCond: uniExempt}.FromEntry(f)
		d := "a handler that returns nil without having answered leaves the command without a reply"
		if bad != nil {
			d += " — `return nil` at " + w.InstrPos(bad)
		}
		c.CheckAt("C09.R4", name+": `return nil` only after answering or delegating", w.Pos(f.Pos()), bad == nil, d)
	}
	c.Floor("C09.R4", 25)
}

func unload(v ssa.Value) ssa.Value {
	if u, ok := v.(*ssa.UnOp); ok && u.Op == token.MUL {
		return u.X
	}
	return v
}

func isErrorType(t types.Type) bool {
	n, ok := t.(*types.Named)
	return ok && n.Obj().Name() == "error" && n.Obj().Pkg() == nil
}

func hasReplyWriterFreeVar(mc *ssa.MakeClosure) bool {
	f := mc.Fn.(*ssa.Function)
	return closureCapturesRW(f)
}

func closureCapturesRW(f *ssa.Function) bool {
	for _, fv := range f.FreeVars {
		t := fv.Type()
		for {
			if p, ok := t.(*types.Pointer); ok {
				t = p.Elem()
				continue
			}
			break
		}
		if typeShort(fv.Type()) == "replyWriter" || typeShort(t) == "replyWriter" {
			return true
		}
	}
	// nested: captures through parent
	for _, a := range f.AnonFuncs {
		if closureCapturesRW(a) {
			return true
		}
	}
	return false
}

// callUsesReply: the delegation passes the reply writer or the command on (so it will answer).
func callUsesReply(in ssa.Instruction) bool {
	ci := asCall(in)
	if ci == nil {
		return false
	}
	for _, a := range ci.Common().Args {
		if typeShort(a.Type()) == "replyWriter" {
			return true
		}
	}
	return false
}
