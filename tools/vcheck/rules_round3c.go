package main

import (
	"go/token"
	"strings"

	"golang.org/x/tools/go/ssa"
)

func init() {
	if round2Docs["C07"] == nil {
		round2Docs["C07"] = map[string]string{}
	}
	round2Docs["C07"]["C07.R6"] = "K1: presence/join set up after the subscription became visible to unsubscribe is re-validated"
	round3Hooks["C07"] = append(round3Hooks["C07"], runSetupAfterCommit)
}

// hasFlagBit: v is built (constant folding, OR chains, phis) from a constant with bit cv set.
func hasFlagBit(v ssa.Value, cv int64, depth int, seen map[ssa.Value]bool) bool {
	if v == nil || seen[v] || depth > 8 {
		return false
	}
	seen[v] = true
	if k, ok := constIntOf(v); ok {
		return k&cv != 0
	}
	switch x := v.(type) {
	case *ssa.BinOp:
		if x.Op == token.OR {
			return hasFlagBit(x.X, cv, depth+1, seen) || hasFlagBit(x.Y, cv, depth+1, seen)
		}
	case *ssa.Phi:
		for _, e := range x.Edges {
			if hasFlagBit(e, cv, depth+1, seen) {
				return true
			}
		}
	case *ssa.Convert:
		return hasFlagBit(x.X, cv, depth+1, seen)
	}
	return false
}

// runSetupAfterCommit (C07.R6, also C06): once a subscription is committed into Client.channels with the
// subscribed flag, an unsubscribe from another goroutine (server API, control message) no longer parks on
// the wait gate — it finds the subscription and tears it down at once: removes presence, publishes leave.
// Presence added or join published by the subscribe path *after* the commit can therefore land after that
// teardown: a presence entry for a connection that is not subscribed (until the TTL) and a leave ahead
// of its join. The periodic presence tick knows this race and compensates (compensateRacedPresence:
// re-check membership after the add, undo if it raced). A subscribe path must do the setup before the
// commit, or re-check membership after it and compensate.
func runSetupAfterCommit(c *Ctx) {
	w := c.W
	cv, ok := w.ConstInt("centrifuge", "flagSubscribed")
	if !c.Anchor("C07.R6", "constant flagSubscribed", ok) {
		return
	}
	setup := w.wrapMay(w.calleeIs("Node.addPresence", "Node.publishJoin"), 3)
	undo := w.wrapMay(w.calleeIs("Node.removePresence", "Node.publishLeave"), 3)
	commitDirect := w.calleeIs("Client.commitSubscription")
	mayCommit := w.wrapMay(commitDirect, 2)
	n := 0
	for _, f := range moduleFuncs(w) {
		if f.Pkg == nil || f.Pkg.Pkg.Path() != modPath {
			continue
		}
		var commits []ssa.Instruction
		EachInstr(f, func(in ssa.Instruction) {
			if ci := asCall(in); ci != nil && mayCommit(in) {
				if _, isDefer := in.(*ssa.Defer); !isDefer {
					commits = append(commits, in)
				}
				return
			}
			mu, ok := in.(*ssa.MapUpdate)
			if !ok || !loadsField(mu.Map, "Client", "channels") {
				return
			}
			// value: load of a local ChannelContext whose flags field was stored with the subscribed bit
			ld, ok := mu.Value.(*ssa.UnOp)
			if !ok {
				return
			}
			al, ok := ld.X.(*ssa.Alloc)
			if !ok {
				return
			}
			for _, r := range *al.Referrers() {
				fa, ok := r.(*ssa.FieldAddr)
				if !ok || !fieldAddrIs(fa, "ChannelContext", "flags") {
					continue
				}
				for _, rr := range *fa.Referrers() {
					if st, ok := rr.(*ssa.Store); ok && st.Addr == ssa.Value(fa) && hasFlagBit(st.Val, cv, 0, map[ssa.Value]bool{}) && Precedes(st, in) {
						commits = append(commits, in)
						return
					}
				}
			}
		})
		if len(commits) == 0 {
			continue
		}
		EachInstr(f, func(in ssa.Instruction) {
			if _, isDefer := in.(*ssa.Defer); isDefer {
				return
			}
			ci := asCall(in)
			if ci == nil || !setup(in) || undo(in) {
				return
			}
			after := false
			for _, cm := range commits {
				if cm != in && Reaches(cm, in) {
					after = true
				}
			}
			if !after {
				return
			}
			n++
			// compensation: after the setup call membership is looked up again and an undo is reachable
			recheck := false
			EachInstr(f, func(x ssa.Instruction) {
				if recheck {
					return
				}
				if lk, ok := x.(*ssa.Lookup); ok && loadsField(lk.X, "Client", "channels") && Reaches(in, x) {
					EachInstr(f, func(y ssa.Instruction) {
						if asCall(y) != nil && undo(y) && Reaches(x, y) {
							recheck = true
						}
					})
				}
			})
			// the finding is identified by the subscribe entry point it belongs to, not by the helper or
			// closure the code currently sits in
			c.CheckAt("C07.R6", subscribeEntryOf(w, f)+": presence/join set up after the commit is re-validated against a racing unsubscribe", w.InstrPos(in), recheck,
				"the subscription is already visible in Client.channels: an unsubscribe from another goroutine tears it down at once (remove presence, publish leave) and this setup lands afterwards — a presence entry without a subscription and a leave ahead of its join ("+calleeName(ci.Common())+")")
		})
	}
	c.Anchor("C07.R6", "presence/join setup calls placed after a subscription commit", n >= 1)
}

// subscribeEntryOf: the nearest subscribe entry point (frozen list, read from the code) from which f is
// entered lexically or through static calls.
func subscribeEntryOf(w *World, f *ssa.Function) string {
	entries := map[string]bool{
		"(*Client).handleSubscribe": true, "(*Client).Subscribe": true, "(*Client).connectCmd": true,
		"(*Client).handleMapTransitionToLive": true, "(*Client).handleSharedPollSubscribe": true,
	}
	type item struct {
		f *ssa.Function
		d int
	}
	seen := map[*ssa.Function]bool{f: true}
	queue := []item{{f, 0}}
	for len(queue) > 0 {
		it := queue[0]
		queue = queue[1:]
		name := shortFuncName(it.f)
		if it.f.Signature.Recv() != nil {
			name = "(*" + typeShort(it.f.Signature.Recv().Type()) + ")." + it.f.Name()
		}
		if entries[name] {
			return name
		}
		if it.d >= 5 {
			continue
		}
		var next []*ssa.Function
		if p := it.f.Parent(); p != nil {
			next = append(next, p)
		}
		for _, site := range w.Callers(it.f) {
			if p := site.Parent(); p != nil && !strings.HasSuffix(w.Pos(p.Pos()), "_test.go") {
				next = append(next, p)
			}
		}
		for _, n := range next {
			if !seen[n] {
				seen[n] = true
				queue = append(queue, item{n, it.d + 1})
			}
		}
	}
	return FuncName(f)
}
