package main

import (
	"go/types"

	"golang.org/x/tools/go/ssa"
)

// paramOfKind: v is (a single-store cell holding) a parameter or free variable whose basic kind is k.
// Used instead of matching parameter names, so that a rename does not change a verdict.
func paramOfKind(v ssa.Value, k types.BasicKind) bool {
	switch x := v.(type) {
	case *ssa.Parameter, *ssa.FreeVar:
		b, ok := v.Type().Underlying().(*types.Basic)
		return ok && b.Kind() == k
	case *ssa.UnOp:
		if al, ok := x.X.(*ssa.Alloc); ok {
			if sv := singleStore(al); sv != nil {
				return paramOfKind(sv, k)
			}
		}
		if fv, ok := x.X.(*ssa.FreeVar); ok {
			if p, ok := fv.Type().Underlying().(*types.Pointer); ok {
				b, ok := p.Elem().Underlying().(*types.Basic)
				return ok && b.Kind() == k
			}
		}
	}
	return false
}

// mentionsParamOfKind: some operand of the expression tree rooted at v is a parameter of kind k.
func mentionsParamOfKind(v ssa.Value, k types.BasicKind, depth int) bool {
	if v == nil || depth > 6 {
		return false
	}
	if paramOfKind(v, k) {
		return true
	}
	switch x := v.(type) {
	case *ssa.BinOp:
		return mentionsParamOfKind(x.X, k, depth+1) || mentionsParamOfKind(x.Y, k, depth+1)
	case *ssa.UnOp:
		return mentionsParamOfKind(x.X, k, depth+1)
	case *ssa.Convert:
		return mentionsParamOfKind(x.X, k, depth+1)
	case *ssa.Phi:
		for _, e := range x.Edges {
			if mentionsParamOfKind(e, k, depth+1) {
				return true
			}
		}
	}
	return false
}

// everyPhiEdge: pred holds for v, or v is a phi (possibly through conversions) all of whose edges satisfy it.
func everyPhiEdge(v ssa.Value, pred func(ssa.Value) bool, depth int) bool {
	if v == nil || depth > 6 {
		return false
	}
	switch x := v.(type) {
	case *ssa.Phi:
		for _, e := range x.Edges {
			if !everyPhiEdge(e, pred, depth+1) {
				return false
			}
		}
		return len(x.Edges) > 0
	case *ssa.Convert:
		if pred(v) {
			return true
		}
		return everyPhiEdge(x.X, pred, depth+1)
	}
	return pred(v)
}
