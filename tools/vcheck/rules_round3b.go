package main

import (
	"go/types"
	"sort"
	"strings"

	"golang.org/x/tools/go/ssa"
)

func init() {
	if round2Docs["C28"] == nil {
		round2Docs["C28"] = map[string]string{}
	}
	round2Docs["C28"]["C28.R3"] = "ownership: a subscription snapshot handed to a goroutine is not a reused scratch slice"
}

// reusedScratch: v is (derived from) a slice that was re-sliced to length zero for reuse — x[:0] handed
// to a call or an append as destination. Such a value shares its backing array with the previous use.
func reusedScratch(v ssa.Value, depth int, seen map[ssa.Value]bool) bool {
	if v == nil || seen[v] || depth > 10 {
		return false
	}
	seen[v] = true
	rec := func(x ssa.Value) bool { return reusedScratch(x, depth+1, seen) }
	switch x := v.(type) {
	case *ssa.Slice:
		if x.High != nil {
			if k, ok := constIntOf(x.High); ok && k == 0 {
				return true
			}
		}
		return rec(x.X)
	case *ssa.Phi:
		for _, e := range x.Edges {
			if rec(e) {
				return true
			}
		}
	case *ssa.Call:
		if b, ok := x.Call.Value.(*ssa.Builtin); ok {
			if b.Name() == "append" && len(x.Call.Args) > 0 {
				return rec(x.Call.Args[0])
			}
			return false
		}
		// a call that returns a slice of the same type as one of its slice arguments may return that argument
		for _, a := range x.Call.Args {
			if _, isSl := a.Type().Underlying().(*types.Slice); isSl && types.Identical(a.Type(), x.Type()) && rec(a) {
				return true
			}
		}
	case *ssa.UnOp:
		if al, ok := x.X.(*ssa.Alloc); ok {
			for _, r := range *al.Referrers() {
				if st, ok := r.(*ssa.Store); ok && st.Addr == ssa.Value(al) && rec(st.Val) {
					return true
				}
			}
		}
	}
	return false
}

// runSnapshotNotReused (C28.R3): the all-channels unsubscribe walks a snapshot of each connection's
// channels in a goroutine per connection. A snapshot built into a scratch slice that is reset with [:0]
// for the next connection is overwritten while the previous goroutine still walks it: that connection is
// "unsubscribed" from the other connection's channel names and keeps its own subscriptions.
func runSnapshotNotReused(c *Ctx, reach map[*ssa.Function]bool) {
	n := 0
	for f := range reach {
		EachInstr(f, func(in ssa.Instruction) {
			g, ok := in.(*ssa.Go)
			if !ok {
				return
			}
			n++
			vals := append([]ssa.Value{}, g.Call.Args...)
			if mc, ok := g.Call.Value.(*ssa.MakeClosure); ok {
				vals = append(vals, mc.Bindings...)
			}
			bad := ""
			for _, v := range vals {
				if _, isSl := v.Type().Underlying().(*types.Slice); !isSl {
					continue
				}
				if reusedScratch(v, 0, map[ssa.Value]bool{}) {
					bad = D(v)
				}
			}
			c.Check("C28.R3", in, "no slice handed to the per-connection goroutine is a scratch slice reset with [:0]", bad == "",
				"the goroutine still walks the slice when the loop overwrites it with the next connection's channels: the earlier connection keeps its subscriptions ("+bad+")")
		})
	}
	c.Anchor("C28.R3", "goroutines started by the node-level unsubscribe paths", n >= 1)
}

func init() {
	if round2Docs["C27"] == nil {
		round2Docs["C27"] = map[string]string{}
	}
	round2Docs["C27"]["C27.R6"] = "commutativity: every option field has one setter, so the order options are applied in cannot matter"
	round3Hooks["C27"] = append(round3Hooks["C27"], runOptionSettersCommute)
}

// runOptionSettersCommute (C27.R6): the calling node applies the caller's options in the caller's order;
// every other node rebuilds them from the control message in a fixed order of its own. The two agree for
// every option list only if applying options commutes — structurally: no field of the options struct is
// written by two different With* setters.
func runOptionSettersCommute(c *Ctx) {
	w := c.W
	n := 0
	for _, typ := range []string{"SubscribeOptions", "UnsubscribeOptions", "DisconnectOptions", "RefreshOptions"} {
		fields := w.withSettableFields(typ)
		for f, setters := range fields {
			uniq := map[string]bool{}
			for _, s := range setters {
				uniq[s] = true
			}
			n++
			var sorted []string
			for s := range uniq {
				sorted = append(sorted, s)
			}
			sort.Strings(sorted)
			names := " " + strings.Join(sorted, " ")
			c.CheckAt("C27.R6", typ+"."+f+": written by a single option setter", "options.go", len(uniq) == 1,
				"two setters write the same field, so the result depends on the order they are applied in; the calling node uses the caller's order, remote nodes rebuild the options in the fixed order of handleControl:"+names)
		}
	}
	c.Anchor("C27.R6", "option fields with a With* setter", n >= 10)
}

func init() {
	if round2Docs["C30"] == nil {
		round2Docs["C30"] = map[string]string{}
	}
	round2Docs["C30"]["C30.R5"] = "ownership: the write buffer goes back to the shared pool only after the network write that reads it"
	round3Hooks["C30"] = append(round3Hooks["C30"], runWriteBufReleasedAfterWrite)
}

// runWriteBufReleasedAfterWrite (C30.R5): with a shared WriteBufferPool the connection's write buffer is
// borrowed per message and handed back by endMessage. The frame bytes live in that buffer until
// Conn.write has pushed them to the network; a buffer returned before the write can be taken by another
// connection, which builds its frame over ours — the peer receives the other connection's bytes.
// So inside the websocket package no Conn.write is reachable after a call that returns the write buffer.
func runWriteBufReleasedAfterWrite(c *Ctx) {
	w := c.W
	isPut := func(ci ssa.CallInstruction) bool {
		cc := ci.Common()
		if cc.IsInvoke() && cc.Method.Name() == "Put" && strings.HasSuffix(typeShort(cc.Value.Type()), "BufferPool") {
			return true
		}
		return false
	}
	release := w.wrapMay(isPut, 2)
	netWrite := w.calleeIs("Conn.write")
	n := 0
	for _, f := range moduleFuncs(w) {
		if f.Pkg == nil || !strings.HasSuffix(f.Pkg.Pkg.Path(), "internal/websocket") {
			continue
		}
		writes := CallsIn(f, false, netWrite)
		if len(writes) == 0 {
			continue
		}
		EachInstr(f, func(in ssa.Instruction) {
			if _, isDefer := in.(*ssa.Defer); isDefer {
				return
			}
			ci := asCall(in)
			if ci == nil || !release(in) || netWrite(ci) {
				return
			}
			n++
			var bad ssa.Instruction
			for _, wr := range writes {
				if Reaches(in, wr) {
					bad = wr
				}
			}
			c.Check("C30.R5", in, "no network write is reachable after the write buffer went back to the pool", bad == nil,
				"the frame still lives in the pooled buffer: another connection sharing the pool can overwrite it before it is written, and the peer receives that connection's bytes"+instrAt(w, bad))
		})
	}
	c.Anchor("C30.R5", "buffer releases in functions that write to the network", n >= 1)
}

func init() {
	if round2Docs["C33"] == nil {
		round2Docs["C33"] = map[string]string{}
	}
	round2Docs["C33"]["C33.R6"] = "domain agreement: a stream offset read from the wire is parsed as an unsigned 64-bit number in every framing"
	round3Hooks["C33"] = append(round3Hooks["C33"], runOffsetParsedUnsigned)
}

// parsedSigned: v is the numeric result of strconv.Atoi / strconv.ParseInt, possibly handed back through
// module helpers, phis and conversions.
func parsedSigned(w *World, v ssa.Value, depth int, seen map[ssa.Value]bool) bool {
	if v == nil || seen[v] || depth > 8 {
		return false
	}
	seen[v] = true
	switch x := v.(type) {
	case *ssa.Convert:
		return parsedSigned(w, x.X, depth+1, seen)
	case *ssa.ChangeType:
		return parsedSigned(w, x.X, depth+1, seen)
	case *ssa.Phi:
		for _, e := range x.Edges {
			if parsedSigned(w, e, depth+1, seen) {
				return true
			}
		}
	case *ssa.Extract:
		call, ok := x.Tuple.(*ssa.Call)
		if !ok {
			return false
		}
		f := w.Callee(call)
		if f == nil {
			return false
		}
		if f.Pkg != nil && f.Pkg.Pkg.Path() == "strconv" {
			return x.Index == 0 && (f.Name() == "Atoi" || f.Name() == "ParseInt")
		}
		if !w.inModule(f) {
			return false
		}
		found := false
		EachInstr(f, func(in ssa.Instruction) {
			if r, ok := in.(*ssa.Return); ok && !found {
				vals := retVals(r)
				if x.Index < len(vals) && parsedSigned(w, vals[x.Index], depth+1, seen) {
					found = true
				}
			}
		})
		return found
	}
	return false
}

// runOffsetParsedUnsigned (C33.R6): stream offsets are uint64 end to end and the positioned framing parses
// them with ParseUint(…, 64). A framing that parses the same quantity as a signed int and converts it
// rejects (or mangles) the upper half of the domain: the same publication decodes in one framing and is
// dropped as malformed in the other.
func runOffsetParsedUnsigned(c *Ctx) {
	w := c.W
	n := 0
	for _, f := range moduleFuncs(w) {
		EachInstr(f, func(in ssa.Instruction) {
			st, ok := in.(*ssa.Store)
			if !ok {
				return
			}
			fa, ok := st.Addr.(*ssa.FieldAddr)
			if !ok {
				return
			}
			_, fld, ok := FieldOf(fa)
			if !ok || fld != "Offset" {
				return
			}
			b, isB := st.Val.Type().Underlying().(*types.Basic)
			if !isB || b.Kind() != types.Uint64 {
				return
			}
			// only stores of parsed values are instances
			if _, isConv := st.Val.(*ssa.Convert); !isConv {
				if _, isEx := st.Val.(*ssa.Extract); !isEx {
					return
				}
			}
			n++
			c.Check("C33.R6", in, "an Offset read from the wire is parsed over the whole uint64 domain", !parsedSigned(w, st.Val, 0, map[ssa.Value]bool{}),
				"the offset is parsed as a signed int and converted: offsets ≥ 2^63 fail to parse in this framing while the sibling framing (ParseUint) accepts them — the publication is dropped as malformed ("+D(st.Val)+")")
		})
	}
	c.Anchor("C33.R6", "stores of parsed or converted values into an Offset field", n >= 2)
}
