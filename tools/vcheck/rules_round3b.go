package main

import (
	"go/token"
	"go/types"
	"sort"
	"strings"

	"golang.org/x/tools/go/ssa"
)

func init() {
	if round2Docs["C28"] == nil {
		round2Docs["C28"] = map[string]string{}
	}
	round2Docs["C28"]["C28.R3"] = "ownership: a subscription snapshot handed to a goroutine is not a reused scratch slice"
}

// reusedScratch: v is (derived from) a slice that was re-sliced to length zero for reuse — x[:0] handed
// to a call or an append as destination. Such a value shares its backing array with the previous use.
func reusedScratch(v ssa.Value, depth int, seen map[ssa.Value]bool) bool {
	if v == nil || seen[v] || depth > 10 {
		return false
	}
	seen[v] = true
	rec := func(x ssa.Value) bool { return reusedScratch(x, depth+1, seen) }
	switch x := v.(type) {
	case *ssa.Slice:
		if x.High != nil {
			if k, ok := constIntOf(x.High); ok && k == 0 {
				return true
			}
		}
		return rec(x.X)
	case *ssa.Phi:
		for _, e := range x.Edges {
			if rec(e) {
				return true
			}
		}
	case *ssa.Call:
		if b, ok := x.Call.Value.(*ssa.Builtin); ok {
			if b.Name() == "append" && len(x.Call.Args) > 0 {
				return rec(x.Call.Args[0])
			}
			return false
		}
		// a call that returns a slice of the same type as one of its slice arguments may return that argument
		for _, a := range x.Call.Args {
			if _, isSl := a.Type().Underlying().(*types.Slice); isSl && types.Identical(a.Type(), x.Type()) && rec(a) {
				return true
			}
		}
	case *ssa.UnOp:
		if al, ok := x.X.(*ssa.Alloc); ok {
			for _, r := range *al.Referrers() {
				if st, ok := r.(*ssa.Store); ok && st.Addr == ssa.Value(al) && rec(st.Val) {
					return true
				}
			}
		}
	}
	return false
}

// runSnapshotNotReused (C28.R3): the all-channels unsubscribe walks a snapshot of each connection's
// channels in a goroutine per connection. A snapshot built into a scratch slice that is reset with [:0]
// for the next connection is overwritten while the previous goroutine still walks it: that connection is
// "unsubscribed" from the other connection's channel names and keeps its own subscriptions.
func runSnapshotNotReused(c *Ctx, reach map[*ssa.Function]bool) {
	n := 0
	for f := range reach {
		EachInstr(f, func(in ssa.Instruction) {
			g, ok := in.(*ssa.Go)
			if !ok {
				return
			}
			n++
			vals := append([]ssa.Value{}, g.Call.Args...)
			if mc, ok := g.Call.Value.(*ssa.MakeClosure); ok {
				vals = append(vals, mc.Bindings...)
			}
			bad := ""
			for _, v := range vals {
				if _, isSl := v.Type().Underlying().(*types.Slice); !isSl {
					continue
				}
				if reusedScratch(v, 0, map[ssa.Value]bool{}) {
					bad = D(v)
				}
			}
			c.Check("C28.R3", in, "no slice handed to the per-connection goroutine is a scratch slice reset with [:0]", bad == "",
				"the goroutine still walks the slice when the loop overwrites it with the next connection's channels: the earlier connection keeps its subscriptions ("+bad+")")
		})
	}
	c.Anchor("C28.R3", "goroutines started by the node-level unsubscribe paths", n >= 1)
}

func init() {
	if round2Docs["C27"] == nil {
		round2Docs["C27"] = map[string]string{}
	}
	round2Docs["C27"]["C27.R6"] = "commutativity: every option field has one setter, so the order options are applied in cannot matter"
	round3Hooks["C27"] = append(round3Hooks["C27"], runOptionSettersCommute)
}

// runOptionSettersCommute (C27.R6): the calling node applies the caller's options in the caller's order;
// every other node rebuilds them from the control message in a fixed order of its own. The two agree for
// every option list only if applying options commutes — structurally: no field of the options struct is
// written by two different With* setters.
func runOptionSettersCommute(c *Ctx) {
	w := c.W
	n := 0
	for _, typ := range []string{"SubscribeOptions", "UnsubscribeOptions", "DisconnectOptions", "RefreshOptions"} {
		fields := w.withSettableFields(typ)
		for f, setters := range fields {
			uniq := map[string]bool{}
			for _, s := range setters {
				uniq[s] = true
			}
			n++
			var sorted []string
			for s := range uniq {
				sorted = append(sorted, s)
			}
			sort.Strings(sorted)
			names := " " + strings.Join(sorted, " ")
			c.CheckAt("C27.R6", typ+"."+f+": written by a single option setter", "options.go", len(uniq) == 1,
				"two setters write the same field, so the result depends on the order they are applied in; the calling node uses the caller's order, remote nodes rebuild the options in the fixed order of handleControl:"+names)
		}
	}
	c.Anchor("C27.R6", "option fields with a With* setter", n >= 10)
}

func init() {
	if round2Docs["C30"] == nil {
		round2Docs["C30"] = map[string]string{}
	}
	round2Docs["C30"]["C30.R5"] = "ownership: the write buffer goes back to the shared pool only after the network write that reads it"
	round3Hooks["C30"] = append(round3Hooks["C30"], runWriteBufReleasedAfterWrite)
}

// runWriteBufReleasedAfterWrite (C30.R5): with a shared WriteBufferPool the connection's write buffer is
// borrowed per message and handed back by endMessage. The frame bytes live in that buffer until
// Conn.write has pushed them to the network; a buffer returned before the write can be taken by another
// connection, which builds its frame over ours — the peer receives the other connection's bytes.
// So inside the websocket package no Conn.write is reachable after a call that returns the write buffer.
func runWriteBufReleasedAfterWrite(c *Ctx) {
	w := c.W
	isPut := func(ci ssa.CallInstruction) bool {
		cc := ci.Common()
		if cc.IsInvoke() && cc.Method.Name() == "Put" && strings.HasSuffix(typeShort(cc.Value.Type()), "BufferPool") {
			return true
		}
		return false
	}
	release := w.wrapMay(isPut, 2)
	netWrite := w.calleeIs("Conn.write")
	n := 0
	for _, f := range moduleFuncs(w) {
		if f.Pkg == nil || !strings.HasSuffix(f.Pkg.Pkg.Path(), "internal/websocket") {
			continue
		}
		writes := CallsIn(f, false, netWrite)
		if len(writes) == 0 {
			continue
		}
		EachInstr(f, func(in ssa.Instruction) {
			if _, isDefer := in.(*ssa.Defer); isDefer {
				return
			}
			ci := asCall(in)
			if ci == nil || !release(in) || netWrite(ci) {
				return
			}
			n++
			var bad ssa.Instruction
			for _, wr := range writes {
				if Reaches(in, wr) {
					bad = wr
				}
			}
			c.Check("C30.R5", in, "no network write is reachable after the write buffer went back to the pool", bad == nil,
				"the frame still lives in the pooled buffer: another connection sharing the pool can overwrite it before it is written, and the peer receives that connection's bytes"+instrAt(w, bad))
		})
	}
	c.Anchor("C30.R5", "buffer releases in functions that write to the network", n >= 1)
}

func init() {
	if round2Docs["C33"] == nil {
		round2Docs["C33"] = map[string]string{}
	}
	round2Docs["C33"]["C33.R6"] = "domain agreement: a stream offset read from the wire is parsed as an unsigned 64-bit number in every framing"
	round3Hooks["C33"] = append(round3Hooks["C33"], runOffsetParsedUnsigned)
}

// parsedSigned: v is the numeric result of strconv.Atoi / strconv.ParseInt, possibly handed back through
// module helpers, phis and conversions.
func parsedSigned(w *World, v ssa.Value, depth int, seen map[ssa.Value]bool) bool {
	if v == nil || seen[v] || depth > 8 {
		return false
	}
	seen[v] = true
	switch x := v.(type) {
	case *ssa.Convert:
		return parsedSigned(w, x.X, depth+1, seen)
	case *ssa.ChangeType:
		return parsedSigned(w, x.X, depth+1, seen)
	case *ssa.Phi:
		for _, e := range x.Edges {
			if parsedSigned(w, e, depth+1, seen) {
				return true
			}
		}
	case *ssa.Extract:
		call, ok := x.Tuple.(*ssa.Call)
		if !ok {
			return false
		}
		f := w.Callee(call)
		if f == nil {
			return false
		}
		if f.Pkg != nil && f.Pkg.Pkg.Path() == "strconv" {
			return x.Index == 0 && (f.Name() == "Atoi" || f.Name() == "ParseInt")
		}
		if !w.inModule(f) {
			return false
		}
		found := false
		EachInstr(f, func(in ssa.Instruction) {
			if r, ok := in.(*ssa.Return); ok && !found {
				vals := retVals(r)
				if x.Index < len(vals) && parsedSigned(w, vals[x.Index], depth+1, seen) {
					found = true
				}
			}
		})
		return found
	}
	return false
}

// runOffsetParsedUnsigned (C33.R6): stream offsets are uint64 end to end and the positioned framing parses
// them with ParseUint(…, 64). A framing that parses the same quantity as a signed int and converts it
// rejects (or mangles) the upper half of the domain: the same publication decodes in one framing and is
// dropped as malformed in the other.
func runOffsetParsedUnsigned(c *Ctx) {
	w := c.W
	n := 0
	for _, f := range moduleFuncs(w) {
		EachInstr(f, func(in ssa.Instruction) {
			st, ok := in.(*ssa.Store)
			if !ok {
				return
			}
			fa, ok := st.Addr.(*ssa.FieldAddr)
			if !ok {
				return
			}
			_, fld, ok := FieldOf(fa)
			if !ok || fld != "Offset" {
				return
			}
			b, isB := st.Val.Type().Underlying().(*types.Basic)
			if !isB || b.Kind() != types.Uint64 {
				return
			}
			// only stores of parsed values are instances
			if _, isConv := st.Val.(*ssa.Convert); !isConv {
				if _, isEx := st.Val.(*ssa.Extract); !isEx {
					return
				}
			}
			n++
			c.Check("C33.R6", in, "an Offset read from the wire is parsed over the whole uint64 domain", !parsedSigned(w, st.Val, 0, map[ssa.Value]bool{}),
				"the offset is parsed as a signed int and converted: offsets ≥ 2^63 fail to parse in this framing while the sibling framing (ParseUint) accepts them — the publication is dropped as malformed ("+D(st.Val)+")")
		})
	}
	c.Anchor("C33.R6", "stores of parsed or converted values into an Offset field", n >= 2)
}

func init() {
	if round2Docs["C36"] == nil {
		round2Docs["C36"] = map[string]string{}
	}
	round2Docs["C36"]["C36.R5"] = "K4 who-may-write: the pong time (Client.lastSeen) is stamped only where an outstanding ping is answered"
	round3Hooks["C36"] = append(round3Hooks["C36"], runPongStampWriters)
}

// runPongStampWriters (C36.R5): checkPong closes the connection with the no-pong code when
// lastSeen < |lastPing|. lastSeen is therefore "the time of the last answered ping", and it may be stamped
// only on the branch that answers an outstanding ping (lastPing > 0, the branch that flips the marker).
// Stamped for any inbound command, a client that never pongs but keeps sending something else passes
// every pong check.
func runPongStampWriters(c *Ctx) {
	w := c.W
	n := 0
	for _, st := range w.FieldStores("Client", "lastSeen") {
		f := st.Parent()
		if strings.HasSuffix(w.Pos(f.Pos()), "_test.go") {
			continue
		}
		n++
		positive := Guarded(st, func(g Guard) bool {
			b, ok := g.Cond.(*ssa.BinOp)
			if !ok || !loadsField(b.X, "Client", "lastPing") {
				return false
			}
			z, isZ := constIntOf(b.Y)
			return isZ && z == 0 && ((b.Op.String() == "<=" && !g.Pol) || (b.Op.String() == ">" && g.Pol))
		})
		c.Check("C36.R5", st, "the pong time is stamped only on the branch that answers an outstanding ping (lastPing > 0)", positive,
			"checkPong compares lastSeen with the ping time: stamping it outside the pong branch lets a connection that never answers pings but sends other commands pass every pong check")
	}
	c.Anchor("C36.R5", "writers of Client.lastSeen", n >= 1)
}

// isSizeCmp2: instruction in is a value satisfying pred.
func isSizeCmp2(in ssa.Instruction, pred func(ssa.Value) bool) bool {
	v, ok := in.(ssa.Value)
	return ok && pred(v)
}

func init() {
	for _, p := range []string{"C40", "C12", "C38"} {
		if round2Docs[p] == nil {
			round2Docs[p] = map[string]string{}
		}
	}
	round2Docs["C40"]["C40.R5"] = "lost wake-up: the decision to park on the condition variable uses only values read in the current critical section"
	round2Docs["C12"]["C12.R6"] = "lost wake-up: the decision to park on the condition variable uses only values read in the current critical section"
	round2Docs["C38"]["C38.R5"] = "lost wake-up: the decision to park on the condition variable uses only values read in the current critical section"
	round3Hooks["C40"] = append(round3Hooks["C40"], func(c *Ctx) { runNoStalePark(c, "C40.R5", "internal/dissolve") })
	round3Hooks["C12"] = append(round3Hooks["C12"], func(c *Ctx) { runNoStalePark(c, "C12.R6", "internal/queue") })
	round3Hooks["C38"] = append(round3Hooks["C38"], func(c *Ctx) { runNoStalePark(c, "C38.R5", "") })
}

// fieldLoadsIn collects the loads of struct fields a condition is computed from.
func fieldLoadsIn(v ssa.Value, depth int, seen map[ssa.Value]bool, out *[]*ssa.UnOp) {
	if v == nil || seen[v] || depth > 6 {
		return
	}
	seen[v] = true
	switch x := v.(type) {
	case *ssa.UnOp:
		if _, ok := x.X.(*ssa.FieldAddr); ok && x.Op == token.MUL {
			*out = append(*out, x)
			return
		}
		fieldLoadsIn(x.X, depth+1, seen, out)
	case *ssa.BinOp:
		fieldLoadsIn(x.X, depth+1, seen, out)
		fieldLoadsIn(x.Y, depth+1, seen, out)
	case *ssa.Phi:
		for _, e := range x.Edges {
			fieldLoadsIn(e, depth+1, seen, out)
		}
	case *ssa.Convert:
		fieldLoadsIn(x.X, depth+1, seen, out)
	case *ssa.Call:
		if b, ok := x.Call.Value.(*ssa.Builtin); ok && b.Name() == "len" {
			fieldLoadsIn(x.Call.Args[0], depth+1, seen, out)
		}
	}
}

// runNoStalePark: a worker parks in sync.Cond.Wait because "nothing to do" was true. The producer changes
// that fact and signals under the same mutex, so the wake-up cannot be lost only if the worker read the
// fact inside the critical section in which it parks. A value read before the lock was (re)taken can be
// stale: the producer's signal fires while nobody is parked, and the worker then parks with work queued.
// Rule: every struct-field value the guards of a Cond.Wait call are computed from was loaded with no lock
// or unlock event between the load and the Wait; and at least one such guard exists.
func runNoStalePark(c *Ctx, rule, pkgSuffix string) {
	w := c.W
	n := 0
	for _, f := range moduleFuncs(w) {
		if f.Pkg == nil {
			continue
		}
		if pkgSuffix != "" && !strings.HasSuffix(f.Pkg.Pkg.Path(), pkgSuffix) {
			continue
		}
		if pkgSuffix == "" && f.Pkg.Pkg.Path() != modPath {
			continue
		}
		EachInstr(f, func(in ssa.Instruction) {
			call, ok := in.(*ssa.Call)
			if !ok {
				return
			}
			cal := call.Call.StaticCallee()
			if cal == nil || cal.Pkg == nil || cal.Pkg.Pkg.Path() != "sync" || cal.Name() != "Wait" || cal.Signature.Recv() == nil || typeShort(cal.Signature.Recv().Type()) != "Cond" {
				return
			}
			n++
			var loads []*ssa.UnOp
			for _, g := range Guards(in) {
				fieldLoadsIn(g.Cond, 0, map[ssa.Value]bool{}, &loads)
			}
			// a field is decided freshly when some load of it has no lock event on the way to the Wait; a stale
			// peek followed by a fresh re-check of the same field (double-checked fast path) is fine
			var stale *ssa.UnOp
			var via ssa.Instruction
			fresh := map[string]bool{}
			staleOf := map[string]*ssa.UnOp{}
			viaOf := map[string]ssa.Instruction{}
			for _, ld := range loads {
				key := D(ld)
				var ev ssa.Instruction
				EachInstr(f, func(u ssa.Instruction) {
					if ev != nil {
						return
					}
					if _, isDefer := u.(*ssa.Defer); isDefer {
						return
					}
					ci := asCall(u)
					if ci == nil || u == in {
						return
					}
					if k, _ := lockEvent(ci); k != "" && Reaches(ld, u) && Reaches(u, in) && !Reaches(in, ld) {
						ev = u
					}
				})
				if ev == nil {
					fresh[key] = true
				} else {
					staleOf[key], viaOf[key] = ld, ev
				}
			}
			var keys []string
			for k := range staleOf {
				keys = append(keys, k)
			}
			sort.Strings(keys)
			for _, k := range keys {
				if !fresh[k] {
					stale, via = staleOf[k], viaOf[k]
					break
				}
			}
			detail := "the producer's signal can fire between the read and the park: the worker then sleeps with work queued (a job accepted but never run, a message never written)"
			if stale != nil {
				detail += " — " + D(stale) + " read at " + w.InstrPos(stale) + ", lock event at " + w.InstrPos(via)
			}
			c.Check(rule, in, "the decision to park uses only values read in the critical section of the Wait", len(loads) > 0 && stale == nil, detail)
		})
	}
	c.Anchor(rule, "sync.Cond.Wait call sites", n >= 1)
}

func init() {
	round2Docs["C38"]["C38.R6"] = "value flow: the queue entry found to be the insufficient-state marker is the entry that is broadcast"
	round3Hooks["C38"] = append(round3Hooks["C38"], runMarkerIsBroadcast)
}

// fieldRoot strips field selections and loads: the value a field chain starts from.
func fieldRoot(v ssa.Value) ssa.Value {
	for i := 0; i < 8; i++ {
		switch x := v.(type) {
		case *ssa.Field:
			v = x.X
		case *ssa.FieldAddr:
			v = x.X
		case *ssa.UnOp:
			if x.Op != token.MUL {
				return v
			}
			v = x.X
		default:
			return v
		}
	}
	return v
}

// runMarkerIsBroadcast (C38.R6): the coalescing loop of the queue writer drops all but the newest queued
// publication, but stops at the insufficient-state marker, which must never be dropped: on the branch
// where an entry was found to be the marker, the next broadcast sends *that* entry. (A loop that keeps
// the previous entry in hand when it breaks on the marker broadcasts an ordinary publication and the
// marker is gone — positioned subscribers are never told their position is lost.)
func runMarkerIsBroadcast(c *Ctx) {
	w := c.W
	n := 0
	bcast := w.calleeIs("channelMedium.broadcast")
	for _, f := range moduleFuncs(w) {
		if f.Pkg == nil || f.Pkg.Pkg.Path() != modPath || len(CallsIn(f, false, bcast)) == 0 {
			continue
		}
		for _, b := range f.Blocks {
			if len(b.Instrs) == 0 {
				continue
			}
			ifi, ok := b.Instrs[len(b.Instrs)-1].(*ssa.If)
			if !ok {
				continue
			}
			// condition (possibly the last operand of an || chain lowered to blocks) is a load of
			// isInsufficientState
			var fa ssa.Value
			switch x := ifi.Cond.(type) {
			case *ssa.UnOp:
				fa = x.X
			case *ssa.Field:
				fa = x
			}
			isMarker := false
			switch x := fa.(type) {
			case *ssa.FieldAddr:
				_, fld, ok := FieldOf(x)
				isMarker = ok && fld == "isInsufficientState"
			case *ssa.Field:
				_, fld, ok := FieldOf(x)
				isMarker = ok && fld == "isInsufficientState"
			}
			if !isMarker {
				continue
			}
			root := fieldRoot(ifi.Cond)
			// follow the true edge through straight-line blocks to the next broadcast
			prev, cur := b, b.Succs[0]
			var call ssa.CallInstruction
			for hops := 0; hops < 4 && call == nil; hops++ {
				for _, in := range cur.Instrs {
					if ci := asCall(in); ci != nil && bcast(ci) {
						call = ci
						break
					}
				}
				if call != nil || len(cur.Succs) != 1 {
					break
				}
				prev, cur = cur, cur.Succs[0]
			}
			if call == nil {
				continue
			}
			n++
			args := call.Common().Args
			sent := fieldRoot(args[len(args)-1])
			// resolve a phi at the head of the broadcast block (or of a straight-line block before it) for
			// the edge we came in on
			for i := 0; i < 3; i++ {
				phi, ok := sent.(*ssa.Phi)
				if !ok {
					break
				}
				blk := phi.Block()
				idx := -1
				// which predecessor of the phi's block lies on our path?
				p, q := b, b.Succs[0]
				for hops := 0; hops < 5 && idx < 0; hops++ {
					if q == blk {
						for k, pr := range blk.Preds {
							if pr == p {
								idx = k
							}
						}
						break
					}
					if len(q.Succs) != 1 {
						break
					}
					p, q = q, q.Succs[0]
				}
				if idx < 0 {
					break
				}
				sent = fieldRoot(phi.Edges[idx])
			}
			_ = prev
			if sent != root {
				// a copy "sent = marker entry" on the way to the broadcast makes them the same entry
				sa, ok1 := sent.(*ssa.Alloc)
				ra, ok2 := root.(*ssa.Alloc)
				if ok1 && ok2 {
					// (a) the copy was made just before the test: scanning back from the test, the last store
					// into the sent variable copies the tested one
				back:
					for i := len(b.Instrs) - 2; i >= 0; i-- {
						if st, ok := b.Instrs[i].(*ssa.Store); ok {
							if st.Addr == ssa.Value(sa) {
								if ld, ok := st.Val.(*ssa.UnOp); ok && ld.Op == token.MUL && ld.X == ssa.Value(ra) {
									sent = root
								}
								break back
							}
							if st.Addr == ssa.Value(ra) {
								break back
							}
						}
					}
					// (b) or it is made on the way to the broadcast
					q := b.Succs[0]
				walk:
					for hops := 0; hops < 5; hops++ {
						for _, in := range q.Instrs {
							if in == ssa.Instruction(call) {
								break walk
							}
							if st, ok := in.(*ssa.Store); ok && st.Addr == ssa.Value(sa) {
								if ld, ok := st.Val.(*ssa.UnOp); ok && ld.Op == token.MUL && ld.X == ssa.Value(ra) {
									sent = root
								}
							}
						}
						if len(q.Succs) != 1 {
							break
						}
						q = q.Succs[0]
					}
				}
			}
			c.Check("C38.R6", ifi, "the entry found to be the insufficient-state marker is the one broadcast on that branch", sent == root,
				"the branch taken for the marker broadcasts another entry ("+D(sent)+" instead of "+D(root)+"): the marker is dropped and positioned subscribers are never told their position is lost")
		}
	}
	c.Anchor("C38.R6", "marker tests followed by a broadcast", n >= 2)
}

func init() {
	if round2Docs["C39"] == nil {
		round2Docs["C39"] = map[string]string{}
	}
	round2Docs["C39"]["C39.R5"] = "K2: no publication is filtered out of the recovered list before the merge without leaving a placeholder"
	round3Hooks["C39"] = append(round3Hooks["C39"], runNoFilterBeforeMerge)
}

// condFromCall: cond is computed (through !, phis of && / ||, comparisons with constants) from the result
// of a call satisfying pred.
func condFromCall(v ssa.Value, pred func(*ssa.Call) bool, depth int, seen map[ssa.Value]bool) bool {
	if v == nil || seen[v] || depth > 6 {
		return false
	}
	seen[v] = true
	switch x := v.(type) {
	case *ssa.Call:
		return pred(x)
	case *ssa.Extract:
		return condFromCall(x.Tuple, pred, depth+1, seen)
	case *ssa.UnOp:
		return condFromCall(x.X, pred, depth+1, seen)
	case *ssa.BinOp:
		return condFromCall(x.X, pred, depth+1, seen) || condFromCall(x.Y, pred, depth+1, seen)
	case *ssa.Phi:
		for _, e := range x.Edges {
			if condFromCall(e, pred, depth+1, seen) {
				return true
			}
		}
	}
	return false
}

// runNoFilterBeforeMerge (C39.R5): MergePublications detects a gap over the merged offsets and tolerates a
// missing offset only where a filtered placeholder (Time == -1) covers it. A caller that drops the
// publications its tags filter excludes *before* the merge, without a placeholder, manufactures holes: as
// soon as buffered publications are present the merge reports a gap that does not exist and the client is
// disconnected with insufficient state. So, in a function that calls MergePublications, no append that
// builds the recovered argument is conditional on a tags-filter verdict (filtering happens after the
// merge, or inside the recovery helper that writes placeholders).
func runNoFilterBeforeMerge(c *Ctx) {
	w := c.W
	match := w.calleeIs("filter.Match")
	isFilterCall := func(call *ssa.Call) bool {
		if match(call) {
			return true
		}
		cal := w.Callee(call)
		return cal != nil && w.inModule(cal) && w.MayReach(cal, match, 3)
	}
	n := 0
	for _, f := range moduleFuncs(w) {
		for _, ci := range CallsIn(f, false, w.calleeIs("recovery.MergePublications")) {
			n++
			arg := ci.Common().Args[0]
			// appends feeding arg
			var feeds []*ssa.Call
			seen := map[ssa.Value]bool{}
			var walk func(v ssa.Value, d int)
			walk = func(v ssa.Value, d int) {
				if v == nil || seen[v] || d > 10 {
					return
				}
				seen[v] = true
				switch x := v.(type) {
				case *ssa.Phi:
					for _, e := range x.Edges {
						walk(e, d+1)
					}
				case *ssa.Call:
					if b, ok := x.Call.Value.(*ssa.Builtin); ok && b.Name() == "append" {
						feeds = append(feeds, x)
						walk(x.Call.Args[0], d+1)
					}
				case *ssa.Slice:
					walk(x.X, d+1)
				case *ssa.UnOp:
					if al, ok := x.X.(*ssa.Alloc); ok {
						for _, r := range *al.Referrers() {
							if st, ok := r.(*ssa.Store); ok && st.Addr == ssa.Value(al) {
								walk(st.Val, d+1)
							}
						}
					}
				}
			}
			walk(arg, 0)
			bad := ""
			for _, ap := range feeds {
				if GuardedBy(ap, func(g Guard) bool { return condFromCall(g.Cond, isFilterCall, 0, map[ssa.Value]bool{}) }) {
					bad = w.InstrPos(ap)
				}
			}
			c.Check("C39.R5", ci, "the recovered list handed to the merge is built without consulting the tags filters", bad == "",
				"a publication dropped before the merge leaves a hole no placeholder covers: with buffered publications present the merge reports a gap that does not exist (append at "+bad+")")
		}
	}
	c.Anchor("C39.R5", "MergePublications call sites", n >= 2)
}

func init() {
	if round2Docs["C13"] == nil {
		round2Docs["C13"] = map[string]string{}
	}
	round2Docs["C13"]["C13.R5"] = "conservation: a ring index and the element count move by the same amount in the same step"
	round3Hooks["C13"] = append(round3Hooks["C13"], runRingDeltaAgrees)
}

// ringDelta: v == (load typ.idx + d) % len(typ.nodes)  →  d
func ringDelta(v ssa.Value, typ, idx string) (ssa.Value, bool) {
	rem, ok := v.(*ssa.BinOp)
	if !ok || rem.Op != token.REM {
		return nil, false
	}
	add, ok := rem.X.(*ssa.BinOp)
	if !ok || add.Op != token.ADD {
		return nil, false
	}
	if loadsField(add.X, typ, idx) {
		return add.Y, true
	}
	if loadsField(add.Y, typ, idx) {
		return add.X, true
	}
	return nil, false
}

func sameAmount(a, b ssa.Value) bool {
	if a == b {
		return true
	}
	ka, oka := constIntOf(a)
	kb, okb := constIntOf(b)
	return oka && okb && ka == kb
}

// runRingDeltaAgrees (C13.R5, also C12): the ring invariant cnt == (tail − head) mod len(nodes) survives a
// step only if the index it moves and the count move by the same amount. Where a store advances tail (or
// head) by d modulo the ring length and the same block changes cnt by d', d and d' must be the same value
// (or equal constants). A bulk copy that advances tail by the length of the first run but cnt by the
// whole batch leaves entries the consumer never sees, or makes it read stale slots. Unrecognised shapes
// get no verdict.
func runRingDeltaAgrees(c *Ctx) {
	w := c.W
	n := 0
	for _, typ := range []string{"Queue", "publicationQueue", "queueImpl"} {
		for _, f := range moduleFuncs(w) {
			for _, idx := range []string{"tail", "head"} {
				for _, st := range storesToField(f, false, typ, idx) {
					d, ok := ringDelta(st.Val, typ, idx)
					if !ok {
						continue
					}
					// the cnt store of the same block
					var cntDelta ssa.Value
					found := 0
					for _, in := range st.Block().Instrs {
						cs, ok := in.(*ssa.Store)
						if !ok {
							continue
						}
						fa, ok := cs.Addr.(*ssa.FieldAddr)
						if !ok || !fieldAddrIs(fa, typ, "cnt") {
							continue
						}
						b, ok := cs.Val.(*ssa.BinOp)
						if !ok || (b.Op != token.ADD && b.Op != token.SUB) || !loadsField(b.X, typ, "cnt") {
							continue
						}
						found++
						cntDelta = b.Y
					}
					if found == 0 {
						// not in the same block: accept the pairing only when the function has exactly one
						// count update and one update of this index
						var cntStores []*ssa.Store
						for _, cs := range storesToField(f, false, typ, "cnt") {
							if b, ok := cs.Val.(*ssa.BinOp); ok && (b.Op == token.ADD || b.Op == token.SUB) && loadsField(b.X, typ, "cnt") {
								cntStores = append(cntStores, cs)
							}
						}
						idxStores := 0
						for _, is := range storesToField(f, false, typ, idx) {
							if _, ok := ringDelta(is.Val, typ, idx); ok {
								idxStores++
							}
						}
						// … and both sit in the same loop context: a count moved once after a loop that advances
						// the index per element is a different (correct) bookkeeping, not a mismatch
						if len(cntStores) == 1 && idxStores == 1 && sameLoopContext(st.Block(), cntStores[0].Block()) {
							found = 1
							cntDelta = cntStores[0].Val.(*ssa.BinOp).Y
						}
					}
					if found != 1 {
						continue
					}
					n++
					c.Check("C13.R5", st, typ+"."+idx+" and "+typ+".cnt move by the same amount", sameAmount(d, cntDelta),
						"the ring index advances by "+D(d)+" while the count changes by "+D(cntDelta)+": cnt no longer equals the distance between head and tail, so queued items are skipped or stale slots are delivered")
				}
			}
		}
	}
	c.Anchor("C13.R5", "ring index updates paired with a count update", n >= 4)
}

func init() {
	if round2Docs["C41"] == nil {
		round2Docs["C41"] = map[string]string{}
	}
	round2Docs["C41"]["C41.R5"] = "K4 who-may-write: a survey's registration is added and removed only by the function that runs that survey"
	round3Hooks["C41"] = append(round3Hooks["C41"], runSurveyRegistryOwner)
}

// runSurveyRegistryOwner (C41.R5): Survey registers its reply channel, collects one answer per node and
// unregisters when it returns. Replies are routed through the registry, so an entry removed by anyone
// else while the survey is still collecting turns the remaining nodes' answers into "unknown id" and the
// survey runs into its deadline with results missing. Every update and delete of Node.surveyRegistry
// therefore sits in the function (or a closure of the function) that also registers the channel.
func runSurveyRegistryOwner(c *Ctx) {
	w := c.W
	owners := map[*ssa.Function]bool{}
	for _, f := range moduleFuncs(w) {
		if len(mapUpdatesOf(f, false, "Node", "surveyRegistry")) > 0 {
			for _, g := range WithClosures(f) {
				owners[g] = true
			}
			// a closure that registers: its parent owns too
			for p := f.Parent(); p != nil; p = p.Parent() {
				for _, g := range WithClosures(p) {
					owners[g] = true
				}
			}
		}
	}
	if !c.Anchor("C41.R5", "function registering a survey reply channel", len(owners) > 0) {
		return
	}
	n := 0
	for _, f := range moduleFuncs(w) {
		for _, del := range mapDeletesOf(f, false, "Node", "surveyRegistry") {
			n++
			c.Check("C41.R5", del, "a survey registration is removed only by the function that runs the survey", owners[f],
				"replies are routed through the registry: removing the entry while the survey still collects makes the remaining nodes' answers unknown ids, and the survey ends at its deadline with results missing")
		}
	}
	c.Anchor("C41.R5", "deletes of Node.surveyRegistry entries", n >= 1)
}

func init() {
	if round2Docs["C42"] == nil {
		round2Docs["C42"] = map[string]string{}
	}
	round2Docs["C42"]["C42.R4"] = "K2: the loop that clears a pooled item buffer clears every slot (no exit or skip that depends on the contents)"
	round3Hooks["C42"] = append(round3Hooks["C42"], runClearsEverySlot)
}

// readsElement: the condition is computed from a load through an element address (x[i] or x[i].f).
func readsElement(v ssa.Value, depth int, seen map[ssa.Value]bool) bool {
	if v == nil || seen[v] || depth > 6 {
		return false
	}
	seen[v] = true
	switch x := v.(type) {
	case *ssa.UnOp:
		if x.Op == token.MUL {
			a := x.X
			for i := 0; i < 4; i++ {
				switch y := a.(type) {
				case *ssa.FieldAddr:
					a = y.X
					continue
				case *ssa.IndexAddr:
					return true
				}
				break
			}
			return false
		}
		return readsElement(x.X, depth+1, seen)
	case *ssa.BinOp:
		return readsElement(x.X, depth+1, seen) || readsElement(x.Y, depth+1, seen)
	case *ssa.Phi:
		for _, e := range x.Edges {
			if readsElement(e, depth+1, seen) {
				return true
			}
		}
	case *ssa.Call:
		if b, ok := x.Call.Value.(*ssa.Builtin); ok && (b.Name() == "len" || b.Name() == "cap") {
			return readsElement(x.Call.Args[0], depth+1, seen)
		}
	}
	return false
}

// runClearsEverySlot (C42.R4): putItemBuf zeroes the item buffer before it goes back to the pool; the
// items carry channel, key and payload of another connection. The clearing loop must reach every slot: a
// store into an element of the buffer, in the function that pools it, is not conditional on the contents
// of the buffer (an early exit "at the first empty slot" leaves everything behind it, because an item
// with nil Data can sit in the middle of a frame).
func runClearsEverySlot(c *Ctx) {
	w := c.W
	put := w.Func("centrifuge", "putItemBuf")
	if !c.Anchor("C42.R4", "putItemBuf", put) {
		return
	}
	n := 0
	EachInstr(put, func(in ssa.Instruction) {
		var site ssa.Instruction
		if st, ok := in.(*ssa.Store); ok {
			if _, ok := st.Addr.(*ssa.IndexAddr); ok {
				site = st
			}
		}
		// the clear builtin over the buffer zeroes every slot at once
		if call, ok := in.(*ssa.Call); ok {
			if b, ok := call.Call.Value.(*ssa.Builtin); ok && b.Name() == "clear" && len(call.Call.Args) == 1 && loadsField(call.Call.Args[0], "itemBuf", "B") {
				site = call
			}
		}
		if site == nil {
			return
		}
		st := site
		n++
		bad := ""
		for _, g := range Guards(st) {
			if readsElement(g.Cond, 0, map[ssa.Value]bool{}) {
				bad = g.String()
			}
		}
		c.Check("C42.R4", st, "clearing a pooled item buffer does not depend on its contents", bad == "",
			"slots behind the first one that satisfies the condition keep another connection's items (channel, key, payload) and are handed out with the next buffer of that size class (condition: "+bad+")")
	})
	c.Anchor("C42.R4", "element stores in putItemBuf", n >= 1)
}

// mustPassUp: like PathQ.From, but a path that leaves a helper through a return continues at the helper's
// call sites (same package, bounded depth): an obligation "before the request ends" may be discharged by
// the caller of an extracted helper. Returns the offending instruction or nil.
func (w *World) mustPassUp(from ssa.Instruction, q PathQ, depth int) ssa.Instruction {
	env := map[ssa.Value]bool{}
	q1 := q
	q1.GoalEnv = &env
	bad := q1.From(from)
	if bad == nil {
		return nil
	}
	ret, isRet := bad.(*ssa.Return)
	if !isRet || depth <= 0 {
		return bad
	}
	// boolean results whose value is known on this path (a flag set just before the return)
	known := map[int]bool{}
	for i, v := range retVals(ret) {
		if k, ok := evalBool(v, env); ok {
			known[i] = k
		}
	}
	f := bad.Parent()
	sites := 0
	for _, site := range w.Callers(f) {
		p := site.Parent()
		if p == nil || p.Pkg != f.Pkg || strings.HasSuffix(w.Pos(p.Pos()), "_test.go") {
			continue
		}
		sites++
		sv := site.Value()
		q2 := q
		inner := q.EdgeCond
		q2.EdgeCond = func(cond ssa.Value, outcome bool) bool {
			if sv != nil {
				if cond == ssa.Value(sv) {
					if k, ok := known[0]; ok && len(known) >= 1 && f.Signature.Results().Len() == 1 {
						return outcome == k
					}
				}
				if ex, ok := cond.(*ssa.Extract); ok && ex.Tuple == ssa.Value(sv) {
					if k, ok := known[ex.Index]; ok {
						return outcome == k
					}
				}
			}
			if inner != nil {
				return inner(cond, outcome)
			}
			return true
		}
		if b := w.mustPassUp(site, q2, depth-1); b != nil {
			return b
		}
	}
	if sites == 0 {
		return bad
	}
	return nil
}

// sameLoopContext: a and b are both outside every cycle of the CFG, or each reaches the other.
func sameLoopContext(a, b *ssa.BasicBlock) bool {
	reach := func(from, to *ssa.BasicBlock) bool {
		seen := map[*ssa.BasicBlock]bool{}
		var stack []*ssa.BasicBlock
		stack = append(stack, from.Succs...)
		for len(stack) > 0 {
			x := stack[len(stack)-1]
			stack = stack[:len(stack)-1]
			if seen[x] {
				continue
			}
			seen[x] = true
			if x == to {
				return true
			}
			stack = append(stack, x.Succs...)
		}
		return false
	}
	if a == b {
		return true
	}
	ca, cb := reach(a, a), reach(b, b)
	if !ca && !cb {
		return true
	}
	return ca && cb && reach(a, b) && reach(b, a)
}
