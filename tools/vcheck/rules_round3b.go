package main

import (
	"go/types"

	"golang.org/x/tools/go/ssa"
)

func init() {
	if round2Docs["C28"] == nil {
		round2Docs["C28"] = map[string]string{}
	}
	round2Docs["C28"]["C28.R3"] = "ownership: a subscription snapshot handed to a goroutine is not a reused scratch slice"
}

// reusedScratch: v is (derived from) a slice that was re-sliced to length zero for reuse — x[:0] handed
// to a call or an append as destination. Such a value shares its backing array with the previous use.
func reusedScratch(v ssa.Value, depth int, seen map[ssa.Value]bool) bool {
	if v == nil || seen[v] || depth > 10 {
		return false
	}
	seen[v] = true
	rec := func(x ssa.Value) bool { return reusedScratch(x, depth+1, seen) }
	switch x := v.(type) {
	case *ssa.Slice:
		if x.High != nil {
			if k, ok := constIntOf(x.High); ok && k == 0 {
				return true
			}
		}
		return rec(x.X)
	case *ssa.Phi:
		for _, e := range x.Edges {
			if rec(e) {
				return true
			}
		}
	case *ssa.Call:
		if b, ok := x.Call.Value.(*ssa.Builtin); ok {
			if b.Name() == "append" && len(x.Call.Args) > 0 {
				return rec(x.Call.Args[0])
			}
			return false
		}
		// a call that returns a slice of the same type as one of its slice arguments may return that argument
		for _, a := range x.Call.Args {
			if _, isSl := a.Type().Underlying().(*types.Slice); isSl && types.Identical(a.Type(), x.Type()) && rec(a) {
				return true
			}
		}
	case *ssa.UnOp:
		if al, ok := x.X.(*ssa.Alloc); ok {
			for _, r := range *al.Referrers() {
				if st, ok := r.(*ssa.Store); ok && st.Addr == ssa.Value(al) && rec(st.Val) {
					return true
				}
			}
		}
	}
	return false
}

// runSnapshotNotReused (C28.R3): the all-channels unsubscribe walks a snapshot of each connection's
// channels in a goroutine per connection. A snapshot built into a scratch slice that is reset with [:0]
// for the next connection is overwritten while the previous goroutine still walks it: that connection is
// "unsubscribed" from the other connection's channel names and keeps its own subscriptions.
func runSnapshotNotReused(c *Ctx, reach map[*ssa.Function]bool) {
	n := 0
	for f := range reach {
		EachInstr(f, func(in ssa.Instruction) {
			g, ok := in.(*ssa.Go)
			if !ok {
				return
			}
			n++
			vals := append([]ssa.Value{}, g.Call.Args...)
			if mc, ok := g.Call.Value.(*ssa.MakeClosure); ok {
				vals = append(vals, mc.Bindings...)
			}
			bad := ""
			for _, v := range vals {
				if _, isSl := v.Type().Underlying().(*types.Slice); !isSl {
					continue
				}
				if reusedScratch(v, 0, map[ssa.Value]bool{}) {
					bad = D(v)
				}
			}
			c.Check("C28.R3", in, "no slice handed to the per-connection goroutine is a scratch slice reset with [:0]", bad == "",
				"the goroutine still walks the slice when the loop overwrites it with the next connection's channels: the earlier connection keeps its subscriptions ("+bad+")")
		})
	}
	c.Anchor("C28.R3", "goroutines started by the node-level unsubscribe paths", n >= 1)
}
