package main

import (
	"go/token"
	"go/types"
	"strings"

	"golang.org/x/tools/go/ssa"
)

func init() {
	register(&PropMeta{
		ID:    "C32",
		Level: "other",
		Explanation: "the framing clauses that are visible in the shape of the code: (R1) in the SSE handler each message is written as exactly \"data: \" + sanitised(message) + \"\\n\\n\", where the sanitiser is a function that removes or rewrites every CR and every LF (both are line terminators for an event-stream parser; in JSON they can only be insignificant whitespace), and the SSE transport is JSON-only; " +
			"(R2) in the HTTP-stream handler the JSON branch writes each message followed by exactly one \"\\n\", the JSON encoder of raw payloads (protocol.Raw.MarshalJSON, read from the dependency's source in the build) strips LF, and the Protobuf branch writes only the length-delimited output of the protocol data encoder fed with every message; " +
			"(R3) both transports hand the writer's batch over message by message (one event / record per message, in slice order).",
		NotDecided: "that the JSON encoder escapes control characters inside strings (trusted: generated encoder of github.com/centrifugal/protocol); byte equality of decoded messages; flush timing; what a particular client library does beyond the event-stream / newline-delimited grammar.",
		Rules: map[string]string{"C32.R1": "K11 template + sanitiser of the SSE data line", "C32.R2": "K11 template of HTTP-stream records; encoder strips LF", "C32.R3": "K1 per-message loop in slice order"},
		Run: runC32,
	})
}

// removesByte reports whether fn (a []byte -> []byte function) provably drops or rewrites every
// occurrence of byte b: either through bytes.ReplaceAll / bytes.Replace(…,-1) with a constant old value
// equal to b, or through a copy loop that appends an element only on an edge where it differs from b.
func removesByte(w *World, fn *ssa.Function, b byte, depth int) bool {
	if fn == nil || depth > 2 || len(fn.Blocks) == 0 {
		return false
	}
	ok := false
	EachInstr(fn, func(in ssa.Instruction) {
		call, isCall := in.(*ssa.Call)
		if !isCall {
			return
		}
		cal := call.Call.StaticCallee()
		if cal == nil {
			return
		}
		if cal.Pkg != nil && cal.Pkg.Pkg.Path() == "bytes" && (cal.Name() == "ReplaceAll" || cal.Name() == "Replace") && len(call.Call.Args) >= 3 {
			if constBytesIs(call.Call.Args[1], b) {
				if cal.Name() == "Replace" {
					if n, isC := constIntOf(call.Call.Args[3]); !isC || n >= 0 {
						return
					}
				}
				// the replacement must not reintroduce the byte
				if !constBytesContains(call.Call.Args[2], b) {
					ok = true
				}
			}
		}
	})
	if ok {
		return true
	}
	// copy loop: every append of an element of the parameter is guarded by elem != b
	appends, guarded := 0, 0
	EachInstr(fn, func(in ssa.Instruction) {
		call, isCall := in.(*ssa.Call)
		if !isCall {
			return
		}
		bi, isB := call.Call.Value.(*ssa.Builtin)
		if !isB || bi.Name() != "append" {
			return
		}
		appends++
		if GuardedBy(in, func(g Guard) bool {
			bo, ok := g.Cond.(*ssa.BinOp)
			if !ok {
				return false
			}
			v, isC := constIntOf(bo.Y)
			if !isC || byte(v) != b {
				return false
			}
			return (bo.Op == token.NEQ && g.Pol) || (bo.Op == token.EQL && !g.Pol)
		}) {
			guarded++
		}
	})
	if appends > 0 && appends == guarded {
		// and every return is either the loop's output or the input on a path where the byte is absent
		allRet := true
		EachInstr(fn, func(in ssa.Instruction) {
			r, isR := in.(*ssa.Return)
			if !isR {
				return
			}
			for _, v := range retVals(r) {
				if _, isParam := v.(*ssa.Parameter); isParam {
					absent := Guarded(r, func(g Guard) bool {
						bo, ok := g.Cond.(*ssa.BinOp)
						if !ok || bo.Op != token.LSS || !g.Pol {
							return false
						}
						z, isZ := constIntOf(bo.Y)
						if !isZ || z != 0 {
							return false
						}
						c, isCall := bo.X.(*ssa.Call)
						if !isCall {
							return false
						}
						f := c.Call.StaticCallee()
						if f == nil || f.Name() != "IndexByte" || len(c.Call.Args) != 2 {
							return false
						}
						cv, isC := constIntOf(c.Call.Args[1])
						return isC && byte(cv) == b
					})
					if !absent {
						allRet = false
					}
				}
			}
		})
		return allRet
	}
	return false
}

func constBytesIs(v ssa.Value, b byte) bool {
	s, ok := constBytes(v)
	return ok && len(s) == 1 && s[0] == b
}

func constBytesContains(v ssa.Value, b byte) bool {
	s, ok := constBytes(v)
	if !ok {
		return !isNilConst(v) // unknown replacement: assume it may contain the byte
	}
	return strings.IndexByte(s, b) >= 0
}

// constBytes: []byte("lit"), []byte{'x'}, or nil.
func constBytes(v ssa.Value) (string, bool) {
	if isNilConst(v) {
		return "", true
	}
	switch x := v.(type) {
	case *ssa.Convert:
		if s, ok := constStrOf(x.X); ok {
			return s, true
		}
	case *ssa.Slice:
		if al, ok := x.X.(*ssa.Alloc); ok {
			var out []byte
			n := 0
			for _, r := range *al.Referrers() {
				if ia, ok := r.(*ssa.IndexAddr); ok {
					for _, rr := range *ia.Referrers() {
						if st, ok := rr.(*ssa.Store); ok {
							if cv, isC := constIntOf(st.Val); isC {
								out = append(out, byte(cv))
								n++
							}
						}
					}
				}
			}
			if n > 0 {
				return string(out), true
			}
		}
	}
	return "", false
}

func runC32(c *Ctx) {
	w := c.W
	// ---- R1 SSE
	sse := c.Fn("C32.R1", "centrifuge", "(*SSEHandler).ServeHTTP")
	if sse != nil {
		n := 0
		for _, f := range WithClosures(sse) {
			EachInstr(f, func(in ssa.Instruction) {
				ci := asCall(in)
				if ci == nil || !(ci.Common().IsInvoke() && ci.Common().Method.Name() == "Write") || len(ci.Common().Args) != 1 {
					return
				}
				parts := writeParts(ci.Common().Args[0])
				if len(parts) == 0 || !strings.Contains(parts[0].lit, "data:") {
					return
				}
				n++
				okShape := len(parts) == 3 && parts[0].lit == "data: " && parts[1].val != nil && parts[2].lit == "\n\n"
				c.Check("C32.R1", ci, "SSE event is \"data: \" + message + \"\\n\\n\"", okShape, "one data line and one blank line per message; got "+partsString(parts))
				if !okShape {
					return
				}
				// the payload passes a sanitiser for CR and LF
				var san *ssa.Function
				v := parts[1].val
				for i := 0; i < 6 && v != nil; i++ {
					switch x := v.(type) {
					case *ssa.Call:
						if cal := x.Call.StaticCallee(); cal != nil {
							if w.inModule(cal) && strings.Contains(FuncName(cal), "convert.") && len(x.Call.Args) == 1 {
								v = x.Call.Args[0]
								continue
							}
							if w.inModule(cal) && len(x.Call.Args) == 1 {
								san = cal
							}
						}
						v = nil
					case *ssa.Convert:
						v = x.X
					case *ssa.ChangeType:
						v = x.X
					default:
						v = nil
					}
				}
				for _, b := range []byte{'\r', '\n'} {
					name := map[byte]string{'\r': "CR", '\n': "LF"}[b]
					if b == '\r' && san != nil {
						// the message bytes are shared: the hub encodes a push once and hands the same slice
						// to every subscriber with the same protocol settings
						bad := writesIntoParam(san)
						c.Check("C32.R1", ci, "the SSE sanitiser leaves the shared message bytes untouched (writes only into memory it allocated)", bad == nil,
							"the same encoded message is delivered to every subscriber of the channel; compacting it in place corrupts what the other connections send"+instrAt(w, bad))
					}
					okB := san != nil && removesByte(w, san, b, 0)
					if b == '\n' && !okB {
						okB = encoderStripsLF(w) // raw payloads reach the message only through protocol.Raw.MarshalJSON
					}
					c.Check("C32.R1", ci, "SSE message has every "+name+" removed before it is put on the data line", okB,
						"an event-stream parser ends a line at CR, LF or CRLF: a raw "+name+" in the message (legal JSON whitespace in a payload) cuts the event and the rest is parsed as an unknown field")
				}
			})
		}
		c.Anchor("C32.R1", "SSE data-line write", n >= 1)
	}
	if p := c.Fn("C32.R1", "centrifuge", "(*sseTransport).Protocol"); p != nil {
		okJSON := true
		k := 0
		EachInstr(p, func(in ssa.Instruction) {
			if r, ok := in.(*ssa.Return); ok {
				for _, v := range retVals(r) {
					k++
					if s, isS := constStrOf(v); !isS || s != "json" {
						okJSON = false
					}
				}
			}
		})
		c.CheckAt("C32.R1", "(*centrifuge.sseTransport).Protocol: SSE carries the JSON protocol only", w.Pos(p.Pos()), okJSON && k > 0, "binary Protobuf cannot be put on a text data line")
	}
	// ---- R2 HTTP stream
	hs := c.Fn("C32.R2", "centrifuge", "(*HTTPStreamHandler).ServeHTTP")
	if hs != nil {
		var msgWrites, nlWrites, finishWrites []ssa.CallInstruction
		var encodes []ssa.CallInstruction
		for _, f := range w.Deep(hs, 2).Funcs { // the handler, its closures and the helpers it calls
			EachInstr(f, func(in ssa.Instruction) {
				ci := asCall(in)
				if ci == nil {
					return
				}
				if ci.Common().IsInvoke() && ci.Common().Method.Name() == "Encode" {
					encodes = append(encodes, ci)
				}
				if !(ci.Common().IsInvoke() && ci.Common().Method.Name() == "Write") || len(ci.Common().Args) != 1 {
					return
				}
				a := ci.Common().Args[0]
				if s, ok := constBytes(a); ok && s != "" {
					if s == "\n" {
						nlWrites = append(nlWrites, ci)
					} else {
						c.Check("C32.R2", ci, "HTTP-stream record terminator is a single LF", false, "got "+D(a))
					}
					return
				}
				d := D(a)
				switch {
				case strings.Contains(d, "Finish("):
					finishWrites = append(finishWrites, ci)
				case fromReceivedBatch(a):
					msgWrites = append(msgWrites, ci)
				}
			})
		}
		isProto := func(pol bool) func(Guard) bool {
			return func(g Guard) bool {
				return g.Pol == pol && strings.Contains(D(g.Cond), "== \"protobuf\"")
			}
		}
		if c.Anchor("C32.R2", "HTTP-stream JSON message write", len(msgWrites) >= 1) && c.Anchor("C32.R2", "HTTP-stream LF write", len(nlWrites) >= 1) {
			for _, mw := range msgWrites {
				c.Check("C32.R2", mw, "raw message write only on the JSON branch", GuardedBy(mw, isProto(false)), "Protobuf needs length-delimited framing")
				// every path from the message write to the loop back-edge / next message write passes the LF write or exits
				nl := func(in ssa.Instruction) bool {
					for _, x := range nlWrites {
						if x == in {
							return true
						}
					}
					return false
				}
				target := ssa.Instruction(mw)
				bad := PathQ{Stop: func(in ssa.Instruction) bool { return nl(in) || isReturn(in) }, Goal: func(in ssa.Instruction) bool { return in == target }}.From(mw)
				c.Check("C32.R2", mw, "every JSON message is followed by its LF before the next message", bad == nil, "two records run together parse as one invalid JSON document")
			}
			for _, nw := range nlWrites {
				target := ssa.Instruction(nw)
				isMsg := func(in ssa.Instruction) bool {
					for _, x := range msgWrites {
						if x == in {
							return true
						}
					}
					return false
				}
				bad := PathQ{Stop: func(in ssa.Instruction) bool { return isMsg(in) || isReturn(in) }, Goal: func(in ssa.Instruction) bool { return in == target }}.From(nw)
				c.Check("C32.R2", nw, "exactly one LF per JSON message", bad == nil, "an empty record between messages")
			}
		}
		if c.Anchor("C32.R2", "HTTP-stream Protobuf encoder output write", len(finishWrites) >= 1) && c.Anchor("C32.R2", "data encoder Encode call", len(encodes) >= 1) {
			for _, fw := range finishWrites {
				c.Check("C32.R2", fw, "encoder output written only on the Protobuf branch", GuardedBy(fw, isProto(true)), "")
			}
			for _, e := range encodes {
				c.Check("C32.R2", e, "every message of the batch goes through the length-delimiting encoder", fromReceivedBatch(e.Common().Args[0]), "got "+D(e.Common().Args[0]))
			}
		}
	}
	// the JSON encoder of raw payloads strips LF (dependency source is part of the build)
	if pp := w.Prog.ImportedPackage("github.com/centrifugal/protocol"); c.Anchor("C32.R2", "package github.com/centrifugal/protocol in the build", pp != nil) {
		var mj *ssa.Function
		if tm, ok := pp.Members["Raw"].(*ssa.Type); ok {
			if sel := w.Prog.MethodSets.MethodSet(tm.Type()).Lookup(pp.Pkg, "MarshalJSON"); sel != nil {
				mj = w.Prog.MethodValue(sel)
			}
		}
		if c.Anchor("C32.R2", "protocol.Raw.MarshalJSON", mj != nil && len(mj.Blocks) > 0) {
			c.CheckAt("C32.R2", "protocol.Raw.MarshalJSON strips LF from raw JSON payloads", "github.com/centrifugal/protocol/raw.go", removesByte(w, mj, '\n', 0), "newline-delimited JSON records rely on payloads holding no raw LF")
		}
	}
	// ---- R3 per-message loops
	for _, tn := range []string{"sseTransport", "httpStreamTransport"} {
		wm := c.Fn("C32.R3", "centrifuge", "(*"+tn+").WriteMany")
		wr := c.Fn("C32.R3", "centrifuge", "(*"+tn+").Write")
		if wm == nil || wr == nil {
			continue
		}
		// WriteMany sends the slice it was given, unchanged, over the messages channel
		sent := false
		EachInstr(wm, func(in ssa.Instruction) {
			if sel, ok := in.(*ssa.Select); ok {
				for _, st := range sel.States {
					if st.Dir == 1 /* types.SendOnly */ && st.Send != nil && strings.HasSuffix(D(st.Chan), tn+".messages") {
						if _, isParam := st.Send.(*ssa.Parameter); isParam {
							sent = true
						}
					}
				}
			}
		})
		c.CheckAt("C32.R3", "(*centrifuge."+tn+").WriteMany hands the batch over unchanged", w.Pos(wm.Pos()), sent, "messages are framed one by one by the handler loop, in slice order")
		c.CheckAt("C32.R3", "(*centrifuge."+tn+").Write delegates to WriteMany", w.Pos(wr.Pos()), len(CallsIn(wr, false, w.calleeFn(wm))) == 1, "")
	}
}

func instrAt(w *World, in ssa.Instruction) string {
	if in == nil {
		return ""
	}
	return " (" + w.InstrPos(in) + ")"
}

// writesIntoParam returns an instruction of fn that writes into the backing array of one of its slice
// parameters: an append whose destination is (a reslice of) the parameter, or a store through an
// element address of it. Appends into a make()'d or nil slice are fine.
func writesIntoParam(fn *ssa.Function) ssa.Instruction {
	var rootIsParam func(v ssa.Value, seen map[ssa.Value]bool) bool
	rootIsParam = func(v ssa.Value, seen map[ssa.Value]bool) bool {
		if v == nil || seen[v] {
			return false
		}
		seen[v] = true
		switch x := v.(type) {
		case *ssa.Parameter:
			return true
		case *ssa.Slice:
			return rootIsParam(x.X, seen)
		case *ssa.Phi:
			for _, e := range x.Edges {
				if rootIsParam(e, seen) {
					return true
				}
			}
		case *ssa.Call:
			if b, ok := x.Call.Value.(*ssa.Builtin); ok && b.Name() == "append" && len(x.Call.Args) > 0 {
				return rootIsParam(x.Call.Args[0], seen)
			}
		case *ssa.UnOp:
			if al, ok := x.X.(*ssa.Alloc); ok {
				for _, r := range *al.Referrers() {
					if st, ok := r.(*ssa.Store); ok && st.Addr == al && rootIsParam(st.Val, seen) {
						return true
					}
				}
			}
		case *ssa.ChangeType:
			return rootIsParam(x.X, seen)
		}
		return false
	}
	var bad ssa.Instruction
	EachInstr(fn, func(in ssa.Instruction) {
		if bad != nil {
			return
		}
		switch x := in.(type) {
		case *ssa.Call:
			if b, ok := x.Call.Value.(*ssa.Builtin); ok && len(x.Call.Args) > 0 && (b.Name() == "append" || b.Name() == "copy") {
				if rootIsParam(x.Call.Args[0], map[ssa.Value]bool{}) {
					bad = in
				}
			}
		case *ssa.Store:
			if ia, ok := x.Addr.(*ssa.IndexAddr); ok && rootIsParam(ia.X, map[ssa.Value]bool{}) {
				bad = in
			}
		}
	})
	return bad
}

// encoderStripsLF: protocol.Raw.MarshalJSON (dependency source, part of the build) removes every LF.
func encoderStripsLF(w *World) bool {
	pp := w.Prog.ImportedPackage("github.com/centrifugal/protocol")
	if pp == nil {
		return false
	}
	tm, ok := pp.Members["Raw"].(*ssa.Type)
	if !ok {
		return false
	}
	sel := w.Prog.MethodSets.MethodSet(tm.Type()).Lookup(pp.Pkg, "MarshalJSON")
	if sel == nil {
		return false
	}
	mj := w.Prog.MethodValue(sel)
	return mj != nil && len(mj.Blocks) > 0 && removesByte(w, mj, '\n', 0)
}

type writePart struct {
	lit string
	val ssa.Value
}

// writeParts flattens the argument of a Write call: conversions, convert.StringToBytes and string
// concatenation.
func writeParts(v ssa.Value) []writePart {
	for i := 0; i < 6; i++ {
		switch x := v.(type) {
		case *ssa.Call:
			if cal := x.Call.StaticCallee(); cal != nil && (cal.Name() == "StringToBytes") && len(x.Call.Args) == 1 {
				v = x.Call.Args[0]
				continue
			}
		case *ssa.Convert:
			v = x.X
			continue
		}
		break
	}
	var out []writePart
	var flat func(v ssa.Value, d int)
	flat = func(v ssa.Value, d int) {
		if b, ok := v.(*ssa.BinOp); ok && b.Op == token.ADD && d < 12 {
			flat(b.X, d+1)
			flat(b.Y, d+1)
			return
		}
		if s, ok := constStrOf(v); ok {
			out = append(out, writePart{lit: s})
			return
		}
		out = append(out, writePart{val: v})
	}
	flat(v, 0)
	return out
}

func partsString(ps []writePart) string {
	var s []string
	for _, p := range ps {
		if p.val != nil {
			s = append(s, "⟨"+D(p.val)+"⟩")
		} else {
			s = append(s, strings.ReplaceAll(strings.ReplaceAll("\""+p.lit+"\"", "\n", "\\n"), "\r", "\\r"))
		}
	}
	return strings.Join(s, " + ")
}

// fromReceivedBatch: v is an element of the [][]byte batch received from a channel in a select.
func fromReceivedBatch(v ssa.Value) bool {
	u, ok := v.(*ssa.UnOp)
	if !ok || u.Op != token.MUL {
		return false
	}
	ia, ok := u.X.(*ssa.IndexAddr)
	if !ok {
		return false
	}
	// a [][]byte parameter (the batch handed to a helper) or the value received in the select
	if p, ok := ia.X.(*ssa.Parameter); ok {
		if s, ok := p.Type().Underlying().(*types.Slice); ok {
			if s2, ok := s.Elem().Underlying().(*types.Slice); ok {
				if b, ok := s2.Elem().Underlying().(*types.Basic); ok && b.Kind() == types.Byte {
					return true
				}
			}
		}
		return false
	}
	ex, ok := ia.X.(*ssa.Extract)
	if !ok {
		return false
	}
	_, isSel := ex.Tuple.(*ssa.Select)
	return isSel
}
