package main

import (
	"fmt"
	"go/token"
	"strings"

	"golang.org/x/tools/go/ssa"
)

func init() {
	register(&PropMeta{
		ID:    "C11",
		Level: "other",
		Explanation: "(R1) no channel push can pass its subscribed test before the connect reply is queued: the connect reply/push write precedes the connect-time finalize stores and every channel push enqueue is guarded (shared with C10.R1/R2); " +
			"(R2) SetDictionaryCompression is called only by connectCmd and before the connect reply write; (R3) Client.close closes the writer, then the codec, then the transport, and the first closed-status test connectCmd makes after installing the codec closes the codec itself before bailing out (close() is one-shot and may have run before the codec existed); " +
			"(R4) in the websocket transport the pending codec is promoted only in writeData on the branch that writes that frame un-encoded, Encode is reached only through a non-nil active codec, and a codec is closed only through the two Swap(nil) sites (at most once).",
		NotDecided: "node-level Send/Subscribe/Refresh addressed to a connection between hub registration and the reply write (there is no 'reply written' state to guard on); what the transport buffers.",
		Rules: map[string]string{"C11.R1": "K1/K2 shared with C10", "C11.R2": "K1 + K4 who-may-call SetDictionaryCompression", "C11.R3": "K1 order; must-pass on the closed edge after codec installation", "C11.R4": "K4 who-may-write codec slots"},
		Run: runC11,
	})
	register(&PropMeta{
		ID:    "C14",
		Level: "other",
		Explanation: "(R1) a delta payload (brokerDeltaData / localDeltaData) is enqueued only when flagDeltaAllowed was read from the subscription's context, and the path without it sets the flag and writes the full payload; " +
			"(R2) flagDeltaAllowed is set only at the enumerated sites, each under its enabling condition; (R3) a keyed delta is used only when the key's deltaReady is set and its version equals the delta's base version, evaluated in the critical section of the enqueue; " +
			"(R4) every function calling fdelta.Create falls back to the full payload when the patch is not smaller and sets Delta accordingly; " +
			"(R5, ownership) publication objects obtained from history, the broker or the subscribe-time buffer are never mutated by the delivery layer: every store into a Publication field targets a freshly allocated value (composite literal or a documented fresh-returning helper).",
		NotDecided: "byte-level reconstruction of payloads; the fossil delta library.",
		Rules: map[string]string{"C14.R1": "K2 guard on delta enqueues", "C14.R2": "K4 who-may-set flagDeltaAllowed", "C14.R3": "K2+K3 keyed delta base check", "C14.R4": "sibling agreement of fdelta.Create callers", "C14.R5": "ownership: no stores into shared Publication objects"},
		Run: runC14,
	})
	register(&PropMeta{
		ID:    "C25",
		Level: "other",
		Explanation: "(R1) in keyedWritePublication the tracked-key test, the version monotonicity re-check (pubVersion <= keyState.version → drop), the enqueue and the version/deltaReady stores are in one c.mu critical section, and the stores happen only after a successful enqueue; " +
			"(R2) = C14.R3; (R3) keyed cleanup paths remove the subscriber registration while holding c.mu; (R4) a publisher epoch flip ends current subscriptions with insufficient state.",
		NotDecided: "eventual delivery of the newest version; version arithmetic of the refresh worker; timing.",
		Rules: map[string]string{"C25.R1": "K3+K2: atomic check-enqueue-record", "C25.R3": "K3: cleanup under c.mu", "C25.R4": "K2: epoch flip → Unsubscribe(insufficient state)", "C25.R5": "value flow: a tracked entry's version moves only to a compared-newer value or to the channel-scope monotone counter"},
		Run: runC25,
	})
}

func atomicPtrOp(ci ssa.CallInstruction, op, fieldSuffix string) bool {
	f := ci.Common().StaticCallee()
	if f == nil || f.Name() != op || len(ci.Common().Args) == 0 {
		return false
	}
	if f.Signature.Recv() == nil || typeShort(f.Signature.Recv().Type()) != "Pointer" {
		return false
	}
	return strings.HasSuffix(D(ci.Common().Args[0]), fieldSuffix)
}

func runC11(c *Ctx) {
	w := c.W
	connectCmd := c.Fn("C11.R2", "centrifuge", "(*Client).connectCmd")
	setDC := func(ci ssa.CallInstruction) bool {
		return ci.Common().IsInvoke() && ci.Common().Method.Name() == "SetDictionaryCompression"
	}
	closeDC := func(ci ssa.CallInstruction) bool {
		return ci.Common().IsInvoke() && ci.Common().Method.Name() == "CloseDictionaryCompression"
	}
	// R2 who-may-call
	n := 0
	for _, f := range w.AllFuncs {
		for _, ci := range CallsIn(f, false, setDC) {
			n++
			c.Check("C11.R2", ci, "SetDictionaryCompression called only by connectCmd", f == connectCmd, "a codec installed elsewhere is not ordered before the connect reply")
		}
	}
	c.Anchor("C11.R2", "SetDictionaryCompression call", n > 0)
	if connectCmd != nil {
		replyWrite := w.calleeIs("Client.writeEncodedCommandReply")
		for _, s := range CallsIn(connectCmd, false, setDC) {
			okOrder := false
			for _, rw := range CallsIn(connectCmd, false, replyWrite) {
				if Reaches(s, rw) && !Reaches(rw, s) {
					okOrder = true
				}
			}
			c.Check("C11.R2", s, "codec installed before the connect reply is written", okOrder, "the connect reply carries the dictionary and must be the one frame that goes out un-encoded")
			// R3: first closed-status test after installation closes the codec
			statusClosed, _ := w.ConstInt("centrifuge", "statusClosed")
			var firstChecks []*ssa.If
			seen := map[*ssa.BasicBlock]bool{}
			var walk func(b *ssa.BasicBlock, start int)
			walk = func(b *ssa.BasicBlock, start int) {
				for i := start; i < len(b.Instrs); i++ {
					if ifi, ok := b.Instrs[i].(*ssa.If); ok {
						if bo, ok := ifi.Cond.(*ssa.BinOp); ok && bo.Op == token.EQL && strings.HasSuffix(D(bo.X), "Client.status") {
							if v, isC := constIntOf(bo.Y); isC && v == statusClosed {
								firstChecks = append(firstChecks, ifi)
								return
							}
						}
					}
				}
				for _, sblk := range b.Succs {
					if !seen[sblk] {
						seen[sblk] = true
						walk(sblk, 0)
					}
				}
			}
			walk(s.Block(), instrIndex(s)+1)
			if c.Anchor("C11.R3", "closed-status test after SetDictionaryCompression in connectCmd", len(firstChecks) > 0) {
				for _, ifi := range firstChecks {
					bad := PathQ{Stop: instrPred(closeDC), Goal: isReturn, EdgeCond: func(cond ssa.Value, outcome bool) bool {
						// the codec was installed through this same successful type assertion
						if ex, ok := cond.(*ssa.Extract); ok && ex.Index == 1 && !outcome {
							if ta, ok := ex.Tuple.(*ssa.TypeAssert); ok && typeShort(ta.AssertedType) == "DictionaryAwareTransport" {
								return false
							}
						}
						return true
					}}.FromBlock(ifi.Block().Succs[0])
					c.Check("C11.R3", ifi, "closed edge after codec installation closes the codec before returning", bad == nil, "close() is one-shot: if it ran before the codec was installed nobody else closes it; the encoder must be closed exactly once")
					held := w.Locks().HeldAt(ifi)
					c.Check("C11.R3", ifi, "that status test is made under c.mu", held.Holds("Client.mu", false), "close() flips the status under c.mu; an unlocked read can miss a concurrent close")
				}
			}
		}
	}
	// R3 close order (also in C05.R1): writer.close ≺ CloseDictionaryCompression ≺ Transport.Close
	closeFn := c.Fn("C11.R3", "centrifuge", "(*Client).close")
	if closeFn != nil {
		// the three calls sit in close() itself or together in a teardown helper it calls
		var wc, dc, tc ssa.Instruction
		for _, g := range w.Deep(closeFn, 1).Funcs {
			var gw, gd, gt ssa.Instruction
			EachInstr(g, func(in ssa.Instruction) {
				ci := asCall(in)
				if ci == nil {
					return
				}
				switch {
				case calleeName(ci.Common()) == "writer.close":
					gw = in
				case closeDC(ci):
					gd = in
				case calleeName(ci.Common()) == "Transport.Close":
					gt = in
				}
			})
			if gw != nil && gd != nil && gt != nil {
				wc, dc, tc = gw, gd, gt
				break
			}
		}
		if c.Anchor("C11.R3", "writer.close / CloseDictionaryCompression / Transport.Close in Client.close", wc != nil && dc != nil && tc != nil) {
			c.CheckAt("C11.R3", "(*centrifuge.Client).close: codec closed after the writer closed and flushed", w.InstrPos(dc), Reaches(wc, dc) && !Reaches(dc, wc), "closing the codec while the writer can still encode overlaps Close with Encode")
			c.CheckAt("C11.R3", "(*centrifuge.Client).close: codec closed before the transport goes away", w.InstrPos(tc), Reaches(dc, tc) && !Reaches(tc, dc), "the codec's last call must happen while the transport still exists")
		}
	}
	// R1 shared: connect write precedes finalize (C10.R2 logic, re-evaluated here)
	if connectCmd != nil {
		enqFn := w.Func("centrifuge", "(*Client).writeEncodedPushData")
		ftConnect := w.frameType("FrameTypePushConnect")
		isConnectWrite := func(ci ssa.CallInstruction) bool {
			if w.calleeIs("Client.writeEncodedCommandReply")(ci) {
				return true
			}
			if enqFn != nil && w.calleeFn(enqFn)(ci) {
				ft, ok := frameTypeArg(ci)
				return ok && ft == ftConnect
			}
			return false
		}
		writes := CallsIn(connectCmd, false, isConnectWrite)
		for _, mu := range mapUpdatesOf(connectCmd, false, "Client", "channels") {
			if !strings.Contains(D(mu.Value), "channelContext") {
				continue
			}
			var bad ssa.Instruction
			for _, wr := range writes {
				if Reaches(mu, wr) {
					bad = wr
				}
			}
			c.Check("C11.R1", mu, "connect reply written before connect-time subscriptions become visible to pushes", bad == nil && len(writes) >= 2, "a push for a connect-time subscription could precede the connect reply")
		}
		// no channel push is written by connectCmd itself before the reply
		ftPub, ftJoin, ftLeave := w.frameType("FrameTypePushPublication"), w.frameType("FrameTypePushJoin"), w.frameType("FrameTypePushLeave")
		if enqFn != nil {
			for _, ci := range CallsIn(connectCmd, true, w.calleeFn(enqFn)) {
				ft, ok := frameTypeArg(ci)
				c.Check("C11.R1", ci, "connectCmd writes no channel push itself", ok && ft != ftPub && ft != ftJoin && ft != ftLeave, "the connect reply is the first server message")
			}
		}
	}
	// R4 websocket transport slots
	type slotRule struct{ op, field, fn, why string }
	for _, r := range []slotRule{
		{"Store", "websocketTransport.compressionPending", "websocketTransport.SetDictionaryCompression", "the pending slot is armed only by SetDictionaryCompression"},
		{"Store", "websocketTransport.compression", "websocketTransport.writeData", "the active codec is installed only by the first write (promotion)"},
	} {
		k := 0
		for _, f := range w.AllFuncs {
			for _, ci := range CallsIn(f, false, func(ci ssa.CallInstruction) bool { return atomicPtrOp(ci, r.op, r.field) }) {
				k++
				c.Check("C11.R4", ci, r.field+"."+r.op+" only in "+r.fn, shortFuncName(f) == r.fn, r.why)
			}
		}
		c.Anchor("C11.R4", r.field+"."+r.op+" site", k > 0)
	}
	wd := c.Fn("C11.R4", "centrifuge", "(*websocketTransport).writeData")
	if wd != nil {
		for _, st := range CallsIn(wd, false, func(ci ssa.CallInstruction) bool { return atomicPtrOp(ci, "Store", "websocketTransport.compression") }) {
			okG := GuardedBy(st, func(g Guard) bool { return g.Pol && strings.Contains(D(g.Cond), "compressionPending") && strings.Contains(D(g.Cond), "Swap(") })
			c.Check("C11.R4", st, "promotion takes the codec out of the pending slot atomically", okG, "two concurrent promotions (or a promotion racing CloseDictionaryCompression) would use/close a codec twice")
			// the frame of this write goes out un-encoded: the writeFrame reached after the store gets the raw parameter
			raw := false
			for _, wf := range CallsIn(wd, false, w.calleeIs("websocketTransport.writeFrame")) {
				if Reaches(st, wf) {
					if p, ok := wf.Common().Args[1].(*ssa.Parameter); ok && p == wd.Params[1] {
						raw = true
					}
				}
			}
			c.Check("C11.R4", st, "the promoting write itself goes out un-encoded", raw, "the connect reply (carrying the dictionary) must not be compressed")
		}
		for _, f := range w.AllFuncs {
			for _, e := range CallsIn(f, false, func(ci ssa.CallInstruction) bool {
				return ci.Common().IsInvoke() && ci.Common().Method.Name() == "Encode" && typeShort(ci.Common().Value.Type()) == "DictionaryConnection"
			}) {
				okG := f == wd && GuardedBy(e, func(g Guard) bool {
					b, ok := g.Cond.(*ssa.BinOp)
					return ok && g.Pol && b.Op == token.NEQ && isNilConst(b.Y) && strings.Contains(D(b.X), "websocketTransport.compression") && strings.Contains(D(b.X), "Load(")
				})
				c.Check("C11.R4", e, "Encode only through the active (non-nil) codec in writeData", okG, "every frame after the connect reply goes through the connection's encoder, none before")
			}
			for _, cl := range CallsIn(f, false, func(ci ssa.CallInstruction) bool {
				return ci.Common().IsInvoke() && ci.Common().Method.Name() == "Close" && typeShort(ci.Common().Value.Type()) == "DictionaryConnection"
			}) {
				name := shortFuncName(f)
				if name == "websocketTransport.CloseDictionaryCompression" {
					okG := GuardedBy(cl, func(g Guard) bool {
						b, ok := g.Cond.(*ssa.BinOp)
						return ok && g.Pol && b.Op == token.NEQ && isNilConst(b.Y) && strings.Contains(D(b.X), "Swap(") && strings.HasSuffix(D(b.X), "nil)")
					})
					c.Check("C11.R4", cl, "codec closed only after being swapped out of its slot", okG, "Swap(nil) makes the close at-most-once even when close() and a failed connect both call it")
				} else {
					// connectCmd closes a codec it never installed (engine named an unknown dictionary)
					okPre := name == "Client.connectCmd" && len(CallsIn(f, false, setDC)) > 0
					c.Check("C11.R4", cl, "other codec Close only for a codec that was never installed", okPre && !reachesFromAny(CallsIn(f, false, setDC), cl), "closing an installed codec outside CloseDictionaryCompression can close it twice")
				}
			}
		}
	}
}

func reachesFromAny(from []ssa.CallInstruction, to ssa.Instruction) bool {
	for _, f := range from {
		if Reaches(f, to) {
			return true
		}
	}
	return false
}

func runC14(c *Ctx) {
	w := c.W
	enq := w.calleeIs("Client.writeEncodedPushData")
	deltaAllowed := w.flagGuard("flagDeltaAllowed", true, ".flags")
	n := 0
	for _, name := range []string{"(*Client).writePublicationUpdatePosition", "(*Client).writePublication"} {
		fn := c.Fn("C14.R1", "centrifuge", name)
		if fn == nil {
			continue
		}
		for _, e := range CallsIn(fn, false, enq) {
			d := D(e.Common().Args[1])
			if !strings.HasSuffix(d, "DeltaData") {
				continue
			}
			n++
			c.Check("C14.R1", e, "delta payload enqueued only when flagDeltaAllowed was read from the context", GuardedBy(e, deltaAllowed), "a delta is only decodable when the client already holds the base: the first publication after subscribe must be the full payload")
			c.Check("C14.R1", e, "delta payload only for delta subscriptions", GuardedBy(e, func(g Guard) bool { return g.Pol && strings.HasSuffix(D(g.Cond), "preparedData.deltaSub") }), "non-delta subscribers cannot decode patches")
		}
		// the !deltaAllowed branch sets the flag under c.mu before the full write
		for _, mu := range mapUpdatesOf(fn, false, "Client", "channels") {
			if !strings.Contains(D(mu.Value), "Client.channels[") {
				continue
			}
			// is it the flag-set write-back? value flags |= flagDeltaAllowed
			if !GuardedBy(mu, func(g Guard) bool { return g.Pol && strings.HasSuffix(D(g.Cond), "preparedData.deltaSub") }) {
				continue
			}
			okSet := false
			EachInstr(fn, func(in ssa.Instruction) {
				st, ok := in.(*ssa.Store)
				if !ok || st.Block() != mu.Block() {
					return
				}
				if b, ok := st.Val.(*ssa.BinOp); ok && b.Op == token.OR {
					fv, _ := w.ConstInt("centrifuge", "flagDeltaAllowed")
					if v, isC := constIntOf(b.Y); isC && v == fv {
						okSet = true
					}
				}
			})
			c.Check("C14.R1", mu, "first full payload arms flagDeltaAllowed under c.mu", okSet && w.Locks().HeldAt(mu).Holds("Client.mu", true), "after the first full payload the following publications may be deltas; without arming, deltas are never used; arming without the full payload breaks reconstruction")
		}
	}
	c.Floor("C14.R1", 6)

	// ---- R2: who may set flagDeltaAllowed
	fv, _ := w.ConstInt("centrifuge", "flagDeltaAllowed")
	allowed := map[string]string{
		"Client.writePublicationUpdatePosition":    "after the first full payload",
		"Client.writePublication":                  "after the first full payload",
		"Client.subscribeCmd":                      "recovered with fossil delta (base delivered in the reply)",
		"Client.buildMapChannelFlags":              "map subscription with negotiated delta (state carries the base)",
		"Client.handleSharedPollSubscribe$closure": "keyed channels manage per-key readiness",
	}
	k := 0
	for _, f := range w.AllFuncs {
		EachInstr(f, func(in ssa.Instruction) {
			b, ok := in.(*ssa.BinOp)
			if !ok || b.Op != token.OR {
				return
			}
			v, isC := constIntOf(b.Y)
			if !isC || v&fv == 0 || fv == 0 {
				return
			}
			// OR-ing a flags word with a constant containing flagDeltaAllowed
			if bt := b.Type().String(); !strings.Contains(bt, "uint16") {
				return
			}
			k++
			name := shortFuncName(f)
			if f.Parent() != nil {
				name = shortFuncName(f.Parent()) + "$closure"
			}
			_, okSite := allowed[name]
			if !okSite {
				// a helper extracted from reviewed sites: every caller (transitively, two levels) is reviewed
				var allReviewed func(fn *ssa.Function, depth int) bool
				allReviewed = func(fn *ssa.Function, depth int) bool {
					callers := w.Callers(fn)
					if len(callers) == 0 || depth > 2 {
						return false
					}
					for _, ci := range callers {
						p := ci.Parent()
						pn := shortFuncName(p)
						if p.Parent() != nil {
							pn = shortFuncName(p.Parent()) + "$closure"
						}
						if _, ok := allowed[pn]; ok {
							continue
						}
						if !allReviewed(p, depth+1) {
							return false
						}
					}
					return true
				}
				okSite = allReviewed(f, 0)
			}
			c.Check("C14.R2", in, "flagDeltaAllowed set only at the enumerated sites", okSite, "a new site arming deltas must establish that the client holds the base; "+name+" is not in the reviewed table and neither are all of its callers")
			if name == "Client.subscribeCmd" {
				g1 := GuardedBy(in, func(g Guard) bool { return g.Pol && loadsField(g.Cond, "SubscribeResult", "Recovered") })
				g2 := GuardedBy(in, func(g Guard) bool { return g.Pol && loadsField(g.Cond, "SubscribeResult", "Delta") })
				c.Check("C14.R2", in, "subscribe arms deltas only when recovered with negotiated delta", g1 && g2, "without recovered publications the client has no base")
			}
			if name == "Client.buildMapChannelFlags" {
				c.Check("C14.R2", in, "map flags arm deltas only when delta is enabled", GuardedBy(in, func(g Guard) bool { return g.Pol && strings.Contains(D(g.Cond), "deltaEnabled") }), "delta must be negotiated")
			}
		})
	}
	// the shared-poll commit uses a constant containing the flag: count it
	c.Anchor("C14.R2", "sites OR-ing flagDeltaAllowed", k >= 2)

	// ---- R3 keyed
	kw := c.Fn("C14.R3", "centrifuge", "(*Client).keyedWritePublication")
	if kw != nil {
		li := w.Locks()
		for _, e := range CallsIn(kw, false, enq) {
			// the data is φ(encodedDelta | encodedFull) selected by useDelta
			data := e.Common().Args[1]
			phi, isPhi := data.(*ssa.Phi)
			c.Check("C14.R3", e, "keyed enqueue selects delta or full payload", isPhi, "expected a delta/full selection")
			if !isPhi {
				continue
			}
			held := li.HeldAt(e)
			c.Check("C14.R3", e, "keyed enqueue under c.mu", held.Holds("Client.mu", true), "the base check and the enqueue must be atomic (held: "+held.String()+")")
			// the edge that selects the delta is guarded by deltaReady and version == keyedDeltaPrevVersion
			okReady, okVer := false, false
			for i, edge := range phi.Edges {
				if !strings.Contains(D(edge), "encodeKeyedPush(") {
					continue
				}
				pred := phi.Block().Preds[i]
				gs := GuardsOfBlock(pred)
				if len(pred.Instrs) > 0 {
					if ifi, ok := pred.Instrs[len(pred.Instrs)-1].(*ssa.If); ok && len(pred.Succs) == 2 {
						gs = append(gs, Guard{ifi, ifi.Cond, pred.Succs[0] == phi.Block()})
					}
				}
				var all []Guard
				for _, g := range gs {
					all = append(all, normGuard(g, 0)...)
				}
				dd := ""
				for _, g := range all {
					dd += g.String() + " ; "
				}
				if strings.Contains(dd, "keyedKeyState.deltaReady") || strings.Contains(dd, ".deltaReady") {
					okReady = true
				}
				if strings.Contains(dd, ".version == ") && strings.Contains(dd, "keyedDeltaPrevVersion") {
					okVer = true
				}
			}
			c.Check("C14.R3", e, "delta selected only when the key's deltaReady is set", okReady, "a delta for a key whose full payload the client never received cannot be applied")
			c.Check("C14.R3", e, "delta selected only when the key's version equals the delta's base version", okVer, "a delta computed against another base version reconstructs garbage")
		}
	}

	// ---- R4 fdelta.Create callers
	isCreate := func(ci ssa.CallInstruction) bool {
		f := ci.Common().StaticCallee()
		return f != nil && f.Name() == "Create" && f.Pkg != nil && strings.Contains(f.Pkg.Pkg.Path(), "fossil-delta")
	}
	m := 0
	for _, f := range w.AllFuncs {
		for _, cr := range CallsIn(f, false, isCreate) {
			m++
			v := cr.Value()
			// a comparison len(patch) >= len(full) exists and the chosen payload is a φ of patch and the full data
			okCmp := false
			EachInstr(f, func(in ssa.Instruction) {
				b, ok := in.(*ssa.BinOp)
				if !ok || (b.Op != token.GEQ && b.Op != token.LSS && b.Op != token.GTR && b.Op != token.LEQ) {
					return
				}
				dx, dy := D(b.X), D(b.Y)
				if strings.HasPrefix(dx, "len(") && strings.HasPrefix(dy, "len(") && (strings.Contains(dx, "fdelta.Create(") || strings.Contains(dy, "fdelta.Create(")) {
					okCmp = true
				}
			})
			c.Check("C14.R4", cr, "patch used only when smaller than the full payload (else full payload, Delta=false)", okCmp && v != nil, "siblings must agree on the fallback: a patch that is not smaller is sent as the full payload with Delta=false")
			// second argument is the payload being delivered, first the previous one
			args := cr.Common().Args
			c.Check("C14.R4", cr, "delta computed from the previous payload to the delivered payload", len(args) == 2 && args[0] != args[1], "base and target must differ")
		}
	}
	c.Floor("C14.R4", 8)

	// ---- R5 ownership
	fresh := map[string]string{
		"pubToProto":                        "allocates a new protocol.Publication",
		"pubFromProto":                      "allocates a new Publication",
		"copyMapPubWithData":                "allocates a copy",
		"SharedPollManager.getCachedData":   "returns freshly built publications (documented at the call site)",
	}
	w.FieldStores("Publication", "Data") // build the index
	cnt := 0
	for key, sts := range w.fieldStoreIdx {
		if !strings.HasPrefix(key, "shared:Publication.") {
			continue
		}
		for _, st := range sts {
			f := st.Parent()
			root := f
			for root.Parent() != nil {
				root = root.Parent()
			}
			rn := shortFuncName(root)
			// the delivery layer: Client / subShard / Hub methods and package-level helpers of the root package
			if root.Pkg == nil || root.Pkg.Pkg.Path() != modPath {
				continue
			}
			if !(strings.HasPrefix(rn, "Client.") || strings.HasPrefix(rn, "subShard.") || strings.HasPrefix(rn, "Hub.") || root.Signature.Recv() == nil) {
				continue
			}
			cnt++
			base := D(st.Addr)
			ok := false
			why := ""
			for fn, reason := range fresh {
				if strings.Contains(base, fn+"(") {
					ok, why = true, reason
				}
			}
			d := "publications read from history, the broker or the subscribe-time buffer are shared between subscribers (one object per broadcast): rewriting one in place corrupts what other subscribers receive"
			if ok {
				d = "fresh value: " + why
			} else {
				d += " (target: " + base + ")"
			}
			c.Check("C14.R5", st, "store into "+strings.TrimPrefix(key, "shared:")+" targets a freshly allocated publication", ok, d)
		}
	}
	c.CheckAt("C14.R5", "delivery layer: stores into non-literal Publication values reviewed", "client*.go hub.go", cnt >= 2, fmt.Sprintf("%d stores examined", cnt))
}

// keyStateLookups: the map lookups a *keyedKeyState value can come from (through extracts, phis and
// local cells).
func keyStateLookups(v ssa.Value, depth int, seen map[ssa.Value]bool) []*ssa.Lookup {
	if v == nil || seen[v] || depth > 10 {
		return nil
	}
	seen[v] = true
	switch x := v.(type) {
	case *ssa.Lookup:
		return []*ssa.Lookup{x}
	case *ssa.Extract:
		return keyStateLookups(x.Tuple, depth+1, seen)
	case *ssa.Phi:
		var out []*ssa.Lookup
		for _, e := range x.Edges {
			out = append(out, keyStateLookups(e, depth+1, seen)...)
		}
		return out
	case *ssa.UnOp:
		if al, ok := x.X.(*ssa.Alloc); ok {
			var out []*ssa.Lookup
			for _, r := range *al.Referrers() {
				if st, ok := r.(*ssa.Store); ok && st.Addr == al {
					out = append(out, keyStateLookups(st.Val, depth+1, seen)...)
				}
			}
			return out
		}
	}
	return nil
}

func runC25(c *Ctx) {
	w := c.W
	li := w.Locks()
	kw := c.Fn("C25.R1", "centrifuge", "(*Client).keyedWritePublication")
	enq := w.calleeIs("Client.writeEncodedPushData")
	if kw != nil {
		for _, e := range CallsIn(kw, false, enq) {
			// monotonicity re-check in the same critical section
			mono := GuardedBy(e, func(g Guard) bool {
				b, ok := g.Cond.(*ssa.BinOp)
				return ok && !g.Pol && b.Op == token.LEQ && strings.Contains(D(b.X), "pubVersion") && strings.HasSuffix(D(b.Y), ".version")
			})
			tracked := GuardedBy(e, func(g Guard) bool { return g.Pol && strings.HasPrefix(D(g.Cond), "ok(") && strings.Contains(D(g.Cond), "trackedKeys[") })
			c.Check("C25.R1", e, "keyed push only for a newer version (re-checked in the enqueue's critical section)", mono, "versions of pushed key updates must strictly increase per connection and key")
			c.Check("C25.R1", e, "keyed push only while the key is tracked", tracked, "no update is pushed after the key is untracked, revoked or the subscription ended")
			// the re-check's lookup is in the same critical section
			var lastLookup ssa.Instruction
			EachInstr(kw, func(in ssa.Instruction) {
				if lk, ok := in.(*ssa.Lookup); ok && strings.Contains(D(lk.X), "trackedKeys") && Precedes(lk, e) {
					lastLookup = lk
				}
			})
			okSec := lastLookup != nil && unlockBetween(kw, lastLookup, e, "Client.mu") == nil && li.HeldAt(e).Holds("Client.mu", true)
			c.Check("C25.R1", e, "re-check and enqueue in one c.mu critical section", okSec, "a concurrent untrack or a newer push between the check and the enqueue breaks monotonicity")
			// stores to version / deltaReady only after a successful enqueue in that section
			for _, fld := range []string{"version", "deltaReady"} {
				for _, st := range storesToField(kw, false, "keyedKeyState", fld) {
					after := Precedes(e, st) || (Reaches(e, st) && !Reaches(st, e))
					okErr := GuardedBy(st, func(g Guard) bool {
						b, ok := g.Cond.(*ssa.BinOp)
						return ok && !g.Pol && b.Op == token.NEQ && isNilConst(b.Y) && strings.Contains(D(b.X), "writeEncodedPushData(")
					})
					c.Check("C25.R1", st, "key "+fld+" recorded only after a successful enqueue, under c.mu", after && okErr && li.HeldAt(st).Holds("Client.mu", true), "recording a version that was not delivered makes the connection skip it forever")
					// the per-key state object that is updated was looked up in this same critical section:
					// untrack / revoke / re-track replace or delete the map entry under c.mu, and only a fresh
					// lookup sees that
					fa := st.Addr.(*ssa.FieldAddr)
					origins := keyStateLookups(fa.X, 0, map[ssa.Value]bool{})
					fresh := len(origins) > 0
					for _, lk := range origins {
						if !Reaches(lk, st) || unlockBetween(kw, lk, st, "Client.mu") != nil {
							fresh = false
						}
					}
					c.Check("C25.R1", st, "key "+fld+" written into the state object looked up in the same critical section", fresh, "a state pointer resolved before c.mu was released may belong to a key that was untracked, revoked or re-tracked meanwhile: the update is pushed after untrack, or advances an orphaned state instead of the live one")
				}
			}
		}
		c.Floor("C25.R1", 5)
	}
	// R3
	for _, name := range []string{"(*Client).cleanupKeyed", "(*Client).handleUntrack", "(*Client).checkTrackExpiration"} {
		fn := w.Func("centrifuge", name)
		if !c.Anchor("C25.R3", name, fn != nil) {
			continue
		}
		k := 0
		for _, f := range WithClosures(fn) {
			for _, ci := range CallsIn(f, false, w.calleeIs("keyedHub.removeSubscriber", "keyedHub.removeSubscribers", "SharedPollManager.removeSubscriber", "keyedManager.removeSubscriber", "keyedManager.removeSubscribers", "keyedManager.removeSubscriberFromChannel")) {
				k++
				c.Check("C25.R3", ci, "keyed registration removed under c.mu", li.HeldAt(ci).Holds("Client.mu", true), "removing the registration outside c.mu races keyedWritePublication's tracked test: an update can be pushed after untrack (held: "+li.HeldAt(ci).String()+")")
			}
		}
		_ = k
	}
	// R4
	for _, name := range []string{"(*SharedPollManager).handlePublishedData", "(*SharedPollManager).applyRefreshResponse"} {
		fn := w.Func("centrifuge", name)
		if fn == nil {
			continue
		}
		flips := 0
		for _, f := range WithClosures(fn) {
			flips += len(CallsIn(f, false, w.calleeIs("keyedHub.flipEpochAndCollectClients", "SharedPollManager.flipEpochAndCollectClients", "keyedChannelState.flipEpochAndCollectClients")))
		}
		if flips == 0 {
			continue
		}
		okU := false
		for _, f := range WithClosures(fn) {
			for _, u := range CallsIn(f, false, w.calleeIs("Client.Unsubscribe")) {
				for _, a := range u.Common().Args {
					if strings.Contains(D(a), "unsubscribeInsufficientState") {
						okU = true
					}
				}
			}
		}
		c.CheckAt("C25.R4", FuncName(fn)+": epoch flip unsubscribes the collected clients", w.Pos(fn.Pos()), okU, "a publisher epoch change must end current subscriptions with insufficient state")
	}
	runC25Versions(c)
}

// runC25Versions (C25.R5): the version recorded in a tracked entry is either strictly newer than the
// entry's current one by an explicit comparison, a reset to zero, or taken from a counter whose
// scope is the channel state (the epoch's lifetime) and which only ever increases. A version derived
// from the entry's own previous version restarts when the entry is deleted and re-created under the
// same epoch, so a connection that kept its last version for the key drops the new pushes.
func runC25Versions(c *Ctx) {
	w := c.W
	n := 0
	for _, f := range w.AllFuncs {
		if !w.inModule(f) || strings.HasSuffix(w.Pos(f.Pos()), "_test.go") {
			continue
		}
		for _, st := range storesToField(f, false, "sharedPollTrackedEntry", "version") {
			n++
			if v, ok := constIntOf(st.Val); ok && v == 0 {
				c.Check("C25.R5", st, "tracked entry version reset to zero", true, "")
				continue
			}
			entryObj := st.Addr.(*ssa.FieldAddr).X
			fromOwn := derivesFromField(st.Val, "sharedPollTrackedEntry", "version", 0, map[ssa.Value]bool{})
			newer := Guarded(st, func(g Guard) bool {
				b, ok := g.Cond.(*ssa.BinOp)
				if !ok {
					return false
				}
				x, y := D(b.X), D(b.Y)
				ownV := func(v ssa.Value) bool {
					u, ok := v.(*ssa.UnOp)
					if !ok || u.Op != token.MUL {
						return false
					}
					fa, ok := u.X.(*ssa.FieldAddr)
					return ok && fieldAddrIs(fa, "sharedPollTrackedEntry", "version") && D(fa.X) == D(entryObj)
				}
				val := D(st.Val)
				switch {
				case b.Op == token.LEQ && x == val && ownV(b.Y) && !g.Pol, // !(v <= entry.version)
					b.Op == token.GTR && x == val && ownV(b.Y) && g.Pol, // v > entry.version
					b.Op == token.LSS && ownV(b.X) && y == val && g.Pol, // entry.version < v
					b.Op == token.GEQ && ownV(b.X) && y == val && !g.Pol: // !(entry.version >= v)
					return true
				}
				return false
			})
			counter := false
			if _, _, ok := counterSource(st.Val); ok {
				counter = true
			}
			if u, ok := st.Val.(*ssa.UnOp); ok && u.Op == token.MUL {
				// a load of a channel-state field (the counter just incremented)
				if fa, ok := u.X.(*ssa.FieldAddr); ok {
					if typ, _, ok := FieldOf(fa); ok && typ == "sharedPollChannelState" {
						counter = true
					}
				}
			}
			_ = entryObj
			ok := !fromOwn && (newer || counter)
			detail := "value " + D(st.Val)
			if fromOwn {
				detail += " is computed from the entry's own version: it restarts when the entry is deleted and re-created within one channel epoch, and connections that kept their last version for the key drop every push until the counter catches up"
			} else if !newer && !counter {
				detail += " is neither compared as strictly newer than the entry's version nor taken from the channel-scope counter; guards: " + strings.Join(GuardStrings(st), " && ")
			}
			c.Check("C25.R5", st, "tracked entry version only moves to a strictly newer value of channel-epoch scope", ok, detail)
		}
	}
	c.Anchor("C25.R5", "stores to sharedPollTrackedEntry.version", n >= 3)
	// the channel-scope counter only increases
	k := 0
	for _, f := range w.AllFuncs {
		if !w.inModule(f) || strings.HasSuffix(w.Pos(f.Pos()), "_test.go") {
			continue
		}
		for _, st := range storesToField(f, false, "sharedPollChannelState", "versionCounter") {
			k++
			_, _, ok := counterSource(st.Val)
			c.Check("C25.R5", st, "synthetic version counter only increases", ok, "value "+D(st.Val)+": a reset or a decrease hands out a version some connection already holds")
		}
	}
	c.Anchor("C25.R5", "synthetic version counter increments (versionless mode)", k >= 1)
}

// counterSource: v is load(T.f) + positive constant for a struct field of sharedPollChannelState.
func counterSource(v ssa.Value) (string, string, bool) {
	b, ok := v.(*ssa.BinOp)
	if !ok || b.Op != token.ADD {
		return "", "", false
	}
	k, isC := constIntOf(b.Y)
	if !isC || k <= 0 {
		return "", "", false
	}
	u, ok := b.X.(*ssa.UnOp)
	if !ok || u.Op != token.MUL {
		return "", "", false
	}
	fa, ok := u.X.(*ssa.FieldAddr)
	if !ok {
		return "", "", false
	}
	typ, fld, ok := FieldOf(fa)
	if !ok || typ != "sharedPollChannelState" {
		return "", "", false
	}
	return typ, fld, true
}

// derivesFromField: v is computed (arithmetic, phis, conversions) from a load of typ.field.
func derivesFromField(v ssa.Value, typ, field string, depth int, seen map[ssa.Value]bool) bool {
	if v == nil || seen[v] || depth > 10 {
		return false
	}
	seen[v] = true
	switch x := v.(type) {
	case *ssa.UnOp:
		if fa, ok := x.X.(*ssa.FieldAddr); ok && x.Op == token.MUL {
			return fieldAddrIs(fa, typ, field)
		}
		return derivesFromField(x.X, typ, field, depth+1, seen)
	case *ssa.Field:
		t, f, ok := FieldOf(x)
		return ok && t == typ && f == field
	case *ssa.BinOp:
		return derivesFromField(x.X, typ, field, depth+1, seen) || derivesFromField(x.Y, typ, field, depth+1, seen)
	case *ssa.Phi:
		for _, e := range x.Edges {
			if derivesFromField(e, typ, field, depth+1, seen) {
				return true
			}
		}
	case *ssa.Convert:
		return derivesFromField(x.X, typ, field, depth+1, seen)
	case *ssa.ChangeType:
		return derivesFromField(x.X, typ, field, depth+1, seen)
	}
	return false
}
