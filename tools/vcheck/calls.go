package main

import (
	"go/constant"
	"go/token"
	"go/types"
	"strings"

	"golang.org/x/tools/go/ssa"
)

// CallPred matches call-like instructions (Call, Go, Defer).
type CallPred func(ci ssa.CallInstruction) bool

// asCall returns the CallInstruction (Call/Go/Defer) or nil.
func asCall(in ssa.Instruction) ssa.CallInstruction {
	ci, _ := in.(ssa.CallInstruction)
	return ci
}

// calleeIs: static callee name equals one of names ("Type.method" or "func" or "pkg.func" for
// non-module packages), resolved through closures bound to single-store locals.
func (w *World) calleeIs(names ...string) CallPred {
	set := map[string]bool{}
	for _, n := range names {
		set[n] = true
	}
	return func(ci ssa.CallInstruction) bool {
		c := ci.Common()
		if c.IsInvoke() {
			return set[typeShort(c.Value.Type())+"."+c.Method.Name()]
		}
		if f := w.Callee(ci); f != nil {
			return set[shortFuncName(f)]
		}
		return false
	}
}

// calleeFn: static callee is exactly f.
func (w *World) calleeFn(fs ...*ssa.Function) CallPred {
	return func(ci ssa.CallInstruction) bool {
		cal := w.Callee(ci)
		if cal == nil {
			return false
		}
		for _, f := range fs {
			if cal == f {
				return true
			}
		}
		return false
	}
}

// fieldFuncCall: a dynamic call whose function value is loaded from struct field Type.field
// (e.g. c.eventHub.aliveHandler(...)).
func fieldFuncCall(typ, field string) CallPred {
	return func(ci ssa.CallInstruction) bool {
		c := ci.Common()
		if c.IsInvoke() || c.StaticCallee() != nil {
			return false
		}
		return loadsField(c.Value, typ, field)
	}
}

// loadsField: v is (a load of) field typ.field.
func loadsField(v ssa.Value, typ, field string) bool {
	return loadsFieldSeen(v, typ, field, map[ssa.Value]bool{})
}

func loadsFieldSeen(v ssa.Value, typ, field string, seen map[ssa.Value]bool) bool {
	if seen[v] {
		return false
	}
	seen[v] = true
	switch x := v.(type) {
	case *ssa.UnOp:
		if x.Op == token.MUL {
			if fa, ok := x.X.(*ssa.FieldAddr); ok {
				return fieldAddrIs(fa, typ, field)
			}
			if s := singleStore(x.X); s != nil {
				return loadsFieldSeen(s, typ, field, seen)
			}
		}
	case *ssa.Field:
		st, ok := x.X.Type().Underlying().(*types.Struct)
		if ok && st.Field(x.Field).Name() == field && (typ == "" || typeShort(x.X.Type()) == typ) {
			return true
		}
	case *ssa.ChangeType:
		return loadsFieldSeen(x.X, typ, field, seen)
	case *ssa.Phi:
		for _, e := range x.Edges {
			if loadsFieldSeen(e, typ, field, seen) {
				return true
			}
		}
	}
	return false
}

func fieldAddrIs(fa *ssa.FieldAddr, typ, field string) bool {
	pt, ok := fa.X.Type().Underlying().(*types.Pointer)
	if !ok {
		return false
	}
	st, ok := pt.Elem().Underlying().(*types.Struct)
	if !ok {
		return false
	}
	if st.Field(fa.Field).Name() != field {
		return false
	}
	return typ == "" || typeShort(pt.Elem()) == typ
}

// FieldOf returns (typeName, fieldName) if v is the address of or value of a struct field.
func FieldOf(v ssa.Value) (string, string, bool) {
	switch x := v.(type) {
	case *ssa.FieldAddr:
		pt := x.X.Type().Underlying().(*types.Pointer)
		st := pt.Elem().Underlying().(*types.Struct)
		return typeShort(pt.Elem()), st.Field(x.Field).Name(), true
	case *ssa.Field:
		st := x.X.Type().Underlying().(*types.Struct)
		return typeShort(x.X.Type()), st.Field(x.Field).Name(), true
	}
	return "", "", false
}

// CallsIn lists call instructions in fn (optionally including nested closures) matching pred.
func CallsIn(fn *ssa.Function, nested bool, pred CallPred) []ssa.CallInstruction {
	var out []ssa.CallInstruction
	fns := []*ssa.Function{fn}
	if nested {
		fns = WithClosures(fn)
	}
	for _, f := range fns {
		EachInstr(f, func(in ssa.Instruction) {
			if ci := asCall(in); ci != nil && pred(ci) {
				out = append(out, ci)
			}
		})
	}
	return out
}

// instrPred lifts a CallPred to an instruction predicate.
func instrPred(p CallPred) func(ssa.Instruction) bool {
	return func(in ssa.Instruction) bool {
		ci := asCall(in)
		return ci != nil && p(ci)
	}
}

func orPred(ps ...CallPred) CallPred {
	return func(ci ssa.CallInstruction) bool {
		for _, p := range ps {
			if p(ci) {
				return true
			}
		}
		return false
	}
}

// ---- summaries -------------------------------------------------------------------------------

// MayReach: fn (or a closure it defines and calls / passes) may call something matching pred,
// through static module callees up to depth.
func (w *World) MayReach(fn *ssa.Function, pred CallPred, depth int) bool {
	return w.mayReach(fn, pred, depth, map[*ssa.Function]bool{})
}

func (w *World) mayReach(fn *ssa.Function, pred CallPred, depth int, seen map[*ssa.Function]bool) bool {
	if fn == nil || seen[fn] || depth < 0 {
		return false
	}
	seen[fn] = true
	found := false
	EachInstr(fn, func(in ssa.Instruction) {
		if found {
			return
		}
		if ci := asCall(in); ci != nil {
			if pred(ci) {
				found = true
				return
			}
			if cal := w.Callee(ci); cal != nil && w.inModule(cal) {
				if w.mayReach(cal, pred, depth-1, seen) {
					found = true
					return
				}
			}
			// closures passed as arguments are assumed to be callable by the callee
			for _, a := range ci.Common().Args {
				if mc, ok := a.(*ssa.MakeClosure); ok {
					if w.mayReach(mc.Fn.(*ssa.Function), pred, depth-1, seen) {
						found = true
						return
					}
				}
			}
		}
	})
	return found
}

func (w *World) inModule(f *ssa.Function) bool {
	if f == nil {
		return false
	}
	p := f.Pkg
	if p == nil && f.Parent() != nil {
		return w.inModule(f.Parent())
	}
	if p == nil {
		// instantiated generic or synthetic: use origin
		if o := f.Origin(); o != nil && o != f {
			return w.inModule(o)
		}
		return false
	}
	path := p.Pkg.Path()
	return path == modPath || strings.HasPrefix(path, modPath+"/")
}

// MustReach: every path from fn's entry to a return passes a call matching pred (directly or
// through a static callee that MustReach), to depth.
func (w *World) MustReach(fn *ssa.Function, pred CallPred, depth int) bool {
	if fn == nil || len(fn.Blocks) == 0 || depth < 0 {
		return false
	}
	stop := w.wrapMust(pred, depth-1)
	return PathFromEntryAvoiding(fn, stop, isReturn) == nil
}

// wrapMust: instruction predicate "is a call matching pred or a call to a module function that
// must reach pred" (must-summary to the given depth). A callee whose bool parameters receive
// constants at the call site is specialised on them (rollback(true)).
func (w *World) wrapMust(pred CallPred, depth int) func(ssa.Instruction) bool {
	memo := map[*ssa.Function]int{} // 0 unknown, 1 yes, 2 no (unspecialised)
	var must func(f *ssa.Function, d int, edge func(b *ssa.BasicBlock, i int) bool) bool
	var stop func(d int) func(ssa.Instruction) bool
	stop = func(d int) func(ssa.Instruction) bool {
		return func(in ssa.Instruction) bool {
			ci := asCall(in)
			if ci == nil {
				return false
			}
			if _, isGo := in.(*ssa.Go); isGo {
				return false
			}
			if pred(ci) {
				return true
			}
			if d <= 0 {
				return false
			}
			cal := w.Callee(ci)
			if cal == nil || !w.inModule(cal) || len(cal.Blocks) == 0 {
				return false
			}
			// specialise on constant bool arguments
			var edges []func(b *ssa.BasicBlock, i int) bool
			args := ci.Common().Args
			params := cal.Params
			if len(args) == len(params) {
				for i, a := range args {
					if c, ok := a.(*ssa.Const); ok && c.Value != nil && c.Value.Kind() == constant.Bool {
						edges = append(edges, assumeBool(params[i], constant.BoolVal(c.Value)))
					}
				}
			}
			if len(edges) > 0 {
				return must(cal, d, andEdges(edges...))
			}
			return must(cal, d, nil)
		}
	}
	must = func(f *ssa.Function, d int, edge func(b *ssa.BasicBlock, i int) bool) bool {
		if edge == nil {
			if m := memo[f]; m != 0 {
				return m == 1
			}
			memo[f] = 2 // recursion: assume no
		}
		q := PathQ{Stop: stop(d - 1), Goal: isReturn, Edge: edge}
		ok := q.FromEntry(f) == nil
		if ok && edge == nil {
			memo[f] = 1
		}
		return ok
	}
	return stop(depth)
}

// wrapMay: instruction predicate "is a call matching pred or a call to a module function that may
// reach pred".
func (w *World) wrapMay(pred CallPred, depth int) func(ssa.Instruction) bool {
	return func(in ssa.Instruction) bool {
		ci := asCall(in)
		if ci == nil {
			return false
		}
		if pred(ci) {
			return true
		}
		cal := w.Callee(ci)
		if cal != nil && w.inModule(cal) && w.MayReach(cal, pred, depth-1) {
			return true
		}
		for _, a := range ci.Common().Args {
			if mc, ok := a.(*ssa.MakeClosure); ok {
				if w.MayReach(mc.Fn.(*ssa.Function), pred, depth-1) {
					return true
				}
			}
		}
		return false
	}
}

// ---- stores ----------------------------------------------------------------------------------

// FieldStores lists every Store whose address is field typ.field (anywhere in the module).
func (w *World) FieldStores(typ, field string) []*ssa.Store {
	if w.fieldStoreIdx == nil {
		w.fieldStoreIdx = map[string][]*ssa.Store{}
		for _, f := range w.AllFuncs {
			EachInstr(f, func(in ssa.Instruction) {
				if st, ok := in.(*ssa.Store); ok {
					if fa, ok := st.Addr.(*ssa.FieldAddr); ok {
						if t, fl, ok := FieldOf(fa); ok {
							w.fieldStoreIdx[t+"."+fl] = append(w.fieldStoreIdx[t+"."+fl], st)
							w.fieldStoreIdx["."+fl] = append(w.fieldStoreIdx["."+fl], st)
							if _, fresh := fa.X.(*ssa.Alloc); !fresh {
								w.fieldStoreIdx["shared:"+t+"."+fl] = append(w.fieldStoreIdx["shared:"+t+"."+fl], st)
							}
						}
					}
				}
			})
		}
	}
	return w.fieldStoreIdx[typ+"."+field]
}

// currentWorld is the world being analysed (one at a time); used by purity tests in the path walker.
var currentWorld *World

// FieldAccess describes one access of a struct field.
type FieldAccess struct {
	In    ssa.Instruction
	Write bool
	Kind  string // load, store, mapupdate, delete, range, lookup, len, addr
}

// FieldAccesses lists the accesses of field typ.field in function fn: loads, stores, and for
// map/slice-typed fields the MapUpdate / delete / Lookup / range through a load of the field.
func FieldAccesses(fn *ssa.Function, typ, field string) []FieldAccess {
	var out []FieldAccess
	EachInstr(fn, func(in ssa.Instruction) {
		fa, ok := in.(*ssa.FieldAddr)
		if !ok || !fieldAddrIs(fa, typ, field) {
			return
		}
		refs := fa.Referrers()
		if refs == nil {
			return
		}
		for _, r := range *refs {
			switch x := r.(type) {
			case *ssa.Store:
				if x.Addr == fa {
					out = append(out, FieldAccess{x, true, "store"})
				}
			case *ssa.UnOp:
				if x.Op != token.MUL {
					continue
				}
				// classify uses of the loaded value
				used := false
				if lr := x.Referrers(); lr != nil {
					for _, u := range *lr {
						switch y := u.(type) {
						case *ssa.MapUpdate:
							if y.Map == x {
								out = append(out, FieldAccess{y, true, "mapupdate"})
								used = true
							}
						case *ssa.Call:
							if b, ok := y.Call.Value.(*ssa.Builtin); ok && b.Name() == "delete" && len(y.Call.Args) > 0 && y.Call.Args[0] == x {
								out = append(out, FieldAccess{y, true, "delete"})
								used = true
							} else if ok && b.Name() == "clear" {
								out = append(out, FieldAccess{y, true, "clear"})
								used = true
							}
						}
					}
				}
				if !used {
					out = append(out, FieldAccess{x, false, "load"})
				} else {
					out = append(out, FieldAccess{x, false, "load"})
				}
			default:
				// address escapes (passed to a call, e.g. atomic or method on the field)
				out = append(out, FieldAccess{r, false, "addr"})
			}
		}
	})
	return out
}
