package main

import (
	"fmt"
	"go/token"
	"go/types"
	"strings"

	"golang.org/x/tools/go/ssa"
)

func init() {
	register(&PropMeta{
		ID:    "C04",
		Level: "other",
		Explanation: "(R1) every mutation of Client.channels / Client.mapSubscribing holds c.mu for writing and every read holds it at least for reading (constructor exempt); " +
			"(R2) every access of subShard.subs/numSubs/mapChannels/chanIDs holds the shard lock (write lock for mutation); " +
			"(R3) the generation handed to Node.removeSubscription / Hub.removeSub / subShard.removeSub always originates from a subGen field or the generation counter, never from a constant (anySubGen); " +
			"(R4) every delete of a Client.channels entry and every install of a context built elsewhere is dominated by a generation-equality test on the entry, and every write-back of a loaded entry is in the critical section of its load; " +
			"(R5) after a channel entry is deleted, every path to the function's exit passes the hub removal (unsubscribe, onSubscribeErrorGen, commitSubscription) or can reach it (connect finalize loop); " +
			"(R6) in subShard.removeSub a generation mismatch reaches no map mutation, and in addSub/removeSub the subscription counter moves only next to the corresponding map mutation; " +
			"(R7) reservations (contexts carrying a subscribingCh) are stored only after an absent-entry test in the same critical section.",
		NotDecided: "that the protocol built from these pieces converges for every interleaving; aliasing between different Client instances (locks are named by type).",
		Rules: map[string]string{
			"C04.R1": "K3 lockset: Client.channels / Client.mapSubscribing accesses under Client.mu",
			"C04.R2": "K3 lockset: subShard routing tables under subShard.mu",
			"C04.R3": "value flow: generation argument of hub removal",
			"C04.R4": "K2 guard + K3 read-modify-write atomicity on Client.channels",
			"C04.R5": "K1 must-pass-through: channel delete … hub removal",
			"C04.R6": "K2: generation check and counter coupling in subShard",
			"C04.R7": "K2+K3: reservation only when absent",
		},
		Run: runC04,
	})
}

// originLookup walks a value back to the map Lookup it was loaded from (through Extract and
// single-store locals).
func originLookup(v ssa.Value, depth int) *ssa.Lookup {
	if depth > 6 || v == nil {
		return nil
	}
	switch x := v.(type) {
	case *ssa.Lookup:
		return x
	case *ssa.Extract:
		return originLookup(x.Tuple, depth+1)
	case *ssa.UnOp:
		if x.Op == token.MUL {
			if s := singleStore(x.X); s != nil {
				return originLookup(s, depth+1)
			}
		}
	case *ssa.Phi:
		for _, e := range x.Edges {
			if l := originLookup(e, depth+1); l != nil {
				return l
			}
		}
	}
	return nil
}

// unlockBetween: some Unlock/RUnlock of lock lies on a path between a and b.
func unlockBetween(fn *ssa.Function, a, b ssa.Instruction, lock string) ssa.Instruction {
	var found ssa.Instruction
	EachInstr(fn, func(u ssa.Instruction) {
		if found != nil {
			return
		}
		if ci := asCall(u); ci != nil {
			if _, isDefer := u.(*ssa.Defer); isDefer {
				return
			}
			if k, l := lockEvent(ci); (k == "Unlock" || k == "RUnlock") && strings.HasSuffix(l, lock) {
				if Reaches(a, u) && Reaches(u, b) {
					found = u
				}
			}
		}
	})
	return found
}

// paramOrigin: v is (a load of the cell holding) a by-value struct parameter of the enclosing function.
func paramOrigin(v ssa.Value, depth int) *ssa.Parameter {
	if v == nil || depth > 5 {
		return nil
	}
	switch x := v.(type) {
	case *ssa.Parameter:
		if _, ok := x.Type().Underlying().(*types.Struct); ok {
			return x
		}
	case *ssa.UnOp:
		if al, ok := x.X.(*ssa.Alloc); ok {
			// the parameter's spill cell: first store is the parameter itself (later field stores modify the copy)
			for _, r := range *al.Referrers() {
				if st, ok := r.(*ssa.Store); ok && st.Addr == al {
					if p := paramOrigin(st.Val, depth+1); p != nil {
						return p
					}
				}
			}
		}
	}
	return nil
}

// isGenEq: guard establishes equality of two generation values (a `.subGen` load against something).
func isGenEq(g Guard) bool {
	b, ok := g.Cond.(*ssa.BinOp)
	if !ok {
		return false
	}
	dx, dy := D(b.X), D(b.Y)
	if !strings.HasSuffix(dx, ".subGen") && !strings.HasSuffix(dy, ".subGen") {
		return false
	}
	return (b.Op == token.EQL && g.Pol) || (b.Op == token.NEQ && !g.Pol)
}

// genOrigin classifies where a generation value comes from.
func (w *World) genOrigin(v ssa.Value, depth int) string {
	if depth > 12 {
		return "unknown(depth)"
	}
	if cv, ok := constIntOf(v); ok {
		return fmt.Sprintf("const:%d", cv)
	}
	switch x := v.(type) {
	case *ssa.Parameter:
		fn := x.Parent()
		idx := -1
		for i, p := range fn.Params {
			if p == x {
				idx = i
			}
		}
		callers := w.Callers(fn)
		if len(callers) == 0 || idx < 0 {
			return "param(no module callers)"
		}
		worst := "field:subGen"
		refusesZero := paramRefusesZero(x)
		for _, ci := range callers {
			args := ci.Common().Args
			if idx >= len(args) {
				continue
			}
			o := w.genOrigin(args[idx], depth+1)
			if refusesZero && strings.HasPrefix(o, "const:0") {
				// the zero generation is refused at run time by this function
				rest := strings.TrimPrefix(strings.TrimPrefix(o, "const:0"), "|")
				if rest == "" || rest == "field:subGen" || rest == "counter" {
					continue
				}
				o = rest
			}
			if strings.HasPrefix(o, "const") || strings.HasPrefix(o, "unknown") {
				return o + " via " + FuncName(ci.Parent())
			}
		}
		return worst
	case *ssa.FreeVar:
		if s := singleStore(x); s != nil {
			return w.genOrigin(s, depth+1)
		}
		return "unknown(freevar)"
	case *ssa.Alloc:
		// cell: every stored value (in the function and its closures) must be a generation
		res := ""
		var visit func(v ssa.Value)
		visit = func(v ssa.Value) {
			if v.Referrers() == nil {
				return
			}
			for _, r := range *v.Referrers() {
				switch y := r.(type) {
				case *ssa.Store:
					if y.Addr == v {
						o := w.genOrigin(y.Val, depth+1)
						if strings.HasPrefix(o, "const:0") && res != "" {
							continue // zero initialisation overwritten later
						}
						if res == "" || strings.HasPrefix(o, "const") || strings.HasPrefix(o, "unknown") || strings.HasPrefix(res, "const:0") {
							res = o
						}
					}
				case *ssa.MakeClosure:
					f := y.Fn.(*ssa.Function)
					for i, b := range y.Bindings {
						if b == v {
							visit(f.FreeVars[i])
						}
					}
				}
			}
		}
		visit(x)
		if res == "" {
			return "unknown(cell without stores)"
		}
		return res
	case *ssa.UnOp:
		if x.Op == token.MUL {
			if fa, ok := x.X.(*ssa.FieldAddr); ok {
				if _, f, _ := FieldOf(fa); f == "subGen" {
					return "field:subGen"
				}
			}
			if s := singleStore(x.X); s != nil {
				return w.genOrigin(s, depth+1)
			}
			if fv, ok := x.X.(*ssa.FreeVar); ok {
				// resolve to the bound cell in the parent
				fn := fv.Parent()
				for i, f := range fn.FreeVars {
					if f != fv || fn.Parent() == nil {
						continue
					}
					var bound ssa.Value
					EachInstr(fn.Parent(), func(in ssa.Instruction) {
						if mc, ok := in.(*ssa.MakeClosure); ok && mc.Fn == fn {
							bound = mc.Bindings[i]
						}
					})
					if bound != nil {
						return w.genOrigin(bound, depth+1)
					}
				}
			}
			// multi-store local: every stored value must be fine
			if al, ok := x.X.(*ssa.Alloc); ok {
				return w.genOrigin(al, depth+1)
			}
			if al, ok := x.X.(*ssa.Alloc); ok && false {
				res := ""
				for _, r := range *al.Referrers() {
					if st, ok := r.(*ssa.Store); ok && st.Addr == al {
						o := w.genOrigin(st.Val, depth+1)
						if res == "" || strings.HasPrefix(o, "const") || strings.HasPrefix(o, "unknown") {
							res = o
						}
					}
				}
				if res != "" {
					return res
				}
			}
		}
	case *ssa.Field:
		if _, f, _ := FieldOf(x); f == "subGen" {
			return "field:subGen"
		}
	case *ssa.Call:
		if cal := x.Call.StaticCallee(); cal != nil && w.inModule(cal) && cal.Signature.Results().Len() == 1 {
			return w.genOriginResult(cal, 0, depth+1)
		}
		if strings.Contains(D(x), "subGenCounter.Add(") || strings.Contains(D(x), "subGenCounter).Add(") {
			return "counter"
		}
		if f := x.Call.StaticCallee(); f != nil && f.Name() == "Add" && strings.Contains(D(x.Call.Args[0]), "subGenCounter") {
			return "counter"
		}
	case *ssa.Phi:
		res := ""
		for _, e := range x.Edges {
			o := w.genOrigin(e, depth+1)
			if strings.HasPrefix(o, "const:0") {
				// zero initial value of `var g uint64` overwritten on all used paths is common; keep looking
				if res == "" {
					res = o
				}
				continue
			}
			if strings.HasPrefix(o, "const") || strings.HasPrefix(o, "unknown") {
				return o
			}
			res = o
		}
		return res
	case *ssa.Lookup:
		// map of generations: all stored values must be generations
		m := x.X
		if p, ok := m.(*ssa.Parameter); ok {
			fn := p.Parent()
			idx := -1
			for i, pp := range fn.Params {
				if pp == p {
					idx = i
				}
			}
			for _, ci := range w.Callers(fn) {
				if idx >= 0 && idx < len(ci.Common().Args) {
					m = ci.Common().Args[idx]
				}
			}
		}
		if mm, ok := m.(*ssa.MakeMap); ok {
			res := "unknown(empty map)"
			for _, r := range *mm.Referrers() {
				if mu, ok := r.(*ssa.MapUpdate); ok && mu.Map == mm {
					res = w.genOrigin(mu.Value, depth+1)
					if strings.HasPrefix(res, "const") || strings.HasPrefix(res, "unknown") {
						return res
					}
				}
			}
			return res
		}
	case *ssa.Extract:
		if call, ok := x.Tuple.(*ssa.Call); ok {
			if cal := call.Call.StaticCallee(); cal != nil && w.inModule(cal) {
				return w.genOriginResult(cal, x.Index, depth+1)
			}
		}
		return w.genOrigin(x.Tuple, depth+1)
	}
	return "unknown(" + D(v) + ")"
}

// genOriginResult: origin of the idx-th result of a module function over all its returns.
func (w *World) genOriginResult(f *ssa.Function, idx int, depth int) string {
	res := ""
	EachInstr(f, func(in ssa.Instruction) {
		r, ok := in.(*ssa.Return)
		if !ok || idx >= len(r.Results) {
			return
		}
		o := w.genOrigin(r.Results[idx], depth+1)
		if strings.HasPrefix(o, "const:0") && res != "" && !strings.HasPrefix(res, "const") {
			// failing returns carry a zero generation next to their error; remember it
			res = "const:0|" + res
			return
		}
		if res == "" || strings.HasPrefix(o, "unknown") {
			res = o
		} else if strings.HasPrefix(res, "const:0") && !strings.HasPrefix(o, "const") {
			res = "const:0|" + o
		}
	})
	if res == "" {
		return "unknown(no returns)"
	}
	return res
}

func runC04(c *Ctx) {
	w := c.W
	li := w.Locks()

	// ---- R1 / R2: locksets
	type prot struct {
		typ, field, lock string
		ctor             map[string]bool
		rule             string
	}
	prots := []prot{
		{"Client", "channels", "Client.mu", map[string]bool{"NewClient": true}, "C04.R1"},
		{"Client", "mapSubscribing", "Client.mu", map[string]bool{"NewClient": true}, "C04.R1"},
		{"subShard", "subs", "subShard.mu", map[string]bool{"newSubShard": true}, "C04.R2"},
		{"subShard", "numSubs", "subShard.mu", map[string]bool{"newSubShard": true}, "C04.R2"},
		{"subShard", "mapChannels", "subShard.mu", map[string]bool{"newSubShard": true}, "C04.R2"},
		{"subShard", "chanIDs", "subShard.mu", map[string]bool{"newSubShard": true}, "C04.R2"},
	}
	counts := map[string]int{}
	for _, p := range prots {
		for _, fn := range w.AllFuncs {
			if p.ctor[fn.Name()] {
				continue
			}
			for _, a := range FieldAccesses(fn, p.typ, p.field) {
				if a.Kind == "load" {
					// loads feeding only a mutation are accounted at the mutation
					onlyMut := true
					if v, ok := a.In.(ssa.Value); ok && v.Referrers() != nil {
						for _, r := range *v.Referrers() {
							switch y := r.(type) {
							case *ssa.MapUpdate:
							case *ssa.Call:
								if b, ok := y.Call.Value.(*ssa.Builtin); !ok || (b.Name() != "delete" && b.Name() != "clear") {
									onlyMut = false
								}
							case *ssa.DebugRef:
							default:
								onlyMut = false
							}
						}
					}
					if onlyMut {
						continue
					}
				}
				held := li.HeldAt(a.In)
				ok := held.Holds(p.lock, a.Write)
				counts[p.rule]++
				kind := "read"
				if a.Write {
					kind = "mutation (" + a.Kind + ")"
				}
				d := fmt.Sprintf("%s.%s is shared routing state; an unlocked %s races with subscribe/unsubscribe/broadcast", p.typ, p.field, kind)
				if !ok {
					d += fmt.Sprintf(" (locks held: %s; entry lockset of %s: %s)", held, FuncName(fn), li.Entry(fn))
				}
				c.Check(p.rule, a.In, fmt.Sprintf("%s of %s.%s under %s", kind, p.typ, p.field, p.lock), ok, d)
			}
		}
	}
	c.Floor("C04.R1", 60)
	c.Floor("C04.R2", 25)

	// ---- R3: generation argument
	for _, name := range []string{"(*Node).removeSubscription", "(*Hub).removeSub", "(*subShard).removeSub"} {
		fn := c.Fn("C04.R3", "centrifuge", name)
		if fn == nil {
			continue
		}
		gi := -1
		for i, p := range fn.Params {
			if p.Name() == "subGen" {
				gi = i
			}
		}
		if !c.Anchor("C04.R3", "generation parameter of "+name, gi >= 0) {
			continue
		}
		for _, ci := range w.Callers(fn) {
			args := ci.Common().Args
			if gi >= len(args) {
				continue
			}
			o := w.genOrigin(args[gi], 0)
			if p, isParam := args[gi].(*ssa.Parameter); isParam && strings.HasPrefix(o, "const:0") {
				// the function refuses the zero generation before using it
				if Guarded(ci, func(g Guard) bool {
					b, ok := g.Cond.(*ssa.BinOp)
					if !ok {
						return false
					}
					z, isZ := constIntOf(b.Y)
					return isZ && z == 0 && b.X == ssa.Value(p) && ((b.Op == token.EQL && !g.Pol) || (b.Op == token.NEQ && g.Pol))
				}) {
					o = "field:subGen"
				}
			}
			ok := o == "field:subGen" || o == "counter"
			c.Check("C04.R3", ci, "generation passed to "+fn.Name(), ok, "the hub entry must be removed by the generation the caller owns; a constant/unknown generation removes whatever a concurrent resubscribe registered (origin: "+o+")")
		}
	}
	c.Floor("C04.R3", 10)

	// ---- R4 / R5 / R7 over Client.channels mutations
	removeSubP := w.calleeIs("Node.removeSubscription")
	nDel := 0
	for _, fn := range w.AllFuncs {
		if fn.Name() == "NewClient" {
			continue
		}
		for _, del := range mapDeletesOf(fn, false, "Client", "channels") {
			nDel++
			okG := Guarded(del, isGenEq)
			d := "deleting the entry without matching its generation can remove a fresh resubscribe's reservation"
			if !okG {
				d += fmt.Sprintf(" (guards: %v)", GuardStrings(del))
			}
			c.Check("C04.R4", del, "delete(Client.channels) dominated by a generation-equality test", okG, d)
			// R5
			short := shortFuncName(fn)
			if fn.Parent() != nil {
				short = shortFuncName(fn.Parent()) + "$closure"
			}
			switch {
			case short == "Client.handleSharedPollSubscribe$closure":
				// shared poll registers no hub entry; nothing to remove
			case short == "Client.connectCmd":
				reach := PathQ{Goal: instrPred(removeSubP)}.From(del)
				c.Check("C04.R5", del, "connect finalize: hub removal reachable after dropping the reservation", reach != nil, "the hub entry of a dropped connect-time subscription would leak")
			default:
				// (a delete inside an extracted critical-section helper is followed up at the helper's call site)
				bad := w.mustPassUp(del, PathQ{Stop: w.wrapMust(removeSubP, 2), Goal: isReturn}, 1)
				d := "the connection stops reporting the channel while its routing entry stays in the hub (publications keep arriving; the entry survives close)"
				if bad != nil {
					d += " (return at " + w.InstrPos(bad) + " reached without Node.removeSubscription)"
				}
				c.Check("C04.R5", del, "channel delete is followed by hub removal on every path", bad == nil, d)
			}
		}
		for _, mu := range mapUpdatesOf(fn, false, "Client", "channels") {
			dv := D(mu.Value)
			lk := originLookup(mu.Value, 0)
			switch {
			case lk != nil && strings.HasSuffix(D(lk.X), "Client.channels"):
				// write-back of a loaded entry
				u := unlockBetween(fn, lk, mu, "Client.mu")
				d := "a loaded entry written back after the lock was released overwrites whatever a concurrent subscribe/unsubscribe installed meanwhile"
				if u != nil {
					d += " (lock released at " + w.InstrPos(u) + ")"
				}
				c.Check("C04.R4", mu, "write-back of a loaded Client.channels entry in the critical section of its load", u == nil, d)
			case isReservationValue(mu.Value):
				absent := GuardedBy(mu, func(g Guard) bool {
					d := D(g.Cond)
					return !g.Pol && strings.HasPrefix(d, "ok(Client.channels[")
				})
				if shortFuncName(fn) == "Client.connectCmd" {
					// connect-time reservations are installed in the critical section that authenticates
					// the client (no subscribe can have run before): require the authenticated store before it
					auth := false
					for _, st := range storesToField(fn, false, "Client", "authenticated") {
						if Precedes(st, mu) && unlockBetween(fn, st, mu, "Client.mu") == nil {
							auth = true
						}
					}
					c.Check("C04.R7", mu, "connect-time reservation installed in the critical section that authenticates the client", auth, "a reservation installed after the client became reachable can clobber a concurrent server-side subscribe")
				} else {
					c.Check("C04.R7", mu, "reservation stored only after an absent-entry test", absent, "two in-flight subscribes for one channel race their hub add and commit")
				}
			default:
				okG := Guarded(mu, isGenEq)
				d := "installing a context over an entry of another generation resurrects an unsubscribed channel or orphans a fresh reservation"
				if !okG {
					d += fmt.Sprintf(" (value %s; guards %v)", dv, GuardStrings(mu))
				}
				c.Check("C04.R4", mu, "install of a new context dominated by a generation-equality test", okG, d)
				// A context that is neither the entry loaded in this critical section nor built here is a
				// copy somebody took earlier: only the commit of a subscribe attempt may install one (it
				// replaces a reservation, which carries nothing worth keeping). Anywhere else the copy
				// overwrites what refreshes, position updates and flag changes stored meanwhile.
				if p := paramOrigin(mu.Value, 0); p != nil {
					short := shortFuncName(fn)
					installers := map[string]bool{"Client.commitSubscription": true}
					c.Check("C04.R4", mu, "a context copy taken by the caller is installed only by the subscribe commit", installers[short],
						"value "+dv+" comes from parameter "+p.Name()+": the live entry may have been refreshed (expireAt, info), re-positioned or re-flagged since that copy was taken; only a field update of the entry loaded under this lock keeps those")
				}
			}
		}
	}
	c.CheckAt("C04.R4", "number of delete(Client.channels) sites", "client.go", nDel >= 5, fmt.Sprintf("found %d delete sites (5 confirmed by hand)", nDel))
	c.Floor("C04.R4", 18)
	c.Floor("C04.R5", 4)
	c.Floor("C04.R7", 4)

	// ---- R6: subShard
	removeSub := c.Fn("C04.R6", "centrifuge", "(*subShard).removeSub")
	addSub := c.Fn("C04.R6", "centrifuge", "(*subShard).addSub")
	if removeSub != nil {
		found := false
		EachInstr(removeSub, func(in ssa.Instruction) {
			ifi, ok := in.(*ssa.If)
			if !ok {
				return
			}
			b, ok := ifi.Cond.(*ssa.BinOp)
			if !ok || b.Op != token.NEQ {
				return
			}
			dx, dy := D(b.X), D(b.Y)
			if !(strings.HasSuffix(dx, ".subGen") && paramOfKind(b.Y, types.Uint64)) && !(strings.HasSuffix(dy, ".subGen") && paramOfKind(b.X, types.Uint64)) {
				return
			}
			found = true
			mism := ifi.Block().Succs[0]
			bad := PathQ{Goal: func(x ssa.Instruction) bool {
				if call, ok := x.(*ssa.Call); ok {
					if bi, ok := call.Call.Value.(*ssa.Builtin); ok && bi.Name() == "delete" {
						return true
					}
				}
				if st, ok := x.(*ssa.Store); ok {
					if fa, ok := st.Addr.(*ssa.FieldAddr); ok && fieldAddrIs(fa, "subShard", "numSubs") {
						return true
					}
				}
				return false
			}}.FromBlock(mism)
			c.Check("C04.R6", ifi, "generation mismatch reaches no routing-table mutation", bad == nil, "a stale unsubscribe would remove a newer subscription's routing entry")
		})
		c.Anchor("C04.R6", "`sub.subGen != subGen` test in subShard.removeSub", found)
		// numSubs-- only after the delete of the entry
		for _, st := range storesToField(removeSub, false, "subShard", "numSubs") {
			ok := false
			EachInstr(removeSub, func(x ssa.Instruction) {
				if call, isCall := x.(*ssa.Call); isCall {
					if bi, isB := call.Call.Value.(*ssa.Builtin); isB && bi.Name() == "delete" && Precedes(call, st) && call.Block() == st.Block() {
						ok = true
					}
				}
			})
			c.Check("C04.R6", st, "numSubs decremented only next to the entry delete", ok, "the subscription counter drifts from the routing table")
		}
	}
	if addSub != nil {
		for _, st := range storesToField(addSub, false, "subShard", "numSubs") {
			okG := GuardedBy(st, func(g Guard) bool { return !g.Pol && strings.HasPrefix(D(g.Cond), "ok(subShard.subs[") })
			c.Check("C04.R6", st, "numSubs incremented only for a new (channel, client) entry", okG, "a resubscribe overwriting an entry would be counted twice")
		}
		// exactly one entry per (channel, client): the store key is the client id
		for _, mu := range mapUpdatesOfAny(addSub) {
			if strings.Contains(D(mu.Map), "subShard.subs[") {
				c.Check("C04.R6", mu, "routing entry keyed by the client's id", strings.Contains(D(mu.Key), "Client.ID(") || strings.Contains(D(mu.Key), ".uid"), "one routing entry per (channel, client) requires the client id as key; got "+D(mu.Key))
			}
		}
	}
	c.Floor("C04.R6", 4)
}

// isReservationValue: a ChannelContext composite whose subscribingCh is a fresh channel.
func isReservationValue(v ssa.Value) bool {
	u, ok := v.(*ssa.UnOp)
	if !ok || u.Op != token.MUL {
		return false
	}
	al, ok := u.X.(*ssa.Alloc)
	if !ok {
		return false
	}
	res := false
	for _, r := range *al.Referrers() {
		if fa, ok := r.(*ssa.FieldAddr); ok && fieldAddrIs(fa, "ChannelContext", "subscribingCh") {
			for _, rr := range *fa.Referrers() {
				if st, ok := rr.(*ssa.Store); ok {
					if _, isMk := st.Val.(*ssa.MakeChan); isMk {
						res = true
					} else if _, isNil := st.Val.(*ssa.Const); !isNil {
						res = true // a captured fresh channel
					}
				}
			}
		}
	}
	return res
}

func mapUpdatesOfAny(fn *ssa.Function) []*ssa.MapUpdate {
	var out []*ssa.MapUpdate
	EachInstr(fn, func(in ssa.Instruction) {
		if mu, ok := in.(*ssa.MapUpdate); ok {
			out = append(out, mu)
		}
	})
	return out
}

// paramRefusesZero: every call in the parameter's function that receives the parameter as an
// argument is guarded by the non-zero outcome of a `p == 0` / `p != 0` test.
func paramRefusesZero(p *ssa.Parameter) bool {
	fn := p.Parent()
	nz := func(g Guard) bool {
		b, ok := g.Cond.(*ssa.BinOp)
		if !ok {
			return false
		}
		z, isZ := constIntOf(b.Y)
		if !isZ || z != 0 || b.X != ssa.Value(p) {
			return false
		}
		return (b.Op == token.EQL && !g.Pol) || (b.Op == token.NEQ && g.Pol)
	}
	n, ok := 0, true
	EachInstr(fn, func(in ssa.Instruction) {
		ci := asCall(in)
		if ci == nil {
			return
		}
		for _, a := range ci.Common().Args {
			if a == ssa.Value(p) {
				n++
				if !Guarded(in, nz) {
					ok = false
				}
			}
		}
	})
	return n > 0 && ok
}
