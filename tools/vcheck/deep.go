package main

import (
	"golang.org/x/tools/go/ssa"
)

// Deep views: rules anchored on a named function also look into the unexported helpers it calls, so
// that extracting a block into a helper (or the reverse) does not move a construct out of sight.

// DeepView is a root function together with the module helpers reachable from it through static calls
// (and their closures), each mapped to the instructions through which it is entered.
type DeepView struct {
	Root  *ssa.Function
	Funcs []*ssa.Function
	via   map[*ssa.Function][]ssa.Instruction // helper/closure -> call (or MakeClosure) instructions entering it
}

// Deep builds the view. Only helpers of the same package are entered; depth bounds the call chain.
func (w *World) Deep(root *ssa.Function, depth int) *DeepView {
	dv := &DeepView{Root: root, via: map[*ssa.Function][]ssa.Instruction{}}
	if root == nil {
		return dv
	}
	seen := map[*ssa.Function]bool{}
	var visit func(f *ssa.Function, d int)
	visit = func(f *ssa.Function, d int) {
		if f == nil || seen[f] || len(f.Blocks) == 0 {
			return
		}
		seen[f] = true
		dv.Funcs = append(dv.Funcs, f)
		EachInstr(f, func(in ssa.Instruction) {
			if mc, ok := in.(*ssa.MakeClosure); ok {
				if cf, ok := mc.Fn.(*ssa.Function); ok {
					// a closure is entered, for path purposes, at its creation site
					dv.via[cf] = append(dv.via[cf], in)
					visit(cf, d)
				}
			}
			if d <= 0 {
				return
			}
			ci := asCall(in)
			if ci == nil {
				return
			}
			cal := w.Callee(ci)
			if cal == nil || cal == root || !w.inModule(cal) || cal.Pkg != root.Pkg {
				return
			}
			dv.via[cal] = append(dv.via[cal], in)
			visit(cal, d-1)
		})
	}
	visit(root, depth)
	return dv
}

// Calls lists the call instructions matching pred anywhere in the view.
func (dv *DeepView) Calls(pred CallPred) []ssa.CallInstruction {
	var out []ssa.CallInstruction
	for _, f := range dv.Funcs {
		out = append(out, CallsIn(f, false, pred)...)
	}
	return out
}

// Each visits every instruction of the view.
func (dv *DeepView) Each(f func(in ssa.Instruction)) {
	for _, fn := range dv.Funcs {
		EachInstr(fn, f)
	}
}

// Reps maps an instruction of the view to the instructions of the root function through which it can
// be reached (itself when it already belongs to the root).
func (dv *DeepView) Reps(in ssa.Instruction) []ssa.Instruction {
	return dv.reps(in, 0)
}

func (dv *DeepView) reps(in ssa.Instruction, depth int) []ssa.Instruction {
	if in == nil || depth > 6 {
		return nil
	}
	if in.Parent() == dv.Root {
		return []ssa.Instruction{in}
	}
	var out []ssa.Instruction
	seen := map[ssa.Instruction]bool{}
	for _, v := range dv.via[in.Parent()] {
		for _, r := range dv.reps(v, depth+1) {
			if !seen[r] {
				seen[r] = true
				out = append(out, r)
			}
		}
	}
	return out
}

// Rep returns one representative (the first) or nil.
func (dv *DeepView) Rep(in ssa.Instruction) ssa.Instruction {
	if rs := dv.Reps(in); len(rs) > 0 {
		return rs[0]
	}
	return nil
}

func ordered(a, b ssa.Instruction) bool {
	return Precedes(a, b) || (Reaches(a, b) && !Reaches(b, a))
}

// PrecedesDeep: a happens before b on every path that contains both. Instructions of the same function
// are ordered inside it; an instruction nested in a helper is ordered against the other one at the
// call site(s) of that helper, in the innermost function both chains share.
func (dv *DeepView) PrecedesDeep(a, b ssa.Instruction) bool {
	return dv.precedes(a, b, 0)
}

func (dv *DeepView) precedes(a, b ssa.Instruction, depth int) bool {
	if a == nil || b == nil || depth > 6 {
		return false
	}
	if a.Parent() == b.Parent() {
		if a == b {
			return false
		}
		return ordered(a, b)
	}
	// lift the deeper one (or either) to its call sites; every call site must preserve the order
	liftA := a.Parent() != dv.Root && len(dv.via[a.Parent()]) > 0
	liftB := b.Parent() != dv.Root && len(dv.via[b.Parent()]) > 0
	if liftA {
		ok := true
		for _, va := range dv.via[a.Parent()] {
			if va.Parent() == b.Parent() || !liftB {
				if !dv.precedes(va, b, depth+1) {
					ok = false
				}
			} else {
				// both nested: try lifting b as well
				okB := true
				for _, vb := range dv.via[b.Parent()] {
					if !dv.precedes(va, vb, depth+1) {
						okB = false
					}
				}
				if !okB && !dv.precedes(va, b, depth+1) {
					ok = false
				}
			}
		}
		return ok
	}
	if liftB {
		ok := true
		for _, vb := range dv.via[b.Parent()] {
			if !dv.precedes(a, vb, depth+1) {
				ok = false
			}
		}
		return ok
	}
	return false
}

// GuardedDeep: some guard on the way to in — inside its own function or at every call site chain up to
// the root — satisfies g.
func (dv *DeepView) GuardedDeep(in ssa.Instruction, g func(Guard) bool) bool {
	return dv.guarded(in, g, 0)
}

func (dv *DeepView) guarded(in ssa.Instruction, g func(Guard) bool, depth int) bool {
	if in == nil || depth > 6 {
		return false
	}
	if Guarded(in, g) {
		return true
	}
	if in.Parent() == dv.Root {
		return false
	}
	sites := dv.via[in.Parent()]
	if len(sites) == 0 {
		return false
	}
	for _, v := range sites {
		if !dv.guarded(v, g, depth+1) {
			return false
		}
	}
	return true
}
