package main

import (
	"fmt"
	"go/token"
	"strings"

	"golang.org/x/tools/go/ssa"
)

func init() {
	register(&PropMeta{
		ID:    "C26",
		Level: "other",
		Explanation: "(R1) Hub.addSub / Hub.removeSub and every Broker / MapBroker Subscribe and Unsubscribe call made by the node run with the channel's subLock held; " +
			"(R2) the deferred broker-unsubscribe job reads NumSubscribers(ch) under that same lock, unsubscribes only on the ==0 edge of that read, and returns the broker's error (so the dissolver retries); " +
			"(R3) a failed broker subscribe in addSubscription removes the hub entry it just added (generation-matched) before returning the error, and the hub add precedes the broker subscribe.",
		NotDecided: "that the dissolver eventually runs the job (C40 covers its loop shape); behaviour of the brokers' own Subscribe/Unsubscribe; cross-node state.",
		Rules: map[string]string{
			"C26.R1": "K3 lockset: hub add/remove and broker (un)subscribe under Node.subLock(ch)",
			"C26.R2": "K3+K2: the unsubscribe decision is made under the lock that serialises it with first-subscribe",
			"C26.R3": "error discipline + K1 order in addSubscription",
		},
		Run: runC26,
	})
	register(&PropMeta{
		ID:    "C40",
		Level: "other",
		Explanation: "(R1) in Dissolver.runWorker the job returned by queue.Wait is invoked only when Wait reported ok, a failing run re-adds that same job value before the loop continues, and the loop is left only on the Closed() edge; " +
			"(R2) every access of the queue's fields (nodes, head, tail, cnt, closed, size) holds the queue mutex; " +
			"(R3) Add stores nothing once the queue is closed and Wait/Remove hand out no job from a closed queue (Close empties it under the lock).",
		NotDecided: "fairness between workers; the ring-buffer index arithmetic (value level).",
		Rules: map[string]string{
			"C40.R1": "K1/K2: retry-until-success loop shape", "C40.R2": "K3 lockset on queueImpl fields", "C40.R3": "K2: closed guards in Add/Wait",
		},
		Run: runC40,
	})
}

func holdsContaining(s LockSet, sub string) bool {
	for k := range s {
		if strings.Contains(k, sub) {
			return true
		}
	}
	return false
}

func isBrokerOp(ci ssa.CallInstruction, ops ...string) bool {
	c := ci.Common()
	if !c.IsInvoke() {
		return false
	}
	t := typeShort(c.Value.Type())
	if t != "Broker" && t != "MapBroker" {
		return false
	}
	for _, o := range ops {
		if c.Method.Name() == o {
			return true
		}
	}
	return false
}

func runC26(c *Ctx) {
	w := c.W
	li := w.Locks()
	addS := c.Fn("C26.R1", "centrifuge", "(*Node).addSubscription")
	remS := c.Fn("C26.R1", "centrifuge", "(*Node).removeSubscription")
	n := 0
	for _, f := range w.AllFuncs {
		for _, ci := range CallsIn(f, false, func(ci ssa.CallInstruction) bool {
			return w.calleeIs("Hub.addSub", "Hub.removeSub")(ci) || isBrokerOp(ci, "Subscribe", "Unsubscribe")
		}) {
			// only the node's own routing code (brokers call each other internally elsewhere)
			root := f
			for root.Parent() != nil {
				root = root.Parent()
			}
			if root != addS && root != remS {
				if isBrokerOp(ci, "Subscribe", "Unsubscribe") || w.calleeIs("Hub.addSub", "Hub.removeSub")(ci) {
					// a new site outside add/removeSubscription must still hold the lock
					if root.Pkg == nil || root.Pkg.Pkg.Path() != modPath {
						continue
					}
					recv := shortFuncName(root)
					// shared-poll key channels have their own subscription bookkeeping (brokerSubMu), outside this property
					if strings.HasPrefix(recv, "SharedPollManager.") || strings.HasPrefix(recv, "MemoryBroker.") ||strings.HasPrefix(recv, "RedisBroker.") || strings.HasPrefix(recv, "RedisMapBroker.") || strings.HasPrefix(recv, "MemoryMapBroker.") {
						continue
					}
				}
			}
			n++
			held := li.HeldAt(ci)
			c.Check("C26.R1", ci, calleeName(ci.Common())+" under the channel's subLock", holdsContaining(held, "subLock("), "hub membership and broker subscription must change together under subLock(ch); otherwise a racing first-subscribe and last-unsubscribe leave local subscribers without a broker subscription (held: "+held.String()+")")
		}
	}
	c.Floor("C26.R1", 7)

	// ---- R2: the dissolver job
	if remS != nil {
		var job *ssa.Function
		for _, ci := range CallsIn(remS, false, w.calleeIs("Dissolver.Submit")) {
			for _, a := range ci.Common().Args {
				if ct, ok := a.(*ssa.ChangeType); ok {
					a = ct.X
				}
				if mc, ok := a.(*ssa.MakeClosure); ok {
					job = mc.Fn.(*ssa.Function)
				}
			}
			c.Check("C26.R2", ci, "unsubscribe job submitted only when the channel became empty", GuardedBy(ci, func(g Guard) bool { return g.Pol && strings.Contains(D(g.Cond), "Hub.removeSub(") }), "a job submitted for a non-empty channel would still be harmless only because of its re-check")
		}
		if c.Anchor("C26.R2", "dissolver job closure in removeSubscription", job != nil) {
			nums := CallsIn(job, false, w.calleeIs("Hub.NumSubscribers"))
			c.Anchor("C26.R2", "NumSubscribers re-check in the dissolver job", len(nums) > 0)
			for _, nc := range nums {
				held := li.HeldAt(nc)
				c.Check("C26.R2", nc, "NumSubscribers read under subLock(ch)", holdsContaining(held, "subLock("), "a subscriber count read before taking the lock is stale by the time the broker unsubscribe runs: a first-subscribe in between leaves a local subscriber without broker subscription (held: "+held.String()+")")
			}
			for _, u := range CallsIn(job, false, func(ci ssa.CallInstruction) bool { return isBrokerOp(ci, "Unsubscribe") }) {
				okG := GuardedBy(u, func(g Guard) bool {
					b, ok := g.Cond.(*ssa.BinOp)
					if !ok {
						return false
					}
					z, isZ := constIntOf(b.Y)
					return isZ && z == 0 && strings.Contains(D(b.X), "NumSubscribers(") && ((b.Op == token.EQL && g.Pol) || (b.Op == token.NEQ && !g.Pol))
				})
				c.Check("C26.R2", u, "broker unsubscribe only on the NumSubscribers == 0 edge", okG, "unsubscribing while local subscribers exist loses their publications")
				// the count that guards it was read under the lock still held here
				heldU := li.HeldAt(u)
				c.Check("C26.R2", u, "broker unsubscribe under subLock(ch)", holdsContaining(heldU, "subLock("), "lock released between the check and the unsubscribe")
				// error → returned
				if v := u.Value(); v != nil {
					okRet := false
					for _, r := range *v.Referrers() {
						if b, ok := r.(*ssa.BinOp); ok && b.Op == token.NEQ && isNilConst(b.Y) {
							for _, ifi := range ifsOn(b) {
								// with a deferred unlock go/ssa spills the result: `store cell = err; rundefers; return *cell`
								bad := PathQ{Stop: func(in ssa.Instruction) bool {
									st, ok := in.(*ssa.Store)
									return ok && st.Val == v
								}, Goal: func(in ssa.Instruction) bool {
									ret, ok := in.(*ssa.Return)
									return ok && len(ret.Results) == 1 && ret.Results[0] != v
								}}.FromBlock(ifi.Block().Succs[0])
								okRet = bad == nil
							}
						}
					}
					c.Check("C26.R2", u, "a failed broker unsubscribe is returned to the dissolver (retry)", okRet, "swallowing the error leaves the node subscribed to a channel nobody listens to, forever")
				}
			}
		}
	}

	// ---- R3
	if addS != nil {
		subs := CallsIn(addS, false, func(ci ssa.CallInstruction) bool { return isBrokerOp(ci, "Subscribe") })
		c.Anchor("C26.R3", "broker Subscribe calls in addSubscription", len(subs) >= 2)
		adds := CallsIn(addS, false, w.calleeIs("Hub.addSub"))
		for _, s := range subs {
			okOrder := false
			for _, a := range adds {
				if Precedes(a, s) {
					okOrder = true
				}
			}
			c.Check("C26.R3", s, "hub add precedes broker subscribe", okOrder, "subscribing in the broker before the hub entry exists loses the first publications")
			c.Check("C26.R3", s, "broker subscribe only for the first local subscriber", GuardedBy(s, func(g Guard) bool { return g.Pol && strings.Contains(D(g.Cond), "Hub.addSub(") }), "re-subscribing per subscriber is wasteful and un-paired with the single unsubscribe")
			v := s.Value()
			if v == nil {
				continue
			}
			okRollback := false
			for _, r := range *v.Referrers() {
				if b, ok := r.(*ssa.BinOp); ok && b.Op == token.NEQ && isNilConst(b.Y) {
					for _, ifi := range ifsOn(b) {
						bad := PathQ{Stop: instrPred(w.calleeIs("Hub.removeSub")), Goal: isReturn}.FromBlock(ifi.Block().Succs[0])
						okRollback = bad == nil
					}
				}
			}
			c.Check("C26.R3", s, "failed broker subscribe removes the hub entry before returning", okRollback, "a hub entry without broker subscription: the connection believes it is subscribed and receives nothing")
		}
	}
}

func runC40(c *Ctx) {
	w := c.W
	li := w.Locks()
	rw := c.Fn("C40.R1", "internal/dissolve", "(*Dissolver).runWorker")
	if rw != nil {
		var waitCall *ssa.Call
		EachInstr(rw, func(in ssa.Instruction) {
			if call, ok := in.(*ssa.Call); ok && call.Call.IsInvoke() && call.Call.Method.Name() == "Wait" {
				waitCall = call
			}
		})
		if c.Anchor("C40.R1", "queue.Wait call in runWorker", waitCall != nil) {
			var jobV, okV ssa.Value
			for _, r := range *waitCall.Referrers() {
				if ex, ok := r.(*ssa.Extract); ok {
					if ex.Index == 0 {
						jobV = ex
					} else {
						okV = ex
					}
				}
			}
			// dynamic call of the job
			var jobCall *ssa.Call
			EachInstr(rw, func(in ssa.Instruction) {
				if call, ok := in.(*ssa.Call); ok && !call.Call.IsInvoke() && call.Call.Value == jobV {
					jobCall = call
				}
			})
			if c.Anchor("C40.R1", "invocation of the job returned by Wait", jobCall != nil) {
				c.Check("C40.R1", jobCall, "job invoked only when Wait reported ok", okV != nil && GuardedBy(jobCall, func(g Guard) bool { return g.Cond == okV && g.Pol }), "a nil job from a closed/empty queue would be invoked")
				// err != nil edge re-adds the same job
				readd := false
				for _, r := range *jobCall.Referrers() {
					if b, ok := r.(*ssa.BinOp); ok && b.Op == token.NEQ && isNilConst(b.Y) {
						for _, ifi := range ifsOn(b) {
							fail := ifi.Block().Succs[0]
							// every path from the failing edge back to Wait passes Add(job)
							bad := PathQ{Stop: func(in ssa.Instruction) bool {
								call, ok := in.(*ssa.Call)
								return ok && call.Call.IsInvoke() && call.Call.Method.Name() == "Add" && len(call.Call.Args) == 1 && call.Call.Args[0] == jobV
							}, Goal: func(in ssa.Instruction) bool { return in == ssa.Instruction(waitCall) || isReturn(in) }}.FromBlock(fail)
							readd = bad == nil
						}
					}
				}
				c.Check("C40.R1", jobCall, "a failed run re-adds the same job before the loop continues", readd, "a job that failed once would be dropped: the deferred work (broker unsubscribe) never happens")
				// success edge does not re-add
				for _, r := range *jobCall.Referrers() {
					if b, ok := r.(*ssa.BinOp); ok && b.Op == token.NEQ && isNilConst(b.Y) {
						for _, ifi := range ifsOn(b) {
							hit := PathQ{Stop: func(in ssa.Instruction) bool { return in == ssa.Instruction(waitCall) }, Goal: func(in ssa.Instruction) bool {
								call, ok := in.(*ssa.Call)
								return ok && call.Call.IsInvoke() && call.Call.Method.Name() == "Add"
							}}.FromBlock(ifi.Block().Succs[1])
							c.Check("C40.R1", ifi, "a successful job is not re-added", hit == nil, "a job would run again after it succeeded")
						}
					}
				}
			}
			// loop exit only on Closed()
			EachInstr(rw, func(in ssa.Instruction) {
				if r, ok := in.(*ssa.Return); ok {
					okG := GuardedBy(r, func(g Guard) bool { return g.Pol && strings.Contains(D(g.Cond), "Closed()") })
					c.Check("C40.R1", r, "worker exits only when the queue is closed", okG, "a worker that exits early stops processing jobs submitted later")
				}
			})
		}
	}
	// R2
	n := 0
	for _, f := range w.AllFuncs {
		if f.Pkg == nil || shortPkg(f.Pkg.Pkg.Path()) != "internal/dissolve" || f.Name() == "newQueue" {
			continue
		}
		for _, fld := range []string{"nodes", "head", "tail", "cnt", "closed", "size"} {
			for _, a := range FieldAccesses(f, "queueImpl", fld) {
				n++
				held := li.HeldAt(a.In)
				c.Check("C40.R2", a.In, "queueImpl."+fld+" "+a.Kind+" under the queue mutex", held.Holds("queueImpl.mu", a.Write), fmt.Sprintf("unsynchronised queue access (held: %s)", held))
			}
		}
	}
	c.Floor("C40.R2", 20)
	// R3
	add := c.Fn("C40.R3", "internal/dissolve", "(*queueImpl).Add")
	if add != nil {
		k := 0
		EachInstr(add, func(in ssa.Instruction) {
			st, ok := in.(*ssa.Store)
			if !ok {
				return
			}
			if _, isIdx := st.Addr.(*ssa.IndexAddr); !isIdx {
				return
			}
			k++
			c.Check("C40.R3", st, "Add stores a job only when the queue is not closed", GuardedBy(st, func(g Guard) bool { return !g.Pol && strings.HasSuffix(D(g.Cond), "queueImpl.closed") }), "a job added after Close would run after the queue was closed")
		})
		c.Anchor("C40.R3", "job store in queueImpl.Add", k > 0)
	}
	wait := c.Fn("C40.R3", "internal/dissolve", "(*queueImpl).Wait")
	if wait != nil {
		for _, rc := range CallsIn(wait, false, w.calleeIs("queueImpl.Remove")) {
			c.Check("C40.R3", rc, "Wait hands out a job only when the queue is not closed", Guarded(rc, func(g Guard) bool { return !g.Pol && strings.HasSuffix(D(g.Cond), "queueImpl.closed") }), "Wait must re-check closed before removing")
		}
	}
	cl := c.Fn("C40.R3", "internal/dissolve", "(*queueImpl).Close")
	if cl != nil {
		zeroed := false
		for _, st := range storesToField(cl, false, "queueImpl", "cnt") {
			if v, ok := constIntOf(st.Val); ok && v == 0 {
				zeroed = true
			}
		}
		c.CheckAt("C40.R3", "(*queueImpl).Close: pending jobs discarded under the lock", w.Pos(cl.Pos()), zeroed, "Close must empty the queue so no job runs after it")
	}
}
