package main

import (
	"encoding/json"
	"fmt"
	"os"
	"path/filepath"
	"sort"
	"strings"

	"golang.org/x/tools/go/ssa"
)

// Obligation is one rule instance evaluated at one construct.
type Obligation struct {
	Rule       string `json:"rule"`
	Site       string `json:"site"` // stable key: function + construct, no line numbers
	Pos        string `json:"pos"`
	OK         bool   `json:"ok"`
	Detail     string `json:"detail,omitempty"`
	Nontrivial bool   `json:"nontrivial"`
	Config     string `json:"config,omitempty"`
}

// PropMeta describes a property's check for evidence.
type PropMeta struct {
	ID          string
	Level       string // other | proof
	Explanation string // what is decided
	NotDecided  string
	Rules       map[string]string // rule id -> rule text
	Run         func(c *Ctx)
	Exhaustive  bool
	Technique   string // few words naming the deciding method
	LevelNote   string // trusted base / assumptions
}

var registry = map[string]*PropMeta{}

func register(m *PropMeta) { registry[m.ID] = m }

// Ctx collects obligations for one property on one world.
type Ctx struct {
	W      *World
	Prop   string
	Obs    []Obligation
	floors map[string]int
	funcs  map[string]bool
	seen   map[string]int
}

func newCtx(w *World, prop string) *Ctx {
	return &Ctx{W: w, Prop: prop, floors: map[string]int{}, funcs: map[string]bool{}, seen: map[string]int{}}
}

func (c *Ctx) add(rule, site, pos string, ok, nontrivial bool, detail string) {
	key := rule + "|" + site
	c.seen[key]++
	if n := c.seen[key]; n > 1 {
		site = fmt.Sprintf("%s #%d", site, n)
	}
	c.Obs = append(c.Obs, Obligation{Rule: rule, Site: site, Pos: pos, OK: ok, Detail: detail, Nontrivial: nontrivial, Config: c.W.Config})
}

// Check records an obligation at an instruction.
func (c *Ctx) Check(rule string, in ssa.Instruction, construct string, ok bool, detail string) {
	fn := "?"
	pos := "?"
	if in != nil {
		fn = FuncName(in.Parent())
		pos = c.W.InstrPos(in)
		c.funcs[fn] = true
	}
	c.add(rule, fn+": "+construct, pos, ok, true, detail)
}

// CheckAt records an obligation not tied to an instruction.
func (c *Ctx) CheckAt(rule, site, pos string, ok bool, detail string) {
	c.add(rule, site, pos, ok, true, detail)
}

// Anchor asserts that an anchor object resolved; records a failing obligation otherwise.
func (c *Ctx) Anchor(rule, name string, obj interface{}) bool {
	ok := obj != nil
	switch x := obj.(type) {
	case *ssa.Function:
		ok = x != nil && len(x.Blocks) > 0
		if ok {
			c.funcs[FuncName(x)] = true
		}
	case bool:
		ok = x
	}
	if !ok {
		c.add(rule, "anchor "+name, "?", false, false, "anchor-unresolved: "+name+" no longer resolves in the type-checked program; the rule cannot be evaluated")
	}
	return ok
}

// Fn resolves a function anchor.
func (c *Ctx) Fn(rule, pkg, name string) *ssa.Function {
	f := c.W.Func(pkg, name)
	if !c.Anchor(rule, pkg+"."+name, f) {
		return nil
	}
	return f
}

// Floor: rule must have matched at least n sites.
func (c *Ctx) Floor(rule string, n int) { c.floors[rule] = n }

func (c *Ctx) finish() {
	counts := map[string]int{}
	for _, o := range c.Obs {
		counts[o.Rule]++
	}
	rules := make([]string, 0, len(c.floors))
	for r := range c.floors {
		rules = append(rules, r)
	}
	sort.Strings(rules)
	for _, r := range rules {
		// The floor guards against a rule that silently stopped matching, not against a refactoring
		// that merges a few of its sites into a helper: a quarter of the hand-confirmed count (at least
		// one site) may disappear before the rule is declared vacuous.
		floor := c.floors[r]
		slack := floor / 4
		if slack < 1 && floor > 1 {
			slack = 1
		}
		if counts[r] < floor-slack {
			c.add(r, "instance floor", "?", false, false, fmt.Sprintf("vacuous: rule matched %d site(s), the hand-confirmed count is %d (tolerance %d); the rule would pass without checking anything", counts[r], floor, slack))
		}
	}
}

// ---- results, cache, evidence --------------------------------------------------------------------

type PropResult struct {
	ID          string       `json:"id"`
	Obs         []Obligation `json:"obligations"`
	Funcs       []string     `json:"functions"`
	Panic       string       `json:"panic,omitempty"`
}

type RunResult struct {
	TreeHash   string                 `json:"tree_hash"`
	Tier       string                 `json:"tier"`
	Configs    []string               `json:"configs"`
	Packages   int                    `json:"packages"`
	PkgsTotal  int                    `json:"packages_total"`
	Funcs      int                    `json:"functions"`
	LoadErr    string                 `json:"load_error,omitempty"`
	WallS      float64                `json:"wall_s"`
	Props      map[string]*PropResult `json:"props"`
}

type KnownFinding struct {
	Property  string `json:"property"`
	Rule      string `json:"rule"`
	Site      string `json:"site"`
	Status    string `json:"status"` // known | fixed
	Commit    string `json:"commit,omitempty"`
	WhatFails string `json:"what_fails"`
}

func loadKnown(path string) ([]KnownFinding, error) {
	b, err := os.ReadFile(path)
	if err != nil {
		if os.IsNotExist(err) {
			return nil, nil
		}
		return nil, err
	}
	var kf struct {
		Findings []KnownFinding `json:"findings"`
	}
	if err := json.Unmarshal(b, &kf); err != nil {
		return nil, err
	}
	return kf.Findings, nil
}

func runProp(w *World, id string) (res *PropResult) {
	m := registry[id]
	c := newCtx(w, id)
	res = &PropResult{ID: id}
	func() {
		defer func() {
			if r := recover(); r != nil {
				res.Panic = fmt.Sprint(r)
				c.add(id+".engine", "analysis panic", "?", false, false, "the analyzer panicked: "+fmt.Sprint(r)+" — undecided counts as failure")
			}
		}()
		m.Run(c)
		hookRound2(c, id)
	}()
	c.finish()
	res.Obs = c.Obs
	for f := range c.funcs {
		res.Funcs = append(res.Funcs, f)
	}
	sort.Strings(res.Funcs)
	return res
}

// emit writes evidence and prints KNOWN-FINDING / VIOLATION lines. Returns exit code.
func emit(rr *RunResult, id, tier string, seed int64, wall float64, cacheHit bool, verifDir string) int {
	m := registry[id]
	pr := rr.Props[id]
	evDir := filepath.Join(verifDir, "evidence")
	os.MkdirAll(evDir, 0o755)
	known, kerr := loadKnown(filepath.Join(verifDir, "known_findings.json"))
	var viol []Obligation
	var knownHits []string
	if rr.LoadErr != "" {
		viol = append(viol, Obligation{Rule: id + ".load", Site: "load", Pos: "?", Detail: rr.LoadErr})
	}
	if kerr != nil {
		viol = append(viol, Obligation{Rule: id + ".known", Site: "known_findings.json", Pos: "?", Detail: kerr.Error()})
	}
	total, discharged, nontriv := 0, 0, 0
	distinct := map[string]bool{}
	if pr != nil {
		for _, o := range pr.Obs {
			total++
			if o.Nontrivial {
				distinct[o.Rule+"|"+o.Site] = true
			}
			if o.OK {
				discharged++
				continue
			}
			matched := false
			for _, k := range known {
				if k.Property == id && k.Status == "known" && k.Rule == o.Rule && k.Site == o.Site {
					matched = true
					line := fmt.Sprintf("KNOWN-FINDING: property=%s rule=%s site=%q %s (%s)", id, o.Rule, o.Site, k.WhatFails, o.Pos)
					knownHits = append(knownHits, line)
					break
				}
			}
			if !matched {
				viol = append(viol, o)
			}
		}
	} else if rr.LoadErr == "" {
		viol = append(viol, Obligation{Rule: id + ".engine", Site: "no result", Pos: "?", Detail: "property not evaluated"})
	}
	nontriv = len(distinct)
	sort.Strings(knownHits)
	seenK := map[string]bool{}
	for _, l := range knownHits {
		if !seenK[l] {
			fmt.Println(l)
			seenK[l] = true
		}
	}
	// samples
	var samples []map[string]string
	if pr != nil {
		perRule := map[string]int{}
		for _, o := range pr.Obs {
			if perRule[o.Rule] >= 3 || len(samples) >= 24 {
				continue
			}
			perRule[o.Rule]++
			st := "holds"
			if !o.OK {
				st = "fails"
			}
			key := "failure_would_mean"
			if !o.OK {
				key = "detail"
			}
			samples = append(samples, map[string]string{"rule": o.Rule, "site": o.Site, "pos": o.Pos, "status": st, key: o.Detail})
		}
	}
	if len(samples) == 0 {
		samples = append(samples, map[string]string{"rule": "none", "detail": "no obligations evaluated"})
	}
	ruleTexts := []string{}
	rk := make([]string, 0, len(m.Rules))
	for k := range m.Rules {
		rk = append(rk, k)
	}
	sort.Strings(rk)
	perRuleCount := map[string]int{}
	if pr != nil {
		for _, o := range pr.Obs {
			perRuleCount[o.Rule]++
		}
	}
	for _, k := range rk {
		ruleTexts = append(ruleTexts, fmt.Sprintf("%s [%d site(s)]: %s", k, perRuleCount[k], m.Rules[k]))
	}
	funcs := []string{}
	if pr != nil {
		funcs = pr.Funcs
	}
	cov := map[string]interface{}{
		"explanation":         "DECIDED (structural clauses, on every path of the current source): " + m.Explanation + " NOT DECIDED: " + m.NotDecided,
		"obligations":         total,
		"discharged":          discharged,
		"evaluations":         total,
		"distinct_nontrivial": nontriv,
		"rule":                "one obligation per (rule, construct) pair found in the type-checked SSA program of /repo; distinct = distinct (rule, function+construct) keys; non-trivial = the site has a real guard/order/lock/field fact to establish (anchor-resolution and floor bookkeeping entries are excluded). Rules: " + strings.Join(ruleTexts, " || "),
		"samples":             samples,
		"functions_analysed":  funcs,
		"packages":            rr.Packages,
		"packages_loaded":     rr.PkgsTotal,
		"module_functions":    rr.Funcs,
		"build_configs":       rr.Configs,
		"tree_hash":           rr.TreeHash,
		"cache_hit":           cacheHit,
		"analysis_wall_s":     rr.WallS,
		"known_findings_hit":  len(seenK),
		"checker_cmd":         fmt.Sprintf("/verif/check.sh %s %s", id, tier),
		"trusted_base":        []string{"go/types type checker", "golang.org/x/tools go/ssa builder and dominator tree", "go/packages loader with the repository's own go.mod", "the checker's own reference tables (CRC16-XMODEM, RFC 6455 close codes) where used"},
	}
	if m.Exhaustive {
		cov["exhaustive"] = true
	}
	ev := map[string]interface{}{
		"property_id": id,
		"tier":        tier,
		"seed":        seed,
		"level":       m.Level,
		"coverage":    cov,
		"assumptions": []string{
			"static analysis: no centrifuge code is executed; VERIF_SEED is recorded but there are no random choices",
			"locks are taken only through sync.Mutex/RWMutex methods; function values do not take analysed locks behind the analysis' back",
			"application callbacks follow the documented API contract (call the reply callback once)",
		},
		"wall_s":     wall,
		"violations": len(viol),
	}
	b, _ := json.MarshalIndent(ev, "", " ")
	os.WriteFile(filepath.Join(evDir, id+".json"), b, 0o644)
	vpath := filepath.Join(evDir, id+".violations.json")
	if len(viol) == 0 {
		os.Remove(vpath)
		fmt.Printf("OK property=%s tier=%s obligations=%d discharged=%d known_findings=%d configs=%v cache_hit=%v\n", id, tier, total, discharged, len(seenK), rr.Configs, cacheHit)
		return 0
	}
	vb, _ := json.MarshalIndent(map[string]interface{}{"property": id, "tree_hash": rr.TreeHash, "violations": viol}, "", " ")
	os.WriteFile(vpath, vb, 0o644)
	for _, v := range viol {
		fmt.Printf("FAIL %s %s [%s] %s\n", v.Pos, v.Rule, v.Site, v.Detail)
	}
	fmt.Printf("VIOLATION property=%s replay=%s\n", id, vpath)
	return 1
}

func stripOrdinal(site string) string {
	if i := strings.LastIndex(site, " #"); i > 0 {
		rest := site[i+2:]
		allDigits := rest != ""
		for _, r := range rest {
			if r < '0' || r > '9' {
				allDigits = false
			}
		}
		if allDigits {
			return site[:i]
		}
	}
	return site
}
