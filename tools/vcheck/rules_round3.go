package main

import (
	"go/token"
	"go/types"
	"strings"

	"golang.org/x/tools/go/ssa"
)

// Rules added after the third round of seeded defects (hooked from hookRound2).

func init() {
	add := func(prop, rule, doc string) {
		if round2Docs[prop] == nil {
			round2Docs[prop] = map[string]string{}
		}
		round2Docs[prop][rule] = doc
	}
	add("C24", "C24.R7", "value identity: the hub and the broker share one publish-lock table")
	add("C15", "C15.R7", "K2: the bytes hashed are the bytes the marshal call wrote")
	add("C17", "C17.R6", "K1: a deadline index entry is refreshed on every touch, not only when it is first scheduled")
	add("C25", "C25.R6", "K1: the warm-key snapshot is taken after the connection joined the hub")
	add("C16", "C16.R5", "ownership: a publication slice shared through single flight is never written through")
	add("C19", "C19.R6", "lockset: the idempotency result cache is consulted and filled under the channel publish lock")
	add("C14", "C14.R7", "K1: the delta-allowed flag is set only on a path that goes on to send the full payload")
	add("C12", "C12.R5", "K3: ring indices are rewound only when the element count is zero")
}

func hookRound3(c *Ctx, prop string) {
	for _, f := range round3Hooks[prop] {
		f(c)
	}
	switch prop {
	case "C24":
		runSharedLockTable(c)
	case "C15":
		runHashedRegion(c)
	case "C17":
		runDeadlineRefreshed(c, "C17.R6", "historyHub", []string{"expires", "removes"})
	case "C25":
		runWarmSnapshotAfterJoin(c)
	case "C16":
		runSharedResultNotWritten(c)
	case "C19":
		runResultCacheUnderPubLock(c)
	case "C12":
		runRewindOnlyWhenEmpty(c)
	case "C14":
		runDeltaFlagThenFull(c)
	}
}

func moduleFuncs(w *World) []*ssa.Function {
	var out []*ssa.Function
	for _, f := range w.AllFuncs {
		if f == nil || len(f.Blocks) == 0 || !w.inModule(f) || strings.HasSuffix(w.Pos(f.Pos()), "_test.go") {
			continue
		}
		out = append(out, f)
	}
	return out
}

// runSharedLockTable (C24.R7): the memory map broker serialises publishers of a channel with a striped
// lock table, and its hub's expiry/cleanup workers take the same stripe before they touch a channel. Both
// sides only exclude each other when they hold the *same* table: the value stored into
// MemoryMapBroker.pubLocks is the value handed to newMapHub (or the hub is given the broker's field).
func runSharedLockTable(c *Ctx) {
	w := c.W
	n := 0
	for _, st := range w.FieldStores("MemoryMapBroker", "pubLocks") {
		fn := st.Parent()
		if strings.HasSuffix(w.Pos(fn.Pos()), "_test.go") {
			continue
		}
		for _, ci := range CallsIn(fn, false, w.calleeIs("newMapHub")) {
			for _, a := range ci.Common().Args {
				if !types.Identical(a.Type(), st.Val.Type()) {
					continue
				}
				n++
				same := a == st.Val || loadsField(a, "MemoryMapBroker", "pubLocks")
				c.Check("C24.R7", ci, "the lock table given to the hub is the table stored in MemoryMapBroker.pubLocks", same,
					"hub workers and publishers lock different mutexes for the same channel: expiry/cleanup interleaves with a publish it was meant to exclude (hub gets "+D(a)+", broker keeps "+D(st.Val)+")")
			}
		}
	}
	c.Anchor("C24.R7", "constructor storing MemoryMapBroker.pubLocks and calling newMapHub", n >= 1)
}

// runHashedRegion (C15.R7): filter.Hash marshals the tree into a pooled buffer and hashes a slice of it.
// The generated marshal APIs differ in where they write: MarshalToVT fills buf[:n], MarshalToSizedBufferVT
// fills the *end* of the buffer it is given (buf[len(buf)-n:]). Hashing the other end hashes stale pooled
// bytes: equal filters get different hashes (or different filters equal ones). Decided only for the
// recognised APIs; any other shape is left alone.
func runHashedRegion(c *Ctx) {
	w := c.W
	fn := w.Func("internal/filter", "Hash")
	if !c.Anchor("C15.R7", "internal/filter.Hash", fn) {
		return
	}
	n := 0
	EachInstr(fn, func(in ssa.Instruction) {
		call, ok := in.(*ssa.Call)
		if !ok {
			return
		}
		cal := call.Call.StaticCallee()
		if cal == nil || cal.Pkg == nil || !strings.HasPrefix(cal.Pkg.Pkg.Path(), "crypto/") || len(call.Call.Args) != 1 {
			return
		}
		arg := call.Call.Args[0]
		sl, ok := arg.(*ssa.Slice)
		if !ok {
			return
		}
		// which marshal call produced the bound?
		var api string
		bound := sl.High
		if bound == nil {
			bound = sl.Low
		}
		var find func(v ssa.Value, d int)
		find = func(v ssa.Value, d int) {
			if v == nil || d > 4 || api != "" {
				return
			}
			switch x := v.(type) {
			case *ssa.Extract:
				if mc, ok := x.Tuple.(*ssa.Call); ok && x.Index == 0 {
					if f := w.Callee(mc); f != nil && strings.HasPrefix(f.Name(), "Marshal") {
						api = f.Name()
					} else if mc.Call.IsInvoke() && strings.HasPrefix(mc.Call.Method.Name(), "Marshal") {
						api = mc.Call.Method.Name()
					}
				}
			case *ssa.BinOp:
				find(x.X, d+1)
				find(x.Y, d+1)
			case *ssa.Convert:
				find(x.X, d+1)
			}
		}
		find(sl.High, 0)
		find(sl.Low, 0)
		if api == "" {
			return
		}
		n++
		ok2 := true
		switch {
		case strings.HasPrefix(api, "MarshalToSizedBuffer"):
			ok2 = sl.Low != nil // written at the end: the hashed region must start at len-n
		case strings.HasPrefix(api, "MarshalTo"):
			ok2 = sl.Low == nil && sl.High != nil // written at the front: buf[:n]
		}
		c.Check("C15.R7", in, "the hashed slice is the region "+api+" wrote", ok2,
			api+" writes at the other end of the buffer: the hash covers stale pooled bytes, so equal filters hash differently and unequal ones may collide (hashed "+D(arg)+")")
	})
	c.Anchor("C15.R7", "hash of a marshalled region in filter.Hash", n >= 1)
}

// runDeadlineRefreshed: the hubs keep "deadline per channel" in an index map and one item per channel in
// a heap; the worker that pops an item compares the *index* deadline with now and re-pushes the item when
// the index was moved forward. So every touch must move the index entry; only the heap push is
// conditional on "no item scheduled yet". An index write guarded by the not-found result of a lookup in
// the same index freezes the deadline at its first value (history / meta expire although still in use).
func runDeadlineRefreshed(c *Ctx, rule, typ string, fields []string) {
	w := c.W
	n := 0
	for _, f := range moduleFuncs(w) {
		for _, field := range fields {
			for _, mu := range mapUpdatesOf(f, false, typ, field) {
				n++
				field := field
				frozen := GuardedBy(mu, func(g Guard) bool {
					ex, ok := g.Cond.(*ssa.Extract)
					if !ok || ex.Index != 1 || g.Pol {
						return false
					}
					lk, ok := ex.Tuple.(*ssa.Lookup)
					return ok && loadsField(lk.X, typ, field)
				})
				c.Check(rule, mu, "the "+typ+"."+field+" deadline is written whether or not an item was already scheduled", !frozen,
					"the deadline is only written the first time: later publishes/reads no longer push it forward and the worker expires the channel at the first deadline")
			}
		}
	}
	c.Anchor(rule, "writes of "+typ+" deadline index entries", n >= 2)
}

// runWarmSnapshotAfterJoin (C25.R6): handleTrack delivers cached values for warm keys directly. The
// snapshot it delivers must be read after the connection was added to the keyed hub: a publish between an
// earlier snapshot and the join is broadcast only to the then-subscribers, the stale snapshot is delivered
// and the per-connection version filter then suppresses the update — the client stays on the stale value.
func runWarmSnapshotAfterJoin(c *Ctx) {
	w := c.W
	fn := w.Func("centrifuge", "(*Client).handleTrack")
	if !c.Anchor("C25.R6", "(*Client).handleTrack", fn) {
		return
	}
	n := 0
	join := w.calleeIs("keyedManager.addSubscribers", "keyedManager.addSubscriber", "keyedHub.addSubscriber", "keyedHub.addSubscribers")
	for _, f := range WithClosures(fn) {
		snaps := CallsIn(f, false, w.calleeIs("SharedPollManager.getWarmKeyData"))
		if len(snaps) == 0 {
			continue
		}
		joins := CallsIn(f, false, join)
		for _, s := range snaps {
			n++
			ok := false
			for _, j := range joins {
				if Precedes(j, s) {
					ok = true
				}
			}
			c.Check("C25.R6", s, "keyed hub join ≺ warm-key snapshot (getWarmKeyData)", ok,
				"a publish between the snapshot and the join reaches only earlier subscribers; the stale snapshot is then delivered and the version filter suppresses the update")
		}
	}
	c.Anchor("C25.R6", "getWarmKeyData call in handleTrack", n >= 1)
}

// sharedBacking: v aliases the backing array of a slice field of a value returned by a call satisfying
// src (through re-slicing, phis, append's destination, field selection and local cells).
func sharedBacking(v ssa.Value, src func(*ssa.Call) bool, depth int, seen map[ssa.Value]bool) bool {
	if v == nil || seen[v] || depth > 12 {
		return false
	}
	seen[v] = true
	rec := func(x ssa.Value) bool { return sharedBacking(x, src, depth+1, seen) }
	switch x := v.(type) {
	case *ssa.Call:
		if b, ok := x.Call.Value.(*ssa.Builtin); ok {
			if b.Name() == "append" && len(x.Call.Args) > 0 {
				return rec(x.Call.Args[0])
			}
			return false
		}
		return src(x)
	case *ssa.Extract:
		return rec(x.Tuple)
	case *ssa.Slice:
		return rec(x.X)
	case *ssa.Phi:
		for _, e := range x.Edges {
			if rec(e) {
				return true
			}
		}
	case *ssa.Field:
		return rec(x.X)
	case *ssa.FieldAddr:
		return rec(x.X)
	case *ssa.ChangeType:
		return rec(x.X)
	case *ssa.UnOp:
		if x.Op == token.MUL {
			return rec(x.X)
		}
	case *ssa.Alloc:
		for _, r := range *x.Referrers() {
			if st, ok := r.(*ssa.Store); ok && st.Addr == ssa.Value(x) && rec(st.Val) {
				return true
			}
		}
	}
	return false
}

// runSharedResultNotWritten (C16.R5): Node read methods that go through a singleflight group hand the
// same result value — same backing array of Publications — to every caller that joined the flight. Each
// caller then applies *its own* tags filter. Filtering by compaction in place (pubs[:0] + append, or
// element stores) makes one subscriber's filter decide what another subscriber's page contains. So: no
// append destination and no element store aliases the result of such a read.
func runSharedResultNotWritten(c *Ctx) {
	w := c.W
	isDo := func(ci ssa.CallInstruction) bool {
		f := w.Callee(ci)
		return f != nil && f.Name() == "Do" && f.Pkg != nil && strings.HasSuffix(f.Pkg.Pkg.Path(), "singleflight")
	}
	shared := map[*ssa.Function]bool{}
	for _, f := range moduleFuncs(w) {
		if f.Signature.Recv() == nil {
			continue
		}
		if len(CallsIn(f, true, isDo)) > 0 {
			shared[f] = true
		}
	}
	c.Anchor("C16.R5", "read methods that share their result through a singleflight group", len(shared) >= 2)
	src := func(call *ssa.Call) bool {
		f := w.Callee(call)
		return f != nil && shared[f]
	}
	n := 0
	for _, f := range moduleFuncs(w) {
		uses := false
		EachInstr(f, func(in ssa.Instruction) {
			if call, ok := in.(*ssa.Call); ok && src(call) {
				uses = true
			}
		})
		if !uses {
			continue
		}
		n++
		clean := true
		EachInstr(f, func(in ssa.Instruction) {
			switch x := in.(type) {
			case *ssa.Call:
				if b, ok := x.Call.Value.(*ssa.Builtin); ok && b.Name() == "append" && len(x.Call.Args) > 0 {
					if sharedBacking(x.Call.Args[0], src, 0, map[ssa.Value]bool{}) {
						clean = false
						c.Check("C16.R5", in, "append destination does not alias a single-flight read result", false,
							"the result of a single-flight read is the same value for every caller of the flight: appending into its backing array lets one subscriber's filter rewrite the page of another ("+D(x.Call.Args[0])+")")
					}
				}
			case *ssa.Store:
				if ia, ok := x.Addr.(*ssa.IndexAddr); ok && sharedBacking(ia.X, src, 0, map[ssa.Value]bool{}) {
					clean = false
					c.Check("C16.R5", in, "element store does not alias a single-flight read result", false,
						"writes an element of a slice every caller of the flight shares ("+D(ia.X)+")")
				}
			}
		})
		if clean {
			c.CheckAt("C16.R5", FuncName(f)+": no write through a single-flight read result", w.Pos(f.Pos()), true, "")
		}
	}
	c.Anchor("C16.R5", "functions consuming single-flight read results", n >= 3)
}

// runResultCacheUnderPubLock (C19.R6): an idempotent publish is "look up the result cache; on a miss
// append to the stream and store the result". The three steps are atomic only because all of them run
// inside the channel's publish lock; a lookup made before the lock lets two concurrent retries with one
// idempotency key both miss and both append.
func runResultCacheUnderPubLock(c *Ctx) {
	w := c.W
	n := 0
	for _, f := range moduleFuncs(w) {
		for _, ci := range CallsIn(f, false, w.calleeIs("MemoryBroker.getResultFromCache", "MemoryBroker.saveResultToCache", "MemoryMapBroker.getResultFromCache", "MemoryMapBroker.saveResultToCache")) {
			n++
			held := w.Locks().HeldAt(ci)
			ok := false
			for k := range held {
				if k[0] == 'W' && (strings.Contains(k, "pubLock") || strings.Contains(k, "pubLocks")) {
					ok = true
				}
			}
			c.Check("C19.R6", ci, "idempotency result cache accessed under the channel publish lock", ok,
				"lookup, append and store are one atomic step only inside the publish lock: outside it two retries with the same idempotency key both miss and the publication is appended twice (held: "+held.String()+")")
		}
	}
	c.Anchor("C19.R6", "result cache call sites", n >= 6)
}

// runRewindOnlyWhenEmpty (C12.R5): the ring buffer's head==tail is ambiguous (empty or completely full);
// only cnt tells them apart. Resetting both indices to zero is therefore safe only under cnt == 0 — under
// head == tail it also fires on a full ring whose head is not 0 and reorders (rotates) the queued items.
func runRewindOnlyWhenEmpty(c *Ctx) {
	w := c.W
	n := 0
	for _, f := range moduleFuncs(w) {
		for _, st := range storesToField(f, false, "Queue", "tail") {
			if v, ok := constIntOf(st.Val); !ok || v != 0 {
				continue
			}
			if f.Name() == "New" || strings.HasPrefix(f.Name(), "New") {
				continue
			}
			n++
			ok := GuardedBy(st, func(g Guard) bool {
				b, ok := g.Cond.(*ssa.BinOp)
				if !ok {
					return false
				}
				isCnt := func(v ssa.Value) bool { return loadsField(v, "Queue", "cnt") }
				zero := func(v ssa.Value) bool { k, ok := constIntOf(v); return ok && k == 0 }
				one := func(v ssa.Value) bool { k, ok := constIntOf(v); return ok && k == 1 }
				switch {
				case b.Op == token.EQL && g.Pol:
					return (isCnt(b.X) && zero(b.Y)) || (isCnt(b.Y) && zero(b.X))
				case b.Op == token.NEQ && !g.Pol:
					return (isCnt(b.X) && zero(b.Y)) || (isCnt(b.Y) && zero(b.X))
				case b.Op == token.LEQ && g.Pol:
					return isCnt(b.X) && zero(b.Y)
				case b.Op == token.LSS && g.Pol:
					return isCnt(b.X) && one(b.Y)
				case b.Op == token.GTR && !g.Pol:
					return isCnt(b.X) && zero(b.Y)
				}
				return false
			})
			c.Check("C12.R5", st, "ring indices are reset to zero only under cnt == 0", ok,
				"head == tail also holds for a completely full ring: rewinding there rotates the queued items and messages are delivered out of order")
		}
	}
	c.Anchor("C12.R5", "rewinds of Queue.tail", n >= 2)
}

// runDeltaFlagThenFull (C14.R7): flagDeltaAllowed means "this connection holds a base". On the delivery
// path it may therefore be set only by a publication that is then sent in full: from the store that ORs
// the flag into a channel context, every path to a return passes the push write. A flag set before one of
// the drop exits (stale offset, insufficient-state marker, lag) makes the next publication go out as a
// delta against a base the client never received.
func runDeltaFlagThenFull(c *Ctx) {
	w := c.W
	cv, ok := w.ConstInt("centrifuge", "flagDeltaAllowed")
	if !c.Anchor("C14.R7", "constant flagDeltaAllowed", ok) {
		return
	}
	write := w.calleeIs("Client.writeEncodedPushData")
	n := 0
	for _, f := range moduleFuncs(w) {
		// the delivery path: functions that write pushes, and same-package helpers they call to set the flag
		// (an obligation that leaves such a helper through its return continues at the call site)
		onDelivery := len(CallsIn(f, false, write)) > 0
		viaCaller := false
		if !onDelivery {
			for _, site := range w.Callers(f) {
				if p := site.Parent(); p != nil && p.Pkg == f.Pkg && len(CallsIn(p, false, write)) > 0 {
					viaCaller = true
				}
			}
		}
		if !onDelivery && !viaCaller {
			continue
		}
		for _, st := range storesToField(f, false, "ChannelContext", "flags") {
			b, ok := st.Val.(*ssa.BinOp)
			if !ok || b.Op != token.OR {
				continue
			}
			kx, okx := constIntOf(b.X)
			ky, oky := constIntOf(b.Y)
			if !(okx && kx == cv) && !(oky && ky == cv) {
				continue
			}
			n++
			var bad ssa.Instruction
			if onDelivery {
				bad = PathQ{Stop: instrPred(write), Goal: isReturn}.From(st)
			} else {
				bad = w.mustPassUp(st, PathQ{Stop: instrPred(write), Goal: isReturn}, 1)
			}
			c.Check("C14.R7", st, "setting flagDeltaAllowed on the delivery path is followed by the push write on every path", bad == nil,
				"the flag is set by a publication that can still be dropped: the next publication is then sent as a delta although the connection never received a base"+instrAt(w, bad))
		}
	}
	c.Anchor("C14.R7", "delivery-path stores of flagDeltaAllowed", n >= 1)
}

// round3Hooks: further per-property rule functions registered from other files.
var round3Hooks = map[string][]func(*Ctx){}
