package main

import (
	"sort"
	"strings"

	"golang.org/x/tools/go/ssa"
)

// LockSet is a set of "W:<lock descriptor>" / "R:<lock descriptor>".
type LockSet map[string]bool

func (s LockSet) clone() LockSet {
	o := LockSet{}
	for k := range s {
		o[k] = true
	}
	return o
}

func (s LockSet) String() string {
	var ks []string
	for k := range s {
		ks = append(ks, k)
	}
	sort.Strings(ks)
	return "{" + strings.Join(ks, ", ") + "}"
}

// Holds: lock (descriptor suffix match) held for writing, or at least reading when write==false.
func (s LockSet) Holds(lock string, write bool) bool {
	for k := range s {
		if !strings.HasSuffix(k[2:], lock) {
			continue
		}
		// require a boundary before the suffix
		rest := strings.TrimSuffix(k[2:], lock)
		if rest != "" && !strings.HasSuffix(rest, ".") && !strings.HasSuffix(rest, "&") {
			continue
		}
		if k[0] == 'W' || !write {
			return true
		}
	}
	return false
}

func intersect(a, b LockSet) LockSet {
	if a == nil {
		return b.clone()
	}
	o := LockSet{}
	for k := range a {
		if b[k] {
			o[k] = true
		}
	}
	return o
}

// lockEvent classifies a call as lock/unlock of a sync mutex.
func lockEvent(ci ssa.CallInstruction) (kind string, lock string) {
	c := ci.Common()
	if c.IsInvoke() {
		// sync.Locker interface
		if typeShort(c.Value.Type()) == "Locker" {
			switch c.Method.Name() {
			case "Lock":
				return "Lock", stripAmp(D(c.Value))
			case "Unlock":
				return "Unlock", stripAmp(D(c.Value))
			}
		}
		return "", ""
	}
	f := c.StaticCallee()
	if f == nil || f.Signature.Recv() == nil || f.Pkg == nil || f.Pkg.Pkg.Path() != "sync" {
		return "", ""
	}
	rt := typeShort(f.Signature.Recv().Type())
	if rt != "Mutex" && rt != "RWMutex" {
		return "", ""
	}
	if len(c.Args) == 0 {
		return "", ""
	}
	switch f.Name() {
	case "Lock", "Unlock", "RLock", "RUnlock":
		return f.Name(), stripAmp(D(c.Args[0]))
	}
	return "", ""
}

// FuncLocks holds the must-hold lockset before each instruction of one function.
type FuncLocks struct {
	fn     *ssa.Function
	in     map[*ssa.BasicBlock]LockSet
	entry  LockSet
}

func transfer(s LockSet, in ssa.Instruction) {
	call, ok := in.(*ssa.Call)
	if !ok {
		return
	}
	kind, lock := lockEvent(call)
	switch kind {
	case "Lock":
		s["W:"+lock] = true
	case "RLock":
		s["R:"+lock] = true
	case "Unlock":
		delete(s, "W:"+lock)
	case "RUnlock":
		delete(s, "R:"+lock)
	}
}

func computeLocks(fn *ssa.Function, entry LockSet) *FuncLocks {
	fl := &FuncLocks{fn: fn, in: map[*ssa.BasicBlock]LockSet{}, entry: entry}
	if len(fn.Blocks) == 0 {
		return fl
	}
	out := map[*ssa.BasicBlock]LockSet{}
	fl.in[fn.Blocks[0]] = entry.clone()
	changed := true
	for iter := 0; changed && iter < 50; iter++ {
		changed = false
		for _, b := range fn.Blocks {
			var inS LockSet
			if b == fn.Blocks[0] {
				inS = entry.clone()
			} else {
				first := true
				for _, p := range b.Preds {
					po, ok := out[p]
					if !ok {
						continue // TOP
					}
					if first {
						inS = po.clone()
						first = false
					} else {
						inS = intersect(inS, po)
					}
				}
				if first {
					continue // unreachable so far
				}
			}
			fl.in[b] = inS
			o := inS.clone()
			for _, in := range b.Instrs {
				transfer(o, in)
			}
			prev, ok := out[b]
			if !ok || !sameSet(prev, o) {
				out[b] = o
				changed = true
			}
		}
	}
	return fl
}

func sameSet(a, b LockSet) bool {
	if len(a) != len(b) {
		return false
	}
	for k := range a {
		if !b[k] {
			return false
		}
	}
	return true
}

// HeldAt returns the lockset that must be held just before `in` executes.
func (fl *FuncLocks) HeldAt(in ssa.Instruction) LockSet {
	b := in.Block()
	s, ok := fl.in[b]
	if !ok {
		return LockSet{}
	}
	s = s.clone()
	for _, x := range b.Instrs {
		if x == in {
			break
		}
		transfer(s, x)
	}
	return s
}

// HeldAtExits: intersection of locksets at all returns.
func (fl *FuncLocks) HeldAtExits() LockSet {
	var res LockSet
	for _, b := range fl.fn.Blocks {
		if len(b.Instrs) == 0 {
			continue
		}
		if r, ok := b.Instrs[len(b.Instrs)-1].(*ssa.Return); ok {
			res = intersect(res, fl.HeldAt(r))
		}
	}
	if res == nil {
		return LockSet{}
	}
	return res
}

// LockInfo is the module-wide result: per function locks with entry locksets from callers.
type LockInfo struct {
	w     *World
	funcs map[*ssa.Function]*FuncLocks
}

// Locks computes (once) the interprocedural must-hold locksets: entry(f) = ∩ over static call
// sites of the lockset held there; functions whose address is taken, that are started with `go`,
// or that have no module callers get ∅. Deferred direct calls get the lockset at the caller's exits.
func (w *World) Locks() *LockInfo {
	if w.lockInfo != nil {
		return w.lockInfo
	}
	li := &LockInfo{w: w, funcs: map[*ssa.Function]*FuncLocks{}}
	entry := map[*ssa.Function]LockSet{} // nil = TOP (not yet constrained)
	open := map[*ssa.Function]bool{}     // entry forced to ∅
	for _, f := range w.AllFuncs {
		if w.addrTaken[f] || len(w.callers[f]) == 0 {
			open[f] = true
		}
		// closures that escape as values (not only called directly)
		if f.Parent() != nil {
			if closureEscapes(f) {
				open[f] = true
			}
		}
	}
	for iter := 0; iter < 12; iter++ {
		changed := false
		cur := map[*ssa.Function]*FuncLocks{}
		for _, f := range w.AllFuncs {
			e := entry[f]
			if open[f] || e == nil {
				e = LockSet{}
			}
			cur[f] = computeLocks(f, e)
		}
		next := map[*ssa.Function]LockSet{}
		for _, f := range w.AllFuncs {
			if open[f] {
				continue
			}
			var acc LockSet
			for _, ci := range w.callers[f] {
				caller := ci.Parent()
				fl := cur[caller]
				if fl == nil {
					acc = intersect(acc, LockSet{})
					continue
				}
				switch ci.(type) {
				case *ssa.Go:
					// fork-join: a goroutine the spawning function always waits for
					// (WaitGroup.Wait on every path to its exits) runs while the spawner
					// still holds the locks it held at both the `go` and the Wait.
					joined := LockSet{}
					if g, ok := ci.(*ssa.Go); ok {
						var waits []ssa.Instruction
						EachInstr(caller, func(in ssa.Instruction) {
							if c2 := asCall(in); c2 != nil {
								if f := c2.Common().StaticCallee(); f != nil && f.Name() == "Wait" && f.Pkg != nil && f.Pkg.Pkg.Path() == "sync" {
									waits = append(waits, in)
								}
							}
						})
						if len(waits) > 0 {
							isWait := func(in ssa.Instruction) bool {
								for _, wt := range waits {
									if wt == in {
										return true
									}
								}
								return false
							}
							if (PathQ{Stop: isWait, Goal: isReturn}).From(g) == nil {
								joined = fl.HeldAt(g)
								for _, wt := range waits {
									if Reaches(g, wt) {
										joined = intersect(joined, fl.HeldAt(wt))
									}
								}
							}
						}
					}
					acc = intersect(acc, joined)
				case *ssa.Defer:
					acc = intersect(acc, fl.HeldAtExits())
				default:
					acc = intersect(acc, fl.HeldAt(ci))
				}
			}
			if acc == nil {
				acc = LockSet{}
			}
			next[f] = acc
		}
		for f, s := range next {
			if entry[f] == nil || !sameSet(entry[f], s) {
				changed = true
			}
			entry[f] = s
		}
		li.funcs = cur
		if !changed {
			break
		}
	}
	w.lockInfo = li
	return li
}

// closureEscapes: the closure value is used other than as the callee of a direct call/defer.
func closureEscapes(f *ssa.Function) bool {
	p := f.Parent()
	esc := false
	EachInstr(p, func(in ssa.Instruction) {
		mc, ok := in.(*ssa.MakeClosure)
		if !ok || mc.Fn != f {
			return
		}
		refs := mc.Referrers()
		if refs == nil {
			return
		}
		for _, r := range *refs {
			if valueEscapes(mc, r, 0) {
				esc = true
			}
		}
	})
	// a closure without free variables is a plain *ssa.Function value
	if !esc {
		EachInstr(p, func(in ssa.Instruction) {
			var ops [16]*ssa.Value
			if _, isMC := in.(*ssa.MakeClosure); isMC {
				return
			}
			for _, op := range in.Operands(ops[:0]) {
				if op != nil && *op == ssa.Value(f) {
					if ci, ok := in.(ssa.CallInstruction); ok && ci.Common().Value == *op {
						continue
					}
					if st, ok := in.(*ssa.Store); ok {
						if al, ok := st.Addr.(*ssa.Alloc); ok && !cellEscapes(al) {
							continue
						}
					}
					esc = true
				}
			}
		})
	}
	return esc
}

func valueEscapes(v ssa.Value, user ssa.Instruction, depth int) bool {
	switch u := user.(type) {
	case ssa.CallInstruction:
		if u.Common().Value == v {
			// used as callee only?
			for _, a := range u.Common().Args {
				if a == v {
					return true
				}
			}
			return false
		}
		return true
	case *ssa.Store:
		if u.Val != v {
			return false
		}
		if al, ok := u.Addr.(*ssa.Alloc); ok {
			return cellEscapes(al)
		}
		return true
	}
	return true
}

// cellEscapes: a local cell holding a func value is only loaded-and-called.
func cellEscapes(al *ssa.Alloc) bool {
	refs := al.Referrers()
	if refs == nil {
		return false
	}
	var check func(v ssa.Value) bool
	check = func(v ssa.Value) bool {
		rs := v.Referrers()
		if rs == nil {
			return false
		}
		for _, r := range *rs {
			switch x := r.(type) {
			case *ssa.Store:
				if x.Addr != v {
					return true
				}
			case *ssa.UnOp:
				// loaded value: must only be called
				lr := x.Referrers()
				if lr != nil {
					for _, u := range *lr {
						ci, ok := u.(ssa.CallInstruction)
						if !ok || ci.Common().Value != x {
							if _, isDbg := u.(*ssa.DebugRef); isDbg {
								continue
							}
							return true
						}
						for _, a := range ci.Common().Args {
							if a == x {
								return true
							}
						}
					}
				}
			case *ssa.MakeClosure:
				f := x.Fn.(*ssa.Function)
				for i, b := range x.Bindings {
					if b == v {
						if check(f.FreeVars[i]) {
							return true
						}
					}
				}
			case *ssa.DebugRef:
			default:
				return true
			}
		}
		return false
	}
	return check(al)
}

// HeldAt: lockset at instruction, including the function's inferred entry lockset.
func (li *LockInfo) HeldAt(in ssa.Instruction) LockSet {
	fl := li.funcs[in.Parent()]
	if fl == nil {
		return LockSet{}
	}
	return fl.HeldAt(in)
}

func (li *LockInfo) Entry(f *ssa.Function) LockSet {
	fl := li.funcs[f]
	if fl == nil {
		return LockSet{}
	}
	return fl.entry
}
