package main

import (
	"fmt"
	"go/ast"
	"go/constant"
	"go/token"
	"go/types"
	"strings"

	"golang.org/x/tools/go/ssa"
)

func init() {
	register(&PropMeta{
		ID:    "C36",
		Level: "other",
		Explanation: "(R1) every timer operation constant has a case in onTimerOp and is selected by scheduleNextTimer, and every next* deadline that is ever set is consulted by scheduleNextTimer; (R2) the timer fields (timerOp, next*, lastPing, lastSeen) are accessed only under c.mu; " +
			"(R3) the no-pong, stale and expired decisions end in the matching disconnect; (R4) every update of a next* deadline is followed, in the same c.mu critical section, by re-arming the single multiplexed timer (a recorded deadline that is not re-armed silently stops pings, expiry and presence for the connection).",
		NotDecided: "all timing (which deadline fires when).",
		Rules: map[string]string{"C36.R1": "K7 exhaustiveness over timerOp / next* fields", "C36.R2": "K3 lockset", "C36.R3": "K2 decisions", "C36.R4": "K1 must-pass: deadline update … scheduleNextTimer before unlock"},
		Run: runC36,
	})
	register(&PropMeta{
		ID:    "C37",
		Level: "other",
		Explanation: "(R1) every client-command path that reserves a channel tests `subscriptions held + subscriptions loading >= limit` and stores the reservation in the same c.mu critical section, and all those paths count both Client.channels and Client.mapSubscribing; " +
			"(R2) an over-long channel name is rejected before any reservation, connect-time and server-side over-limit disconnect with the channel-limit code; (R3) = C12.R2 (a DisconnectSlow from enqueue always closes).",
		NotDecided: "map subscriptions: their limit test and their reservation are in different critical sections (recorded as a known finding).",
		Rules: map[string]string{"C37.R1": "K3+K2: check-and-reserve atomic; sibling agreement of the counted sets", "C37.R2": "K2 ordering of rejections"},
		Run: runC37,
	})
	register(&PropMeta{
		ID:    "C41",
		Level: "other",
		Explanation: "(R1) the survey response handler never blocks while holding the survey registry lock (non-blocking send) and routes a response only by its id lookup; (R2) results are keyed by the responder's uid (one per node), the collector returns exactly on len(results) == numNodes or context end, and the registry entry is removed on every exit (deferred delete under the lock); (R3) the registry is accessed only under its lock.",
		NotDecided: "that nodes answer; timing of the deadline.",
		Rules: map[string]string{"C41.R1": "K3: no blocking send under surveyMu", "C41.R2": "K2/K1: collector termination and cleanup", "C41.R3": "K3 lockset"},
		Run: runC41,
	})
	register(&PropMeta{
		ID:    "C42",
		Level: "other",
		Explanation: "(R1) for the three pool families (byte buffers, byte-slice lists, queue item buffers) Get indexes its pool with the ceiling log2 of the requested length and Put with the floor log2 of the capacity, Put resets the length (and clears references) before pooling, and Get re-slices pooled values; (R2) the pool arrays have exactly log2(max)+1 entries; (R3) the log helpers are only reached with a non-zero argument or handle zero themselves.",
		NotDecided: "the bit tricks inside the log helpers (value level; covered by R2/R3 only through their use).",
		Rules: map[string]string{"C42.R1": "pairing of Get/Put index helpers and reset-before-Put", "C42.R2": "K8 constant table sizes", "C42.R3": "K2 zero/oversize guards"},
		Run: runC42,
	})
	register(&PropMeta{
		ID:    "C43",
		Level: "other",
		Explanation: "(R1) the limit that reaches the history handler from a client history command is clamped: when a maximum is configured, a negative (unlimited) or larger requested limit is replaced by the maximum; (R2) Node.history rejects reverse iteration since offset zero with ErrorBadRequest before calling the broker; (R3) when the application handler supplies no result, the reply is built from Node.History / Presence / PresenceStats for the event's own channel and filter.",
		NotDecided: "the number of publications the broker returns for a limit (broker semantics, C17/C18).",
		Rules: map[string]string{"C43.R1": "K9 clamp shape", "C43.R2": "K2 guard before the broker call", "C43.R3": "value flow into replies"},
		Run: runC43,
	})
}

func runC36(c *Ctx) {
	w := c.W
	li := w.Locks()
	pkg := w.ByPath[modPath]
	onTimer := c.Fn("C36.R1", "centrifuge", "(*Client).onTimerOp")
	sched := c.Fn("C36.R1", "centrifuge", "(*Client).scheduleNextTimer")
	if pkg != nil && onTimer != nil && sched != nil {
		var ops []*types.Const
		scope := pkg.Types.Scope()
		for _, n := range scope.Names() {
			if k, ok := scope.Lookup(n).(*types.Const); ok && typeShort(k.Type()) == "timerOp" {
				ops = append(ops, k)
			}
		}
		c.Anchor("C36.R1", "timerOp constants", len(ops) >= 5)
		cased := map[int64]bool{}
		EachInstr(onTimer, func(in ssa.Instruction) {
			if b, ok := in.(*ssa.BinOp); ok && b.Op == token.EQL && strings.HasSuffix(D(b.X), "Client.timerOp") {
				if v, isC := constIntOf(b.Y); isC {
					cased[v] = true
				}
			}
		})
		stored := map[int64]bool{}
		for _, st := range w.FieldStores("Client", "timerOp") {
			collectConsts(st.Val, stored, 0)
		}
		for _, k := range ops {
			v, _ := constant.Int64Val(k.Val())
			c.CheckAt("C36.R1", "timerOp "+k.Name()+" handled by onTimerOp", w.Pos(onTimer.Pos()), cased[v], "a scheduled operation without a case is silently dropped")
			// timerOpStale is armed at creation, others by scheduleNextTimer
			c.CheckAt("C36.R1", "timerOp "+k.Name()+" is armed somewhere", w.Pos(sched.Pos()), stored[v], "an operation that is never armed never runs")
		}
		for _, fld := range []string{"nextExpire", "nextPresence", "nextPing", "nextPong"} {
			read := len(fieldsRead([]*ssa.Function{sched}, "Client")) > 0 && fieldsRead([]*ssa.Function{sched}, "Client")[fld]
			c.CheckAt("C36.R1", "scheduleNextTimer consults Client."+fld, w.Pos(sched.Pos()), read, "a deadline that the scheduler ignores never fires")
		}
	}
	// R2
	n := 0
	for _, f := range w.AllFuncs {
		if f.Name() == "NewClient" {
			continue
		}
		for _, fld := range []string{"timerOp", "nextExpire", "nextPresence", "nextPing", "nextPong", "lastPing", "lastSeen"} {
			for _, a := range FieldAccesses(f, "Client", fld) {
				n++
				held := li.HeldAt(a.In)
				c.Check("C36.R2", a.In, "Client."+fld+" "+a.Kind+" under c.mu", held.Holds("Client.mu", a.Write), "timer state raced between the timer goroutine and command handling (held: "+held.String()+"; entry of "+FuncName(f)+": "+li.Entry(f).String()+")")
			}
		}
	}
	c.Floor("C36.R2", 20)
	// R3
	cp := c.Fn("C36.R3", "centrifuge", "(*Client).checkPong")
	if cp != nil {
		okD := false
		EachInstr(cp, func(in ssa.Instruction) {
			ifi, ok := in.(*ssa.If)
			if !ok {
				return
			}
			b, ok := ifi.Cond.(*ssa.BinOp)
			if !ok || b.Op != token.LSS || !strings.Contains(D(b.X), "lastSeen") || !strings.Contains(D(b.Y), "lastPing") {
				return
			}
			hit := PathQ{Goal: func(x ssa.Instruction) bool {
				ci := asCall(x)
				if ci == nil {
					return false
				}
				if cal := w.Callee(ci); cal != nil {
					found := false
					for _, ff := range WithClosures(cal) {
						closes := len(CallsIn(ff, false, w.calleeIs("Client.Disconnect", "Client.close"))) > 0
						EachInstr(ff, func(y ssa.Instruction) {
							// the variadic argument is built in a temporary array: look for the global itself
							var ops [12]*ssa.Value
							for _, op := range y.Operands(ops[:0]) {
								if op != nil && *op != nil {
									if g, ok := (*op).(*ssa.Global); ok && g.Name() == "DisconnectNoPong" && closes {
										found = true
									}
								}
							}
						})
					}
					return found
				}
				return false
			}}.FromBlock(ifi.Block().Succs[0])
			okD = hit != nil
		})
		c.CheckAt("C36.R3", "(*centrifuge.Client).checkPong: no pong since the ping ⇒ DisconnectNoPong", w.Pos(cp.Pos()), okD, "a connection that does not answer a server ping within the pong timeout is disconnected with the no-pong code")
	}
	for _, d := range []struct{ fn, disc, why string }{
		{"(*Client).closeStale", "DisconnectStale", "an unauthenticated connection is closed after the stale delay"},
		{"(*Client).checkExpired", "DisconnectExpired", "a connection past its expiry that was not refreshed is closed with the expired code"},
	} {
		fn := c.Fn("C36.R3", "centrifuge", d.fn)
		if fn == nil {
			continue
		}
		ok := false
		for _, ci := range CallsIn(fn, true, w.calleeIs("Client.close")) {
			for _, a := range ci.Common().Args {
				if strings.Contains(D(a), d.disc) {
					ok = true
				}
			}
		}
		c.CheckAt("C36.R3", d.fn+": closes with "+d.disc, w.Pos(fn.Pos()), ok, d.why)
	}
	ce := w.Func("centrifuge", "(*Client).checkExpired")
	if ce != nil {
		for _, ci := range CallsIn(ce, false, w.calleeIs("Client.close")) {
			okG := Guarded(ci, func(g Guard) bool {
				b, ok := g.Cond.(*ssa.BinOp)
				if !ok {
					return false
				}
				z, isZ := constIntOf(b.Y)
				return isZ && z == 0 && ((b.Op == token.GTR && !g.Pol) || (b.Op == token.LEQ && g.Pol))
			})
			c.Check("C36.R3", ci, "expired close only when no time is left", okG, "a connection refreshed in time must not be closed")
		}
	}
	// R4
	k := 0
	for _, f := range w.AllFuncs {
		for _, ci := range CallsIn(f, false, w.calleeIs("Client.addExpireUpdate", "Client.addPingUpdate", "Client.addPresenceUpdate")) {
			args := ci.Common().Args
			sn, known := boolConst(args[len(args)-1])
			if !known {
				continue
			}
			k++
			if sn {
				c.Check("C36.R4", ci, "deadline update re-arms the timer", true, "")
				continue
			}
			bad := PathQ{Stop: func(in ssa.Instruction) bool {
				x := asCall(in)
				if x == nil {
					return false
				}
				if w.calleeIs("Client.scheduleNextTimer")(x) {
					return true
				}
				if w.calleeIs("Client.addExpireUpdate", "Client.addPingUpdate", "Client.addPresenceUpdate")(x) {
					if v, kn := boolConst(x.Common().Args[len(x.Common().Args)-1]); kn && v {
						return true
					}
				}
				return false
			}, Goal: func(in ssa.Instruction) bool {
				if isReturn(in) {
					return true
				}
				if x := asCall(in); x != nil {
					if kind, l := lockEvent(x); kind == "Unlock" && strings.HasSuffix(l, "Client.mu") {
						return true
					}
				}
				return false
			}}.From(ci)
			c.Check("C36.R4", ci, "a deadline recorded without re-arming is re-armed before c.mu is released", bad == nil, "the connection has one multiplexed timer kept alive only by re-arming: a recorded deadline that is not armed can leave the connection with no timer at all (never expired, never pinged, never checked for pong)")
		}
	}
	c.Floor("C36.R4", 6)
	// direct stores of next* outside the add*Update helpers are followed by scheduling too
	for _, fld := range []string{"nextExpire", "nextPresence", "nextPing", "nextPong"} {
		for _, st := range w.FieldStores("Client", fld) {
			fn := st.Parent()
			if strings.HasPrefix(fn.Name(), "add") || fn.Name() == "NewClient" {
				continue
			}
			bad := PathQ{Stop: instrPred(w.calleeIs("Client.scheduleNextTimer", "Client.addPingUpdate", "Client.addExpireUpdate", "Client.addPresenceUpdate")), Goal: func(in ssa.Instruction) bool {
				if x := asCall(in); x != nil {
					if kind, l := lockEvent(x); kind == "Unlock" && strings.HasSuffix(l, "Client.mu") {
						return true
					}
				}
				return isReturn(in)
			}}.From(st)
			c.Check("C36.R4", st, "direct store of Client."+fld+" followed by re-arming", bad == nil, "a deadline change must re-arm the timer")
		}
	}
}

func collectConsts(v ssa.Value, out map[int64]bool, depth int) {
	if depth > 5 {
		return
	}
	if k, ok := constIntOf(v); ok {
		out[k] = true
		return
	}
	if p, ok := v.(*ssa.Phi); ok {
		for _, e := range p.Edges {
			collectConsts(e, out, depth+1)
		}
	}
}

func runC37(c *Ctx) {
	w := c.W
	type site struct{ fn string }
	for _, s := range []site{{"(*Client).validateSubscribeRequest"}, {"(*Client).handleSharedPollSubscribe"}, {"(*Client).Subscribe"}} {
		fn := c.Fn("C37.R1", "centrifuge", s.fn)
		if fn == nil {
			continue
		}
		// limit comparisons — in the function itself or in the same-package helper it delegates the
		// check-and-reserve step to (the rule is then judged inside that helper)
		var cmps []*ssa.BinOp
		for _, g := range w.Deep(fn, 2).Funcs {
			EachInstr(g, func(in ssa.Instruction) {
				b, ok := in.(*ssa.BinOp)
				if ok && b.Op == token.GEQ && strings.Contains(D(b.Y), "ClientChannelLimit") && strings.Contains(D(b.X), "len(Client.channels)") {
					cmps = append(cmps, b)
				}
			})
			if len(cmps) > 0 {
				fn = g
				break
			}
		}
		if !c.Anchor("C37.R1", "channel-limit comparison in "+s.fn, len(cmps) > 0) {
			continue
		}
		for _, b := range cmps {
			if s.fn != "(*Client).Subscribe" {
				both := strings.Contains(D(b.X), "len(Client.mapSubscribing)")
				c.Check("C37.R1", b, "limit counts held subscriptions and subscriptions still loading", both, "a map subscription that is still paginating occupies a slot: not counting it lets regular subscribes exceed the limit once it goes live")
			}
		}
		// reservation stores in the same critical section as a limit test
		for _, mu := range mapUpdatesOf(fn, false, "Client", "channels") {
			if !isReservationValue(mu.Value) {
				continue
			}
			ok := false
			for _, b := range cmps {
				// the count must be *read* in the critical section of the reservation, not only compared there
				var src ssa.Instruction = b
				if lc, ok := b.X.(*ssa.Call); ok {
					src = lc
				} else if add, ok := b.X.(*ssa.BinOp); ok {
					if lc, ok := add.X.(*ssa.Call); ok {
						src = lc
					}
				}
				if Reaches(b, mu) && unlockBetween(fn, src, mu, "Client.mu") == nil {
					// the reservation is on the not-over-limit edge
					// `limit > 0 && n >= limit`: under-limit means the ≥ test failed or no limit is configured
					if Guarded(mu, func(g Guard) bool {
						if g.Cond == ssa.Value(b) && !g.Pol {
							return true
						}
						if lb, ok := g.Cond.(*ssa.BinOp); ok && lb.Op == token.GTR && !g.Pol && strings.Contains(D(lb.X), "ClientChannelLimit") {
							if z, isZ := constIntOf(lb.Y); isZ && z == 0 {
								return true
							}
						}
						return false
					}) {
						ok = true
					}
				}
			}
			c.Check("C37.R1", mu, "reservation stored in the critical section of its limit test, on the under-limit edge", ok, "checking the limit and reserving in separate critical sections lets concurrent subscribes both pass the test")
		}
	}
	c.Floor("C37.R1", 6)
	// map path: the known non-atomic case
	vs := w.Func("centrifuge", "(*Client).validateSubscribeRequest")
	msp := w.Func("centrifuge", "(*Client).handleMapStatePhase")
	if vs != nil && msp != nil {
		reserves := len(mapUpdatesOf(msp, true, "Client", "mapSubscribing")) > 0
		inValidate := len(mapUpdatesOf(vs, false, "Client", "mapSubscribing")) > 0
		c.CheckAt("C37.R1", "map subscribe: limit test and mapSubscribing reservation in one critical section", w.Pos(msp.Pos()), !(reserves && !inValidate),
			"validateSubscribeRequest tests the limit and releases c.mu; the reservation is stored later by the map state phase: two initial map subscribes for different channels can both pass the test at limit-1")
	}
	// R2
	if vs != nil {
		okLen := false
		EachInstr(vs, func(in ssa.Instruction) {
			ifi, ok := in.(*ssa.If)
			if !ok {
				return
			}
			b, ok := ifi.Cond.(*ssa.BinOp)
			if !ok || b.Op != token.GTR || !strings.Contains(D(b.X), "len(") || !strings.Contains(D(b.Y), "ChannelMaxLength") {
				return
			}
			// true edge returns ErrorBadRequest and reaches no reservation
			bad := PathQ{Goal: func(x ssa.Instruction) bool {
				mu, isMU := x.(*ssa.MapUpdate)
				return isMU && (loadsField(mu.Map, "Client", "channels") || loadsField(mu.Map, "Client", "mapSubscribing"))
			}}.FromBlock(ifi.Block().Succs[0])
			rets := PathQ{Goal: func(x ssa.Instruction) bool {
				r, ok := x.(*ssa.Return)
				if !ok {
					return false
				}
				vals := retVals(r)
				return len(vals) == 3 && !strings.Contains(D(vals[1]), "ErrorBadRequest")
			}}.FromBlock(ifi.Block().Succs[0])
			okLen = bad == nil && rets == nil
		})
		c.CheckAt("C37.R2", "(*centrifuge.Client).validateSubscribeRequest: over-long channel rejected with bad request before any reservation", w.Pos(vs.Pos()), okLen, "client subscribe requests for over-long channel names are rejected")
	}
	cc := w.Func("centrifuge", "(*Client).connectCmd")
	if cc != nil {
		ok := false
		EachInstr(cc, func(in ssa.Instruction) {
			r, isR := in.(*ssa.Return)
			if !isR {
				return
			}
			vals := retVals(r)
			if len(vals) == 1 && strings.Contains(D(vals[0]), "DisconnectChannelLimit") {
				if Guarded(r, func(g Guard) bool {
					b, ok := g.Cond.(*ssa.BinOp)
					return ok && g.Pol && b.Op == token.GTR && strings.HasPrefix(D(b.X), "len(")
				}) {
					ok = true
				}
			}
		})
		c.CheckAt("C37.R2", "(*centrifuge.Client).connectCmd: too many connect-time subscriptions ⇒ DisconnectChannelLimit", w.Pos(cc.Pos()), ok, "server-side over-limit disconnects")
	}
	cs := w.Func("centrifuge", "(*Client).Subscribe")
	if cs != nil {
		ok := false
		for _, f := range WithClosures(cs) {
			for _, ci := range CallsIn(f, false, w.calleeIs("Client.close")) {
				for _, a := range ci.Common().Args {
					if strings.Contains(D(a), "DisconnectChannelLimit") {
						ok = true
					}
				}
			}
		}
		c.CheckAt("C37.R2", "(*centrifuge.Client).Subscribe: server-side over-limit closes with DisconnectChannelLimit", w.Pos(cs.Pos()), ok, "server-side over-limit disconnects")
	}
}

func runC41(c *Ctx) {
	w := c.W
	li := w.Locks()
	hs := c.Fn("C41.R1", "centrifuge", "(*Node).handleSurveyResponse")
	if hs != nil {
		n := 0
		EachInstr(hs, func(in ssa.Instruction) {
			switch x := in.(type) {
			case *ssa.Send:
				n++
				c.Check("C41.R1", x, "no blocking channel send while the survey registry lock is held", !li.HeldAt(x).Holds("Node.surveyMu", false), "a late or duplicate response would block every other survey (and the control handler) behind the registry lock")
			case *ssa.Select:
				n++
				hasSend := false
				for _, st := range x.States {
					if st.Dir == types.SendOnly {
						hasSend = true
					}
				}
				if hasSend {
					c.Check("C41.R1", x, "send to the collector is non-blocking (select with default)", !x.Blocking, "a late or foreign response must never block")
				}
			}
		})
		c.Anchor("C41.R1", "send to the survey collector in handleSurveyResponse", n > 0)
		// routed only by id lookup
		okLookup := false
		EachInstr(hs, func(in ssa.Instruction) {
			if lk, ok := in.(*ssa.Lookup); ok && strings.HasSuffix(D(lk.X), "Node.surveyRegistry") && strings.HasSuffix(D(lk.Index), "SurveyResponse.Id") {
				okLookup = true
			}
		})
		c.CheckAt("C41.R1", "(*centrifuge.Node).handleSurveyResponse: response routed by its survey id", w.Pos(hs.Pos()), okLookup, "responses for surveys this node did not issue must be dropped")
	}
	sv := c.Fn("C41.R2", "centrifuge", "(*Node).Survey")
	if sv != nil {
		// registry delete deferred
		deferredDelete := false
		for _, f := range WithClosures(sv) {
			if f == sv {
				continue
			}
			if len(mapDeletesOf(f, false, "Node", "surveyRegistry")) > 0 {
				for _, ci := range w.Callers(f) {
					if _, isDefer := ci.(*ssa.Defer); isDefer {
						deferredDelete = true
					}
				}
			}
		}
		c.CheckAt("C41.R2", "(*centrifuge.Node).Survey: registry entry removed on every exit (deferred)", w.Pos(sv.Pos()), deferredDelete, "a leaked registry entry keeps receiving responses for a finished survey")
		// collector: results keyed by uid; terminates on len == numNodes or ctx.Done
		okKey, okTerm, okCtx := false, false, false
		for _, f := range WithClosures(sv) {
			EachInstr(f, func(in ssa.Instruction) {
				if mu, ok := in.(*ssa.MapUpdate); ok && strings.HasSuffix(D(mu.Key), ".UID") {
					okKey = true
				}
				if b, ok := in.(*ssa.BinOp); ok && b.Op == token.EQL && strings.HasPrefix(D(b.X), "len(") && strings.Contains(D(b.Y), "numNodes") {
					okTerm = true
				}
				if s, ok := in.(*ssa.Select); ok {
					for _, st := range s.States {
						if strings.Contains(D(st.Chan), "Done()") {
							okCtx = true
						}
					}
				}
			})
		}
		c.CheckAt("C41.R2", "(*centrifuge.Node).Survey: one result per responder uid", w.Pos(sv.Pos()), okKey, "at most one result per responding node")
		c.CheckAt("C41.R2", "(*centrifuge.Node).Survey: returns as soon as every expected node answered", w.Pos(sv.Pos()), okTerm, "the collector must stop at len(results) == numNodes")
		c.CheckAt("C41.R2", "(*centrifuge.Node).Survey: returns when the deadline passes", w.Pos(sv.Pos()), okCtx, "the collector must stop on ctx.Done()")
		// channel buffered with numNodes so local handler replies never block
		okBuf := false
		EachInstr(sv, func(in ssa.Instruction) {
			if mc, ok := in.(*ssa.MakeChan); ok && strings.Contains(D(mc.Size), "numNodes") {
				okBuf = true
			}
		})
		c.CheckAt("C41.R2", "(*centrifuge.Node).Survey: collector channel sized by the number of expected answers", w.Pos(sv.Pos()), okBuf, "an unbuffered collector channel blocks the local survey handler")
	}
	// R3
	k := 0
	for _, f := range w.AllFuncs {
		if f.Name() == "New" {
			continue
		}
		for _, fld := range []string{"surveyRegistry", "surveyID"} {
			for _, a := range FieldAccesses(f, "Node", fld) {
				k++
				held := li.HeldAt(a.In)
				c.Check("C41.R3", a.In, "Node."+fld+" "+a.Kind+" under surveyMu", held.Holds("Node.surveyMu", a.Write), "survey registry raced (held: "+held.String()+")")
			}
		}
	}
	c.Floor("C41.R3", 4)
}

func runC42(c *Ctx) {
	w := c.W
	type fam struct{ pkg, get, put, ceil, floor, pools, max string }
	fams := []fam{
		{"internal/bpool", "GetByteBuffer", "PutByteBuffer", "nextLogBase2", "prevLogBase2", "pools", "maxBufferLength"},
		{"internal/bpool", "GetByteSlicesBuf", "PutByteSlicesBuf", "nextLogBase2ByteSlices", "prevLogBase2ByteSlices", "byteSlicesBufPools", "maxByteSlicesBufLength"},
		{"centrifuge", "getItemBuf", "putItemBuf", "nextLogBase2", "prevLogBase2", "itemBufPools", "maxItemBufLength"},
	}
	for _, f := range fams {
		get := c.Fn("C42.R1", f.pkg, f.get)
		put := c.Fn("C42.R1", f.pkg, f.put)
		if get == nil || put == nil {
			continue
		}
		poolGet := CallsIn(get, false, w.calleeIs("Pool.Get"))
		poolPut := CallsIn(put, false, w.calleeIs("Pool.Put"))
		if !c.Anchor("C42.R1", "sync.Pool Get/Put in "+f.get+"/"+f.put, len(poolGet) == 1 && len(poolPut) == 1) {
			continue
		}
		gd := D(poolGet[0].Common().Args[0])
		pd := D(poolPut[0].Common().Args[0])
		c.Check("C42.R1", poolGet[0], f.get+" indexes its pool with the ceiling log2 of the requested length", strings.Contains(gd, f.pools+"[") && strings.Contains(gd, f.ceil+"("), "a pool class below the request hands out an undersized buffer (index: "+gd+")")
		// on every path (every phi edge of the index) the class is computed from the current capacity
		floorOfCap := func(v ssa.Value) bool {
			d := D(v)
			return strings.Contains(d, f.floor+"(") && strings.Contains(d, "cap(") && !strings.Contains(d, "φ(")
		}
		putIdxOK := strings.Contains(pd, f.pools+"[")
		if ia, ok := poolPut[0].Common().Args[0].(*ssa.IndexAddr); ok {
			putIdxOK = putIdxOK && everyPhiEdge(ia.Index, floorOfCap, 0)
		} else {
			putIdxOK = putIdxOK && strings.Contains(pd, f.floor+"(") && strings.Contains(pd, "cap(") && !strings.Contains(pd, "φ(")
		}
		c.Check("C42.R1", poolPut[0], f.put+" files a buffer under the floor log2 of its capacity", putIdxOK, "filing a buffer one class too high hands it out later for a larger request than it can hold; the class must come from the capacity the buffer has now, on every path (index: "+pd+")")
		// reset before Put
		reset := false
		EachInstr(put, func(in ssa.Instruction) {
			if !Precedes(in, poolPut[0]) {
				return
			}
			if ci := asCall(in); ci != nil && strings.HasSuffix(calleeName(ci.Common()), ".Reset") {
				reset = true
			}
			if st, ok := in.(*ssa.Store); ok {
				if sl, ok := st.Val.(*ssa.Slice); ok && sl.Low == nil {
					if z, isZ := constIntOf(sl.High); isZ && z == 0 {
						reset = true
					}
				}
			}
		})
		c.Check("C42.R1", poolPut[0], f.put+" empties the buffer before pooling it", reset, "a pooled buffer that keeps its length is handed out dirty")
		// oversize / zero dropped
		okDrop := Guarded(poolPut[0], func(g Guard) bool {
			b, ok := g.Cond.(*ssa.BinOp)
			if !ok || !strings.Contains(D(b.X), "cap(") || !strings.Contains(D(b.Y), fmt.Sprint(mustConst(w, f.pkg, f.max))) {
				return false
			}
			// `cap > max` not taken, or its complement `cap <= max` taken
			return (!g.Pol && b.Op == token.GTR) || (g.Pol && b.Op == token.LEQ)
		})
		c.Check("C42.R3", poolPut[0], f.put+" drops zero-capacity and oversized buffers before indexing", okDrop, "indexing with an out-of-range class panics or pollutes a pool")
		okOver := Guarded(poolGet[0], func(g Guard) bool {
			b, ok := g.Cond.(*ssa.BinOp)
			return ok && !g.Pol && b.Op == token.GTR && strings.Contains(D(b.Y), fmt.Sprint(mustConst(w, f.pkg, f.max)))
		})
		c.Check("C42.R3", poolGet[0], f.get+" serves oversized requests without the pool", okOver, "an oversized request must not index the pool array")
		// Get re-slices pooled values (or Put guarantees emptiness: byte buffer case)
		// fresh allocation has capacity 1<<idx
		okFresh := false
		EachInstr(get, func(in ssa.Instruction) {
			if ms, ok := in.(*ssa.MakeSlice); ok && strings.Contains(D(ms.Cap), "(1 << ") {
				okFresh = true
			}
		})
		c.Check("C42.R1", poolGet[0], f.get+" allocates a full size class on a pool miss", okFresh, "a fresh buffer smaller than its class is later handed out for the class's largest request")
		// R2 array length
		p := w.ByPath[longPkg(f.pkg)]
		if p != nil {
			if v, ok := p.Types.Scope().Lookup(f.pools).(*types.Var); ok {
				if at, ok := v.Type().Underlying().(*types.Array); ok {
					max := mustConst(w, f.pkg, f.max)
					lg := int64(0)
					for x := max; x > 1; x >>= 1 {
						lg++
					}
					c.CheckAt("C42.R2", f.pkg+"."+f.pools+": one pool per size class up to the maximum", f.pkg, at.Len() == lg+1 && (int64(1)<<lg) == max, fmt.Sprintf("len=%d, max=%d (2^%d)", at.Len(), max, lg))
				}
			}
		}
	}
	c.Floor("C42.R1", 12)
	_ = ast.Inspect
}

func mustConst(w *World, pkg, name string) int64 {
	v, _ := w.ConstInt(pkg, name)
	return v
}

func runC43(c *Ctx) {
	w := c.W
	hh := c.Fn("C43.R1", "centrifuge", "(*Client).handleHistory")
	if hh != nil {
		// stores of historyFilter.Limit: the last one on every path is the clamped one
		var clampIf *ssa.If
		EachInstr(hh, func(in ssa.Instruction) {
			ifi, ok := in.(*ssa.If)
			if !ok {
				return
			}
			d := D(ifi.Cond)
			if strings.Contains(d, "HistoryMaxPublicationLimit") && strings.Contains(d, "> 0") {
				clampIf = ifi
			}
		})
		if c.Anchor("C43.R1", "`HistoryMaxPublicationLimit > 0` test in handleHistory", clampIf != nil) {
			// on the max>0 edge: a test for negative limit and a test limit > max, both leading to the store Limit = max
			var negOK, bigOK, storeOK bool
			EachInstr(hh, func(in ssa.Instruction) {
				if b, ok := in.(*ssa.BinOp); ok {
					if b.Op == token.LSS && strings.HasSuffix(D(b.X), ".Limit") {
						if z, isZ := constIntOf(b.Y); isZ && z == 0 {
							negOK = true
						}
					}
					if b.Op == token.GTR && strings.HasSuffix(D(b.X), ".Limit") && strings.Contains(D(b.Y), "HistoryMaxPublicationLimit") {
						bigOK = true
					}
				}
				if st, ok := in.(*ssa.Store); ok {
					if fa, ok := st.Addr.(*ssa.FieldAddr); ok && fieldAddrIs(fa, "HistoryFilter", "Limit") && strings.Contains(D(st.Val), "HistoryMaxPublicationLimit") {
						if GuardedBy(st, func(g Guard) bool { return g.If == clampIf && g.Pol }) {
							storeOK = true
						}
					}
				}
			})
			c.Check("C43.R1", clampIf, "an unlimited (negative) requested limit is replaced by the maximum", negOK && storeOK, "a client history request never returns more publications than the configured maximum: limit -1 means no limit and must be clamped")
			c.Check("C43.R1", clampIf, "a requested limit above the maximum is replaced by the maximum", bigOK && storeOK, "a larger requested limit must be clamped")
			// the filter handed to the handler/event is the clamped one: the event is built after the clamp
			okOrder := false
			EachInstr(hh, func(in ssa.Instruction) {
				if st, ok := in.(*ssa.Store); ok {
					if fa, ok := st.Addr.(*ssa.FieldAddr); ok && fieldAddrIs(fa, "HistoryEvent", "Filter") && Reaches(clampIf, st) {
						okOrder = true
					}
				}
			})
			c.Check("C43.R1", clampIf, "the clamped filter is the one the history event carries", okOrder, "clamping after the event was built has no effect")
		}
		// R3 history: Node.History called with the event's channel and filter
		for _, f := range WithClosures(hh) {
			for _, ci := range CallsIn(f, false, w.calleeIs("Node.History")) {
				args := ci.Common().Args
				c.Check("C43.R3", ci, "default history result is Node.History for the event's channel and filter", strings.Contains(D(args[1]), "HistoryEvent.Channel") || strings.Contains(D(args[1]), "Channel"), "the reply must equal the node-level result for the effective filter")
				okF := false
				for _, w2 := range CallsIn(f, false, w.calleeIs("WithHistoryFilter")) {
					if strings.Contains(D(w2.Common().Args[0]), "Filter") {
						okF = true
					}
				}
				c.Check("C43.R3", ci, "default history uses the event's (clamped) filter", okF, "a different filter returns a different result")
			}
		}
	}
	hist := c.Fn("C43.R2", "centrifuge", "(*Node).history")
	if hist != nil {
		for _, bc := range CallsIn(hist, false, func(ci ssa.CallInstruction) bool {
			return ci.Common().IsInvoke() && ci.Common().Method.Name() == "History"
		}) {
			// every path to the broker call passes the reverse/since-zero test's false outcome
			okG := PathGuarded(bc, func(g Guard) bool {
				d := D(g.Cond)
				if strings.HasSuffix(d, "Filter.Reverse") && !g.Pol {
					return true
				}
				if b, ok := g.Cond.(*ssa.BinOp); ok {
					if strings.HasSuffix(D(b.X), "Filter.Since") && isNilConst(b.Y) && ((b.Op == token.NEQ && !g.Pol) || (b.Op == token.EQL && g.Pol)) {
						return true
					}
					if z, isZ := constIntOf(b.Y); isZ && z == 0 && strings.HasSuffix(D(b.X), "Since.Offset") && ((b.Op == token.EQL && !g.Pol) || (b.Op == token.NEQ && g.Pol)) {
						return true
					}
				}
				return false
			})
			c.Check("C43.R2", bc, "reverse since offset zero never reaches the broker", okG, "a reverse request since offset zero is rejected as a bad request")
		}
		okRet := false
		EachInstr(hist, func(in ssa.Instruction) {
			if r, ok := in.(*ssa.Return); ok {
				vals := retVals(r)
				if len(vals) == 2 && strings.Contains(D(vals[1]), "ErrorBadRequest") {
					okRet = true
				}
			}
		})
		c.CheckAt("C43.R2", "(*centrifuge.Node).history: rejects with ErrorBadRequest", w.Pos(hist.Pos()), okRet, "bad request expected")
	}
	for _, p := range []struct{ fn, call string }{{"(*Client).handlePresence", "Node.Presence"}, {"(*Client).handlePresenceStats", "Node.PresenceStats"}} {
		fn := c.Fn("C43.R3", "centrifuge", p.fn)
		if fn == nil {
			continue
		}
		n := 0
		for _, f := range WithClosures(fn) {
			for _, ci := range CallsIn(f, false, w.calleeIs(p.call)) {
				n++
				okG := Guarded(ci, func(g Guard) bool {
					b, ok := g.Cond.(*ssa.BinOp)
					return ok && strings.HasSuffix(D(b.X), "Reply.Result") && isNilConst(b.Y) && ((b.Op == token.EQL && g.Pol) || (b.Op == token.NEQ && !g.Pol))
				})
				c.Check("C43.R3", ci, p.call+" supplies the reply when the handler gave no result", okG, "presence replies equal the node-level results")
			}
		}
		c.Anchor("C43.R3", p.call+" call in "+p.fn, n > 0)
	}
}
