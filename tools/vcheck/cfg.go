package main

import (
	"go/token"
	"strings"

	"golang.org/x/tools/go/ssa"
)

func instrIndex(in ssa.Instruction) int {
	b := in.Block()
	for i, x := range b.Instrs {
		if x == in {
			return i
		}
	}
	return -1
}

// Precedes: a executes before b on every path that reaches b (a dominates b).
func Precedes(a, b ssa.Instruction) bool {
	if a.Parent() != b.Parent() {
		return false
	}
	if a.Block() == b.Block() {
		return instrIndex(a) < instrIndex(b)
	}
	return a.Block().Dominates(b.Block())
}

// Guard is one dominating branch condition with the polarity under which the site is reached.
type Guard struct {
	If   *ssa.If
	Cond ssa.Value
	Pol  bool
}

func (g Guard) String() string {
	s := D(g.Cond)
	if !g.Pol {
		return "!" + s
	}
	return s
}

// edgeDominates: does the edge from→to dominate block blk?
func edgeDominates(from, to, blk *ssa.BasicBlock) bool {
	if !to.Dominates(blk) {
		return false
	}
	for _, p := range to.Preds {
		if p == from {
			continue
		}
		if !to.Dominates(p) {
			return false
		}
	}
	// the edge must be unique: both succs equal would be degenerate
	return true
}

// GuardsOfBlock lists the branch edges dominating blk (nearest first).
func GuardsOfBlock(blk *ssa.BasicBlock) []Guard {
	var out []Guard
	for d := blk; d != nil; d = d.Idom() {
		// examine edges into d from its idom chain: for each If block that dominates blk
		_ = d
	}
	// walk all dominators of blk and check their If terminators
	for d := blk.Idom(); d != nil; d = d.Idom() {
		if len(d.Instrs) == 0 {
			continue
		}
		ifi, ok := d.Instrs[len(d.Instrs)-1].(*ssa.If)
		if !ok || len(d.Succs) != 2 || d.Succs[0] == d.Succs[1] {
			continue
		}
		if edgeDominates(d, d.Succs[0], blk) {
			out = append(out, Guard{ifi, ifi.Cond, true})
		} else if edgeDominates(d, d.Succs[1], blk) {
			out = append(out, Guard{ifi, ifi.Cond, false})
		}
	}
	// blk itself may be a loop header whose own If guards later iterations; not a guard of itself.
	return out
}

// Guards lists branch edges dominating an instruction, with boolean structure flattened:
// !x flips polarity; φ of constants is resolved one level (see phiGuards).
func Guards(in ssa.Instruction) []Guard {
	gs := GuardsOfBlock(in.Block())
	var out []Guard
	for _, g := range gs {
		out = append(out, normGuard(g, 0)...)
	}
	return out
}

func normGuard(g Guard, depth int) []Guard {
	if depth > 4 {
		return []Guard{g}
	}
	switch c := g.Cond.(type) {
	case *ssa.UnOp:
		if c.Op == token.NOT {
			return normGuard(Guard{g.If, c.X, !g.Pol}, depth+1)
		}
		if c.Op == token.MUL {
			if s := singleStore(c.X); s != nil {
				return append([]Guard{g}, normGuard(Guard{g.If, s, g.Pol}, depth+1)...)
			}
		}
	case *ssa.Phi:
		// boolean flag variable: φ of constants and conditions. The edges on which the φ
		// takes a value compatible with the polarity tell which guards hold.
		out := []Guard{g}
		out = append(out, phiGuards(c, g.Pol, depth)...)
		return out
	}
	return []Guard{g}
}

// phiGuards: for `if φ(e1..en)` with polarity pol, the incoming edges whose value can equal pol.
// If exactly one edge is compatible, the guards of that predecessor block (plus the edge into the φ
// block, plus the edge value itself when it is a condition) hold.
func phiGuards(p *ssa.Phi, pol bool, depth int) []Guard {
	blk := p.Block()
	var compat []int
	for i, e := range p.Edges {
		if c, ok := e.(*ssa.Const); ok && c.Value != nil {
			if (c.Value.ExactString() == "true") == pol {
				compat = append(compat, i)
			}
			continue
		}
		compat = append(compat, i)
	}
	if len(compat) == 0 {
		return nil
	}
	// intersect guards over compatible edges
	var sets [][]Guard
	for _, i := range compat {
		pred := blk.Preds[i]
		gs := GuardsOfBlock(pred)
		// edge pred→blk
		if len(pred.Instrs) > 0 {
			if ifi, ok := pred.Instrs[len(pred.Instrs)-1].(*ssa.If); ok && len(pred.Succs) == 2 && pred.Succs[0] != pred.Succs[1] {
				gs = append(gs, Guard{ifi, ifi.Cond, pred.Succs[0] == blk})
			}
		}
		var flat []Guard
		for _, g := range gs {
			flat = append(flat, normGuard(g, depth+1)...)
		}
		if _, isConst := p.Edges[i].(*ssa.Const); !isConst {
			flat = append(flat, normGuard(Guard{nil, p.Edges[i], pol}, depth+1)...)
		}
		sets = append(sets, flat)
	}
	res := sets[0]
	for _, s := range sets[1:] {
		var keep []Guard
		for _, g := range res {
			for _, h := range s {
				if g.Cond == h.Cond && g.Pol == h.Pol {
					keep = append(keep, g)
					break
				}
			}
		}
		res = keep
	}
	return res
}

// GuardedBy reports whether some dominating guard of `in` satisfies pred.
func GuardedBy(in ssa.Instruction, pred func(g Guard) bool) bool {
	for _, g := range Guards(in) {
		if pred(g) {
			return true
		}
	}
	return false
}

// GuardStrings is for evidence/debug.
func GuardStrings(in ssa.Instruction) []string {
	var out []string
	for _, g := range Guards(in) {
		out = append(out, g.String())
	}
	return out
}

// descGuard builds a predicate: descriptor contains all of the substrings and polarity matches.
func descGuard(pol bool, subs ...string) func(Guard) bool {
	return func(g Guard) bool {
		if g.Pol != pol {
			return false
		}
		d := D(g.Cond)
		for _, s := range subs {
			if !strings.Contains(d, s) {
				return false
			}
		}
		return true
	}
}

// ---- path queries ----------------------------------------------------------------------------

// PathAvoiding searches for a path from just after `from` to an instruction matching `goal`
// that does not execute any instruction matching `stop`. It returns the offending goal
// instruction, or nil if every path is stopped first. Deferred calls are treated as executing at
// RunDefers: if a Defer matching stop has been executed on the path (or dominates from), the path
// is considered stopped at the next RunDefers/exit.
func PathAvoiding(from ssa.Instruction, stop func(ssa.Instruction) bool, goal func(ssa.Instruction) bool) ssa.Instruction {
	fn := from.Parent()
	// A matching Defer that dominates `from` covers all exits.
	for _, b := range fn.Blocks {
		for _, in := range b.Instrs {
			if d, ok := in.(*ssa.Defer); ok && stop(d) && Precedes(d, from) {
				return nil
			}
		}
	}
	visited := map[*ssa.BasicBlock]bool{}
	var walk func(b *ssa.BasicBlock, start int) ssa.Instruction
	walk = func(b *ssa.BasicBlock, start int) ssa.Instruction {
		for i := start; i < len(b.Instrs); i++ {
			in := b.Instrs[i]
			if stop(in) {
				return nil
			}
			if goal(in) {
				return in
			}
		}
		for _, s := range b.Succs {
			if visited[s] {
				continue
			}
			visited[s] = true
			if r := walk(s, 0); r != nil {
				return r
			}
		}
		return nil
	}
	return walk(from.Block(), instrIndex(from)+1)
}

// PathFromEntryAvoiding: same from function entry.
func PathFromEntryAvoiding(fn *ssa.Function, stop func(ssa.Instruction) bool, goal func(ssa.Instruction) bool) ssa.Instruction {
	if len(fn.Blocks) == 0 {
		return nil
	}
	visited := map[*ssa.BasicBlock]bool{fn.Blocks[0]: true}
	var walk func(b *ssa.BasicBlock) ssa.Instruction
	walk = func(b *ssa.BasicBlock) ssa.Instruction {
		for _, in := range b.Instrs {
			if stop(in) {
				return nil
			}
			if goal(in) {
				return in
			}
		}
		for _, s := range b.Succs {
			if visited[s] {
				continue
			}
			visited[s] = true
			if r := walk(s); r != nil {
				return r
			}
		}
		return nil
	}
	return walk(fn.Blocks[0])
}

// PathFromEdge: search from the start of block `to` (used for "on the true edge of X …").
func PathFromBlockAvoiding(start *ssa.BasicBlock, stop func(ssa.Instruction) bool, goal func(ssa.Instruction) bool) ssa.Instruction {
	visited := map[*ssa.BasicBlock]bool{start: true}
	var walk func(b *ssa.BasicBlock) ssa.Instruction
	walk = func(b *ssa.BasicBlock) ssa.Instruction {
		for _, in := range b.Instrs {
			if stop(in) {
				return nil
			}
			if goal(in) {
				return in
			}
		}
		for _, s := range b.Succs {
			if visited[s] {
				continue
			}
			visited[s] = true
			if r := walk(s); r != nil {
				return r
			}
		}
		return nil
	}
	return walk(start)
}

func isReturn(in ssa.Instruction) bool {
	_, ok := in.(*ssa.Return)
	return ok
}

func isExit(in ssa.Instruction) bool {
	switch in.(type) {
	case *ssa.Return:
		return true
	}
	return false
}

// Reaches: can control flow from a reach b (b after a on some path)?
func Reaches(a, b ssa.Instruction) bool {
	if a.Parent() != b.Parent() {
		return false
	}
	return PathAvoiding(a, func(ssa.Instruction) bool { return false }, func(in ssa.Instruction) bool { return in == b }) != nil
}

// EachInstr visits every instruction of fn.
func EachInstr(fn *ssa.Function, f func(in ssa.Instruction)) {
	if fn == nil {
		return
	}
	for _, b := range fn.Blocks {
		for _, in := range b.Instrs {
			f(in)
		}
	}
}

// WithClosures returns fn and all nested anonymous functions.
func WithClosures(fn *ssa.Function) []*ssa.Function {
	if fn == nil {
		return nil
	}
	out := []*ssa.Function{fn}
	for _, a := range fn.AnonFuncs {
		out = append(out, WithClosures(a)...)
	}
	return out
}
