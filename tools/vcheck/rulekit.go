package main

import (
	"fmt"
	"go/constant"
	"go/token"
	"go/types"
	"sort"
	"strings"

	"golang.org/x/tools/go/ssa"
)

// PathQ is a path query over one function's CFG.
//   Stop: instructions that end a path harmlessly; Goal: instructions that must not be reached
//   without passing a Stop; Edge: optional filter of CFG edges (path-sensitivity on parameters).
type PathQ struct {
	Stop func(ssa.Instruction) bool
	Goal func(ssa.Instruction) bool
	Edge func(b *ssa.BasicBlock, succIdx int) bool
	// EdgeCond, when set, is asked for every conditional edge with the branch condition resolved
	// through negations and boolean flag variables (φ of a condition) and the outcome taken;
	// returning false prunes the edge.
	EdgeCond func(cond ssa.Value, outcome bool) bool
	// GoalEnv, when set, receives the tracked boolean environment (flag φs and cells with a known value)
	// at the moment a Goal is reached — used to carry a helper's constant result to its call site.
	GoalEnv *map[ssa.Value]bool
}

// walk explores paths with a small path-sensitive environment: boolean φ-nodes whose incoming
// value on the taken edge is a constant (flag variables such as removedNow / reservationLost) and
// boolean local cells assigned constants are tracked, and an `if` on a tracked value only follows
// the consistent successor. States are (block, environment); the search is bounded.
func (q PathQ) walk(b *ssa.BasicBlock, start int, _ map[*ssa.BasicBlock]bool) ssa.Instruction {
	st := &walkState{q: q, seen: map[string]bool{}}
	return st.run(b, start, map[ssa.Value]bool{}, map[ssa.Value]ssa.Value{})
}

type walkState struct {
	q     PathQ
	seen  map[string]bool
	steps int
	rep   map[string]ssa.Value // pure condition key → representative condition value
}

// pureCondKey: a comparison whose operands only read constants, parameters and fields of by-value
// parameter structs that the function never writes. Such a condition has one outcome per call.
func pureCondKey(cond ssa.Value) (string, bool) {
	b, ok := cond.(*ssa.BinOp)
	if !ok {
		return "", false
	}
	switch b.Op {
	case token.LSS, token.GTR, token.LEQ, token.GEQ, token.EQL, token.NEQ:
	default:
		return "", false
	}
	if !pureOperand(b.X, 0) || !pureOperand(b.Y, 0) {
		return "", false
	}
	return D(cond), true
}

func pureOperand(v ssa.Value, depth int) bool {
	if depth > 6 {
		return false
	}
	switch x := v.(type) {
	case *ssa.Const:
		return true
	case *ssa.Parameter:
		// scalars only: a pointer/map/slice parameter can be mutated behind the analysis' back
		switch x.Type().Underlying().(type) {
		case *types.Basic:
			return true
		}
		return false
	case *ssa.Convert:
		return pureOperand(x.X, depth+1)
	case *ssa.BinOp:
		return pureOperand(x.X, depth+1) && pureOperand(x.Y, depth+1)
	case *ssa.UnOp:
		if x.Op != token.MUL {
			return pureOperand(x.X, depth+1)
		}
		// load of a field of a spilled by-value struct parameter that is never field-written
		fa, ok := x.X.(*ssa.FieldAddr)
		if !ok {
			return false
		}
		for {
			if inner, ok := fa.X.(*ssa.FieldAddr); ok {
				fa = inner
				continue
			}
			break
		}
		// field of a pointer parameter (directly, or through the cell it was spilled to) that no
		// function of the module ever stores to: it has one value for the duration of the call
		if outer, ok := x.X.(*ssa.FieldAddr); ok && currentWorld != nil {
			base := resolveCell(outer.X)
			if _, isParam := base.(*ssa.Parameter); isParam {
				// stores that initialise a freshly allocated object (composite literals) do not count
				if t, f, ok := FieldOf(outer); ok && len(currentWorld.FieldStores("shared:"+t, f)) == 0 {
					return true
				}
			}
		}
		al, ok := fa.X.(*ssa.Alloc)
		if !ok {
			return false
		}
		if _, isParam := singleStoreAlloc(al).(*ssa.Parameter); !isParam {
			return false
		}
		return !allocFieldWritten(al)
	case *ssa.Field:
		return pureOperand(x.X, depth+1)
	}
	return false
}

// allocFieldWritten: some field (transitively) of the local struct is stored to, or its address escapes.
func allocFieldWritten(al *ssa.Alloc) bool {
	var walk func(v ssa.Value) bool
	walk = func(v ssa.Value) bool {
		refs := v.Referrers()
		if refs == nil {
			return false
		}
		for _, r := range *refs {
			switch y := r.(type) {
			case *ssa.FieldAddr:
				if walk(y) {
					return true
				}
			case *ssa.Store:
				if y.Addr == v && v != ssa.Value(al) {
					return true
				}
			case *ssa.UnOp, *ssa.DebugRef:
			case *ssa.MakeClosure:
				return true
			case ssa.CallInstruction:
				return true // address passed to a call
			default:
				if _, isFA := v.(*ssa.FieldAddr); isFA {
					return true
				}
			}
		}
		return false
	}
	return walk(al)
}

// resolveCond strips negations and follows φ aliases; returns the underlying condition and the
// polarity under which the original condition is true.
func resolveCond(v ssa.Value, alias map[ssa.Value]ssa.Value) (ssa.Value, bool) {
	pol := true
	for i := 0; i < 8; i++ {
		if u, ok := v.(*ssa.UnOp); ok && u.Op == token.NOT {
			v = u.X
			pol = !pol
			continue
		}
		if a, ok := alias[v]; ok && a != v {
			v = a
			continue
		}
		break
	}
	return v, pol
}

func envSig(b *ssa.BasicBlock, env map[ssa.Value]bool) string {
	if len(env) == 0 {
		return fmt.Sprintf("%d|", b.Index)
	}
	parts := make([]string, 0, len(env))
	for k, v := range env {
		parts = append(parts, fmt.Sprintf("%s=%v", k.Name(), v))
	}
	sort.Strings(parts)
	return fmt.Sprintf("%d|%s", b.Index, strings.Join(parts, ","))
}

func boolConst(v ssa.Value) (bool, bool) {
	c, ok := v.(*ssa.Const)
	if !ok || c.Value == nil || c.Value.Kind() != constant.Bool {
		return false, false
	}
	return constant.BoolVal(c.Value), true
}

// evalBool evaluates a condition under env: (value, known).
func evalBool(v ssa.Value, env map[ssa.Value]bool) (bool, bool) {
	for i := 0; i < 6; i++ {
		if c, ok := boolConst(v); ok {
			return c, true
		}
		if x, ok := env[v]; ok {
			return x, true
		}
		switch u := v.(type) {
		case *ssa.UnOp:
			if u.Op == token.NOT {
				r, ok := evalBool(u.X, env)
				return !r, ok
			}
			if u.Op == token.MUL {
				if al, ok := u.X.(*ssa.Alloc); ok {
					if x, ok := env[al]; ok {
						return x, true
					}
				}
				return false, false
			}
		}
		return false, false
	}
	return false, false
}

// trackableCell: a bool local whose stores are all direct stores in its own function.
func trackableCell(al *ssa.Alloc) bool {
	pt, ok := al.Type().Underlying().(*types.Pointer)
	if !ok {
		return false
	}
	bt, ok := pt.Elem().Underlying().(*types.Basic)
	if !ok || bt.Kind() != types.Bool {
		return false
	}
	refs := al.Referrers()
	if refs == nil {
		return false
	}
	for _, r := range *refs {
		switch x := r.(type) {
		case *ssa.Store:
			if x.Addr != al {
				return false
			}
		case *ssa.UnOp, *ssa.DebugRef:
		case *ssa.MakeClosure:
			// closure may read it; writes inside closures make it untrackable
			f := x.Fn.(*ssa.Function)
			for i, bnd := range x.Bindings {
				if bnd == al {
					if frs := f.FreeVars[i].Referrers(); frs != nil {
						for _, fr := range *frs {
							if st, ok := fr.(*ssa.Store); ok && st.Addr == f.FreeVars[i] {
								return false
							}
							if _, ok := fr.(*ssa.MakeClosure); ok {
								return false
							}
						}
					}
				}
			}
		default:
			return false
		}
	}
	return true
}

func (st *walkState) run(b *ssa.BasicBlock, start int, env map[ssa.Value]bool, alias map[ssa.Value]ssa.Value) ssa.Instruction {
	st.steps++
	if st.steps > 200000 {
		return nil
	}
	for i := start; i < len(b.Instrs); i++ {
		in := b.Instrs[i]
		if st.q.Stop != nil && st.q.Stop(in) {
			return nil
		}
		if st.q.Goal(in) {
			if st.q.GoalEnv != nil {
				for k, v := range env {
					(*st.q.GoalEnv)[k] = v
				}
			}
			return in
		}
		if s, ok := in.(*ssa.Store); ok {
			if al, ok := s.Addr.(*ssa.Alloc); ok && trackableCell(al) {
				if v, known := evalBool(s.Val, env); known {
					env[al] = v
				} else {
					delete(env, al)
				}
			}
		}
	}
	var cond ssa.Value
	if len(b.Instrs) > 0 {
		if ifi, ok := b.Instrs[len(b.Instrs)-1].(*ssa.If); ok {
			cond = ifi.Cond
		}
	}
	for i, s := range b.Succs {
		if st.q.Edge != nil && !st.q.Edge(b, i) {
			continue
		}
		var memoRep ssa.Value
		if cond != nil && len(b.Succs) == 2 {
			// a pure condition over immutable inputs (fields of a by-value parameter, constants)
			// evaluated twice has the same outcome both times: remember it along the path
			if k, ok := pureCondKey(cond); ok {
				if st.rep == nil {
					st.rep = map[string]ssa.Value{}
				}
				if r, have := st.rep[k]; have {
					memoRep = r
				} else {
					st.rep[k] = cond
					memoRep = cond
				}
				if v, known := env[memoRep]; known && (i == 0) != v {
					continue
				}
			}
			if v, known := evalBool(cond, env); known {
				if (i == 0) != v {
					continue
				}
			}
			if st.q.EdgeCond != nil {
				rc, pol := resolveCond(cond, alias)
				if !st.q.EdgeCond(rc, (i == 0) == pol) {
					continue
				}
			}
		}
		// environment on entering s from b
		nenv := make(map[ssa.Value]bool, len(env))
		for k, v := range env {
			nenv[k] = v
		}
		predIdx := -1
		for pi, p := range s.Preds {
			if p == b {
				predIdx = pi
				break
			}
		}
		nalias := make(map[ssa.Value]ssa.Value, len(alias))
		for k, v := range alias {
			nalias[k] = v
		}
		// φ-nodes are evaluated simultaneously on entry
		upd := map[ssa.Value]*bool{}
		for _, in := range s.Instrs {
			phi, ok := in.(*ssa.Phi)
			if !ok {
				break
			}
			if bt, ok := phi.Type().Underlying().(*types.Basic); !ok || bt.Kind() != types.Bool {
				continue
			}
			if predIdx < 0 || predIdx >= len(phi.Edges) {
				upd[phi] = nil
				continue
			}
			if v, known := evalBool(phi.Edges[predIdx], env); known {
				vv := v
				upd[phi] = &vv
				delete(nalias, phi)
			} else {
				upd[phi] = nil
				// the flag takes the value of a condition computed on this path
				if a, ok := alias[phi.Edges[predIdx]]; ok {
					nalias[phi] = a
				} else {
					nalias[phi] = phi.Edges[predIdx]
				}
			}
		}
		for k, v := range upd {
			if v == nil {
				delete(nenv, k)
			} else {
				nenv[k] = *v
			}
		}
		if memoRep != nil {
			nenv[memoRep] = i == 0
		}
		sig := envSig(s, nenv)
		if len(nalias) > 0 {
			parts := make([]string, 0, len(nalias))
			for k, v := range nalias {
				parts = append(parts, k.Name()+"~"+v.Name())
			}
			sort.Strings(parts)
			sig += "|" + strings.Join(parts, ",")
		}
		if st.seen[sig] {
			continue
		}
		st.seen[sig] = true
		if r := st.run(s, 0, nenv, nalias); r != nil {
			return r
		}
	}
	return nil
}

// From: search paths starting just after `from`. A Defer matching Stop that dominates `from`
// (or is passed on the path) covers every exit.
func (q PathQ) From(from ssa.Instruction) ssa.Instruction {
	if q.Stop != nil {
		found := false
		EachInstr(from.Parent(), func(in ssa.Instruction) {
			if d, ok := in.(*ssa.Defer); ok && q.Stop(d) && Precedes(d, from) {
				found = true
			}
		})
		if found {
			return nil
		}
	}
	return q.walk(from.Block(), instrIndex(from)+1, nil)
}

func (q PathQ) FromBlock(b *ssa.BasicBlock) ssa.Instruction {
	return q.walk(b, 0, nil)
}

func (q PathQ) FromEntry(fn *ssa.Function) ssa.Instruction {
	if len(fn.Blocks) == 0 {
		return nil
	}
	return q.FromBlock(fn.Blocks[0])
}

// assumeBool builds an edge filter assuming the boolean value v (a parameter) equals val:
// at `if v` / `if !v` only the consistent successor is followed.
func assumeBool(v ssa.Value, val bool) func(b *ssa.BasicBlock, succIdx int) bool {
	return func(b *ssa.BasicBlock, succIdx int) bool {
		if len(b.Instrs) == 0 {
			return true
		}
		ifi, ok := b.Instrs[len(b.Instrs)-1].(*ssa.If)
		if !ok {
			return true
		}
		cond := ifi.Cond
		pol := true
		for i := 0; i < 4; i++ {
			if u, ok := cond.(*ssa.UnOp); ok && u.Op == token.NOT {
				cond = u.X
				pol = !pol
				continue
			}
			cond = resolveCell(cond)
			break
		}
		if cond != v {
			return true
		}
		// succ 0 is taken when ifi.Cond is true, i.e. v == pol
		takenWhenTrue := succIdx == 0
		condTrue := (val == pol)
		return takenWhenTrue == condTrue
	}
}

// andEdges combines edge filters.
func andEdges(fs ...func(b *ssa.BasicBlock, succIdx int) bool) func(b *ssa.BasicBlock, succIdx int) bool {
	return func(b *ssa.BasicBlock, i int) bool {
		for _, f := range fs {
			if f != nil && !f(b, i) {
				return false
			}
		}
		return true
	}
}

// paramNamed finds a parameter by type-and-position-insensitive name lookup; used only for bool
// mode parameters (serverSide) where the name is part of the function's contract. Returns nil if absent.
func paramNamed(fn *ssa.Function, name string) *ssa.Parameter {
	for _, p := range fn.Params {
		if p.Name() == name {
			return p
		}
	}
	return nil
}

// boolParams lists the bool-typed parameters.
func boolParams(fn *ssa.Function) []*ssa.Parameter {
	var out []*ssa.Parameter
	for _, p := range fn.Params {
		if b, ok := p.Type().Underlying().(*types.Basic); ok && b.Kind() == types.Bool {
			out = append(out, p)
		}
	}
	return out
}

// ---- rule combinators ---------------------------------------------------------------------------

// Sites returns the call sites in fn (nested closures included when nested) matching pred.
func (c *Ctx) Sites(fn *ssa.Function, nested bool, pred CallPred) []ssa.CallInstruction {
	if fn == nil {
		return nil
	}
	return CallsIn(fn, nested, pred)
}

// RequireOrder: every B site in fn is dominated by some A site (A always precedes B).
func (c *Ctx) RequireOrder(rule string, fn *ssa.Function, aName string, a CallPred, bName string, b CallPred, why string) {
	if fn == nil {
		return
	}
	as := CallsIn(fn, false, a)
	bs := CallsIn(fn, false, b)
	if !c.Anchor(rule, aName+" call in "+FuncName(fn), len(as) > 0) || !c.Anchor(rule, bName+" call in "+FuncName(fn), len(bs) > 0) {
		return
	}
	for _, bi := range bs {
		ok := false
		for _, ai := range as {
			if Precedes(ai, bi) {
				ok = true
			}
		}
		c.Check(rule, bi, aName+" ≺ "+bName, ok, why)
	}
}

// RequireOrderOn: on every path from entry (restricted by edge) to a B site, an A site is passed.
// Unlike dominance this is exact under a parameter assumption (if !serverSide {A} … if !serverSide {B}).
func (c *Ctx) RequireOrderOn(rule string, fn *ssa.Function, aName string, a CallPred, bName string, b CallPred, edge func(*ssa.BasicBlock, int) bool, why string) {
	if fn == nil {
		return
	}
	as := CallsIn(fn, false, a)
	bs := CallsIn(fn, false, b)
	if !c.Anchor(rule, aName+" call in "+FuncName(fn), len(as) > 0) || !c.Anchor(rule, bName+" call in "+FuncName(fn), len(bs) > 0) {
		return
	}
	for _, bi := range bs {
		target := bi.(ssa.Instruction)
		bad := PathQ{Stop: instrPred(a), Goal: func(in ssa.Instruction) bool { return in == target }, Edge: edge}.FromEntry(fn)
		c.Check(rule, bi, aName+" ≺ "+bName, bad == nil, why)
	}
}

// RequireNeverAfter: no B site is reachable after an A site (B never follows A).
func (c *Ctx) RequireNeverAfter(rule string, fn *ssa.Function, aName string, a CallPred, bName string, b CallPred, why string) {
	if fn == nil {
		return
	}
	as := CallsIn(fn, false, a)
	bs := CallsIn(fn, false, b)
	if !c.Anchor(rule, aName+" call in "+FuncName(fn), len(as) > 0) || !c.Anchor(rule, bName+" call in "+FuncName(fn), len(bs) > 0) {
		return
	}
	for _, ai := range as {
		var bad ssa.Instruction
		for _, bi := range bs {
			if Reaches(ai, bi) {
				bad = bi
			}
		}
		detail := why
		if bad != nil {
			detail = fmt.Sprintf("%s (offending %s at %s)", why, bName, c.W.InstrPos(bad))
		}
		c.Check(rule, ai, bName+" never after "+aName, bad == nil, detail)
	}
}

// RequireMustPass: from every `from` site, every path to a Goal passes a Stop.
func (c *Ctx) RequireMustPass(rule string, fn *ssa.Function, fromName string, from CallPred, q PathQ, what, why string) int {
	if fn == nil {
		return 0
	}
	fs := CallsIn(fn, false, from)
	if !c.Anchor(rule, fromName+" call in "+FuncName(fn), len(fs) > 0) {
		return 0
	}
	for _, f := range fs {
		bad := q.From(f)
		detail := why
		if bad != nil {
			detail = fmt.Sprintf("%s (path from %s at %s reaches %s without it)", why, fromName, c.W.InstrPos(f), c.W.InstrPos(bad))
		}
		c.Check(rule, f, what, bad == nil, detail)
	}
	return len(fs)
}

// RequireGuard: every site is dominated by a guard satisfying g.
func (c *Ctx) RequireGuard(rule string, sites []ssa.Instruction, construct string, g func(Guard) bool, why string) {
	for _, s := range sites {
		ok := GuardedBy(s, g)
		d := why
		if !ok {
			d = fmt.Sprintf("%s (dominating guards: %v)", why, GuardStrings(s))
		}
		c.Check(rule, s, construct, ok, d)
	}
}

// RequireLock: every site executes with lock held.
func (c *Ctx) RequireLock(rule string, sites []ssa.Instruction, construct, lock string, write bool, why string) {
	li := c.W.Locks()
	for _, s := range sites {
		held := li.HeldAt(s)
		ok := held.Holds(lock, write)
		d := why
		if !ok {
			d = fmt.Sprintf("%s (locks held here: %s)", why, held)
		}
		c.Check(rule, s, construct, ok, d)
	}
}

func callInstrs(cs []ssa.CallInstruction) []ssa.Instruction {
	out := make([]ssa.Instruction, len(cs))
	for i, x := range cs {
		out[i] = x
	}
	return out
}

// flagGuard: guard of the form `flags & C != 0` (or the channelHasFlag/hasFlag helper) with C the
// named constant, true polarity meaning the flag is set. The flags value must descend from desc substring.
func (w *World) flagGuard(constName string, set bool, fromDesc string) func(Guard) bool {
	cv, ok := w.ConstInt("centrifuge", constName)
	return func(g Guard) bool {
		if !ok {
			return false
		}
		return flagTest(g.Cond, cv, fromDesc, g.Pol == set, 0)
	}
}

// flagTest: does cond==wantTrue imply "flag cv set in a value whose descriptor contains fromDesc"?
func flagTest(cond ssa.Value, cv int64, fromDesc string, wantTrue bool, depth int) bool {
	if depth > 4 {
		return false
	}
	switch x := cond.(type) {
	case *ssa.Call:
		// channelHasFlag(flags, flag) / hasFlag(flags, flag): recognised by body shape: returns flags&flag != 0
		f := x.Call.StaticCallee()
		if f == nil || len(x.Call.Args) != 2 || !isFlagHelper(f) {
			return false
		}
		if v, ok := constIntOf(x.Call.Args[1]); ok && v == cv && strings.Contains(D(x.Call.Args[0]), fromDesc) {
			return wantTrue
		}
	case *ssa.BinOp:
		// (flags & C) != 0  or == 0 or == C
		and, ok := x.X.(*ssa.BinOp)
		if !ok || and.Op != token.AND {
			return false
		}
		var flagsV ssa.Value
		if v, ok := constIntOf(and.Y); ok && v == cv {
			flagsV = and.X
		} else if v, ok := constIntOf(and.X); ok && v == cv {
			flagsV = and.Y
		} else {
			return false
		}
		if !strings.Contains(D(flagsV), fromDesc) {
			return false
		}
		if z, ok := constIntOf(x.Y); ok {
			if z == 0 && x.Op == token.NEQ {
				return wantTrue
			}
			if z == 0 && x.Op == token.EQL {
				return !wantTrue
			}
			if z == cv && x.Op == token.EQL {
				return wantTrue
			}
		}
	}
	return false
}

var flagHelperMemo = map[*ssa.Function]bool{}

// isFlagHelper: two-parameter function whose body is `return a&b != 0`.
func isFlagHelper(f *ssa.Function) bool {
	if v, ok := flagHelperMemo[f]; ok {
		return v
	}
	res := false
	if len(f.Params) == 2 && len(f.Blocks) == 1 {
		for _, in := range f.Blocks[0].Instrs {
			if r, ok := in.(*ssa.Return); ok && len(r.Results) == 1 {
				if b, ok := r.Results[0].(*ssa.BinOp); ok && b.Op == token.NEQ {
					if and, ok := b.X.(*ssa.BinOp); ok && and.Op == token.AND {
						if (and.X == f.Params[0] && and.Y == f.Params[1]) || (and.X == f.Params[1] && and.Y == f.Params[0]) {
							if z, ok := constIntOf(b.Y); ok && z == 0 {
								res = true
							}
						}
					}
				}
			}
		}
	}
	flagHelperMemo[f] = res
	return res
}

// eqConstGuard: guard `<desc containing sub> == <const int>` true (eq==true) or != (eq==false).
func eqConstGuard(sub string, cv int64, eq bool) func(Guard) bool {
	return func(g Guard) bool {
		b, ok := g.Cond.(*ssa.BinOp)
		if !ok || (b.Op != token.EQL && b.Op != token.NEQ) {
			return false
		}
		var other ssa.Value
		if v, ok := constIntOf(b.Y); ok && v == cv {
			other = b.X
		} else if v, ok := constIntOf(b.X); ok && v == cv {
			other = b.Y
		} else {
			return false
		}
		if !strings.Contains(D(other), sub) {
			return false
		}
		isEq := (b.Op == token.EQL) == g.Pol
		return isEq == eq
	}
}

// storesToField lists stores in fn (nested closures included) whose address is field typ.field.
func storesToField(fn *ssa.Function, nested bool, typ, field string) []*ssa.Store {
	var out []*ssa.Store
	fns := []*ssa.Function{fn}
	if nested {
		fns = WithClosures(fn)
	}
	for _, f := range fns {
		EachInstr(f, func(in ssa.Instruction) {
			if st, ok := in.(*ssa.Store); ok {
				if fa, ok := st.Addr.(*ssa.FieldAddr); ok && fieldAddrIs(fa, typ, field) {
					out = append(out, st)
				}
			}
		})
	}
	return out
}

// mapUpdatesOf lists MapUpdate instructions in fn whose map is (a load of) field typ.field.
func mapUpdatesOf(fn *ssa.Function, nested bool, typ, field string) []*ssa.MapUpdate {
	var out []*ssa.MapUpdate
	fns := []*ssa.Function{fn}
	if nested {
		fns = WithClosures(fn)
	}
	for _, f := range fns {
		EachInstr(f, func(in ssa.Instruction) {
			if mu, ok := in.(*ssa.MapUpdate); ok && loadsField(mu.Map, typ, field) {
				out = append(out, mu)
			}
		})
	}
	return out
}

// mapDeletesOf lists delete(m, k) builtin calls whose map is (a load of) field typ.field.
func mapDeletesOf(fn *ssa.Function, nested bool, typ, field string) []*ssa.Call {
	var out []*ssa.Call
	fns := []*ssa.Function{fn}
	if nested {
		fns = WithClosures(fn)
	}
	for _, f := range fns {
		EachInstr(f, func(in ssa.Instruction) {
			if call, ok := in.(*ssa.Call); ok {
				if b, ok := call.Call.Value.(*ssa.Builtin); ok && b.Name() == "delete" && len(call.Call.Args) == 2 && loadsField(call.Call.Args[0], typ, field) {
					out = append(out, call)
				}
			}
		})
	}
	return out
}

// isGoOrInGoClosure: the instruction is a `go` statement, or sits inside a function literal that
// is started by a `go` statement (transitively through parents).
func (w *World) inGoroutineLiteral(fn *ssa.Function) bool {
	for f := fn; f != nil && f.Parent() != nil; f = f.Parent() {
		for _, ci := range w.callers[f] {
			if _, ok := ci.(*ssa.Go); ok {
				return true
			}
		}
	}
	return false
}

// PathGuarded: every path from the function entry to site traverses an edge on which a condition
// satisfying g holds (with the polarity g asks for). Exact where dominance is not (flags assigned
// in several switch arms, `owns := ok && a == b`).
func PathGuarded(site ssa.Instruction, g func(Guard) bool) bool {
	fn := site.Parent()
	q := PathQ{
		Goal: func(in ssa.Instruction) bool { return in == site },
		EdgeCond: func(cond ssa.Value, outcome bool) bool {
			// prune edges that establish the guard: a path that survives never established it
			return !g(Guard{Cond: cond, Pol: outcome})
		},
	}
	return q.FromEntry(fn) == nil
}

// Guarded: dominance-based or path-based.
func Guarded(site ssa.Instruction, g func(Guard) bool) bool {
	return GuardedBy(site, g) || PathGuarded(site, g)
}
