package main

import (
	"fmt"
	"go/token"
	"go/types"
	"strings"

	"golang.org/x/tools/go/ssa"
)

// PathQ is a path query over one function's CFG.
//   Stop: instructions that end a path harmlessly; Goal: instructions that must not be reached
//   without passing a Stop; Edge: optional filter of CFG edges (path-sensitivity on parameters).
type PathQ struct {
	Stop func(ssa.Instruction) bool
	Goal func(ssa.Instruction) bool
	Edge func(b *ssa.BasicBlock, succIdx int) bool
}

func (q PathQ) walk(b *ssa.BasicBlock, start int, visited map[*ssa.BasicBlock]bool) ssa.Instruction {
	for i := start; i < len(b.Instrs); i++ {
		in := b.Instrs[i]
		if q.Stop != nil && q.Stop(in) {
			return nil
		}
		if q.Goal(in) {
			return in
		}
	}
	for i, s := range b.Succs {
		if q.Edge != nil && !q.Edge(b, i) {
			continue
		}
		if visited[s] {
			continue
		}
		visited[s] = true
		if r := q.walk(s, 0, visited); r != nil {
			return r
		}
	}
	return nil
}

// From: search paths starting just after `from`. A Defer matching Stop that dominates `from`
// (or is passed on the path) covers every exit.
func (q PathQ) From(from ssa.Instruction) ssa.Instruction {
	if q.Stop != nil {
		found := false
		EachInstr(from.Parent(), func(in ssa.Instruction) {
			if d, ok := in.(*ssa.Defer); ok && q.Stop(d) && Precedes(d, from) {
				found = true
			}
		})
		if found {
			return nil
		}
	}
	return q.walk(from.Block(), instrIndex(from)+1, map[*ssa.BasicBlock]bool{})
}

func (q PathQ) FromBlock(b *ssa.BasicBlock) ssa.Instruction {
	return q.walk(b, 0, map[*ssa.BasicBlock]bool{b: true})
}

func (q PathQ) FromEntry(fn *ssa.Function) ssa.Instruction {
	if len(fn.Blocks) == 0 {
		return nil
	}
	return q.FromBlock(fn.Blocks[0])
}

// assumeBool builds an edge filter assuming the boolean value v (a parameter) equals val:
// at `if v` / `if !v` only the consistent successor is followed.
func assumeBool(v ssa.Value, val bool) func(b *ssa.BasicBlock, succIdx int) bool {
	return func(b *ssa.BasicBlock, succIdx int) bool {
		if len(b.Instrs) == 0 {
			return true
		}
		ifi, ok := b.Instrs[len(b.Instrs)-1].(*ssa.If)
		if !ok {
			return true
		}
		cond := ifi.Cond
		pol := true
		for i := 0; i < 4; i++ {
			if u, ok := cond.(*ssa.UnOp); ok && u.Op == token.NOT {
				cond = u.X
				pol = !pol
				continue
			}
			cond = resolveCell(cond)
			break
		}
		if cond != v {
			return true
		}
		// succ 0 is taken when ifi.Cond is true, i.e. v == pol
		takenWhenTrue := succIdx == 0
		condTrue := (val == pol)
		return takenWhenTrue == condTrue
	}
}

// andEdges combines edge filters.
func andEdges(fs ...func(b *ssa.BasicBlock, succIdx int) bool) func(b *ssa.BasicBlock, succIdx int) bool {
	return func(b *ssa.BasicBlock, i int) bool {
		for _, f := range fs {
			if f != nil && !f(b, i) {
				return false
			}
		}
		return true
	}
}

// paramNamed finds a parameter by type-and-position-insensitive name lookup; used only for bool
// mode parameters (serverSide) where the name is part of the function's contract. Returns nil if absent.
func paramNamed(fn *ssa.Function, name string) *ssa.Parameter {
	for _, p := range fn.Params {
		if p.Name() == name {
			return p
		}
	}
	return nil
}

// boolParams lists the bool-typed parameters.
func boolParams(fn *ssa.Function) []*ssa.Parameter {
	var out []*ssa.Parameter
	for _, p := range fn.Params {
		if b, ok := p.Type().Underlying().(*types.Basic); ok && b.Kind() == types.Bool {
			out = append(out, p)
		}
	}
	return out
}

// ---- rule combinators ---------------------------------------------------------------------------

// Sites returns the call sites in fn (nested closures included when nested) matching pred.
func (c *Ctx) Sites(fn *ssa.Function, nested bool, pred CallPred) []ssa.CallInstruction {
	if fn == nil {
		return nil
	}
	return CallsIn(fn, nested, pred)
}

// RequireOrder: every B site in fn is dominated by some A site (A always precedes B).
func (c *Ctx) RequireOrder(rule string, fn *ssa.Function, aName string, a CallPred, bName string, b CallPred, why string) {
	if fn == nil {
		return
	}
	as := CallsIn(fn, false, a)
	bs := CallsIn(fn, false, b)
	if !c.Anchor(rule, aName+" call in "+FuncName(fn), len(as) > 0) || !c.Anchor(rule, bName+" call in "+FuncName(fn), len(bs) > 0) {
		return
	}
	for _, bi := range bs {
		ok := false
		for _, ai := range as {
			if Precedes(ai, bi) {
				ok = true
			}
		}
		c.Check(rule, bi, aName+" ≺ "+bName, ok, why)
	}
}

// RequireOrderOn: on every path from entry (restricted by edge) to a B site, an A site is passed.
// Unlike dominance this is exact under a parameter assumption (if !serverSide {A} … if !serverSide {B}).
func (c *Ctx) RequireOrderOn(rule string, fn *ssa.Function, aName string, a CallPred, bName string, b CallPred, edge func(*ssa.BasicBlock, int) bool, why string) {
	if fn == nil {
		return
	}
	as := CallsIn(fn, false, a)
	bs := CallsIn(fn, false, b)
	if !c.Anchor(rule, aName+" call in "+FuncName(fn), len(as) > 0) || !c.Anchor(rule, bName+" call in "+FuncName(fn), len(bs) > 0) {
		return
	}
	for _, bi := range bs {
		target := bi.(ssa.Instruction)
		bad := PathQ{Stop: instrPred(a), Goal: func(in ssa.Instruction) bool { return in == target }, Edge: edge}.FromEntry(fn)
		c.Check(rule, bi, aName+" ≺ "+bName, bad == nil, why)
	}
}

// RequireNeverAfter: no B site is reachable after an A site (B never follows A).
func (c *Ctx) RequireNeverAfter(rule string, fn *ssa.Function, aName string, a CallPred, bName string, b CallPred, why string) {
	if fn == nil {
		return
	}
	as := CallsIn(fn, false, a)
	bs := CallsIn(fn, false, b)
	if !c.Anchor(rule, aName+" call in "+FuncName(fn), len(as) > 0) || !c.Anchor(rule, bName+" call in "+FuncName(fn), len(bs) > 0) {
		return
	}
	for _, ai := range as {
		var bad ssa.Instruction
		for _, bi := range bs {
			if Reaches(ai, bi) {
				bad = bi
			}
		}
		detail := why
		if bad != nil {
			detail = fmt.Sprintf("%s (offending %s at %s)", why, bName, c.W.InstrPos(bad))
		}
		c.Check(rule, ai, bName+" never after "+aName, bad == nil, detail)
	}
}

// RequireMustPass: from every `from` site, every path to a Goal passes a Stop.
func (c *Ctx) RequireMustPass(rule string, fn *ssa.Function, fromName string, from CallPred, q PathQ, what, why string) int {
	if fn == nil {
		return 0
	}
	fs := CallsIn(fn, false, from)
	if !c.Anchor(rule, fromName+" call in "+FuncName(fn), len(fs) > 0) {
		return 0
	}
	for _, f := range fs {
		bad := q.From(f)
		detail := why
		if bad != nil {
			detail = fmt.Sprintf("%s (path from %s at %s reaches %s without it)", why, fromName, c.W.InstrPos(f), c.W.InstrPos(bad))
		}
		c.Check(rule, f, what, bad == nil, detail)
	}
	return len(fs)
}

// RequireGuard: every site is dominated by a guard satisfying g.
func (c *Ctx) RequireGuard(rule string, sites []ssa.Instruction, construct string, g func(Guard) bool, why string) {
	for _, s := range sites {
		ok := GuardedBy(s, g)
		d := why
		if !ok {
			d = fmt.Sprintf("%s (dominating guards: %v)", why, GuardStrings(s))
		}
		c.Check(rule, s, construct, ok, d)
	}
}

// RequireLock: every site executes with lock held.
func (c *Ctx) RequireLock(rule string, sites []ssa.Instruction, construct, lock string, write bool, why string) {
	li := c.W.Locks()
	for _, s := range sites {
		held := li.HeldAt(s)
		ok := held.Holds(lock, write)
		d := why
		if !ok {
			d = fmt.Sprintf("%s (locks held here: %s)", why, held)
		}
		c.Check(rule, s, construct, ok, d)
	}
}

func callInstrs(cs []ssa.CallInstruction) []ssa.Instruction {
	out := make([]ssa.Instruction, len(cs))
	for i, x := range cs {
		out[i] = x
	}
	return out
}

// flagGuard: guard of the form `flags & C != 0` (or the channelHasFlag/hasFlag helper) with C the
// named constant, true polarity meaning the flag is set. The flags value must descend from desc substring.
func (w *World) flagGuard(constName string, set bool, fromDesc string) func(Guard) bool {
	cv, ok := w.ConstInt("centrifuge", constName)
	return func(g Guard) bool {
		if !ok {
			return false
		}
		return flagTest(g.Cond, cv, fromDesc, g.Pol == set, 0)
	}
}

// flagTest: does cond==wantTrue imply "flag cv set in a value whose descriptor contains fromDesc"?
func flagTest(cond ssa.Value, cv int64, fromDesc string, wantTrue bool, depth int) bool {
	if depth > 4 {
		return false
	}
	switch x := cond.(type) {
	case *ssa.Call:
		// channelHasFlag(flags, flag) / hasFlag(flags, flag): recognised by body shape: returns flags&flag != 0
		f := x.Call.StaticCallee()
		if f == nil || len(x.Call.Args) != 2 || !isFlagHelper(f) {
			return false
		}
		if v, ok := constIntOf(x.Call.Args[1]); ok && v == cv && strings.Contains(D(x.Call.Args[0]), fromDesc) {
			return wantTrue
		}
	case *ssa.BinOp:
		// (flags & C) != 0  or == 0 or == C
		and, ok := x.X.(*ssa.BinOp)
		if !ok || and.Op != token.AND {
			return false
		}
		var flagsV ssa.Value
		if v, ok := constIntOf(and.Y); ok && v == cv {
			flagsV = and.X
		} else if v, ok := constIntOf(and.X); ok && v == cv {
			flagsV = and.Y
		} else {
			return false
		}
		if !strings.Contains(D(flagsV), fromDesc) {
			return false
		}
		if z, ok := constIntOf(x.Y); ok {
			if z == 0 && x.Op == token.NEQ {
				return wantTrue
			}
			if z == 0 && x.Op == token.EQL {
				return !wantTrue
			}
			if z == cv && x.Op == token.EQL {
				return wantTrue
			}
		}
	}
	return false
}

var flagHelperMemo = map[*ssa.Function]bool{}

// isFlagHelper: two-parameter function whose body is `return a&b != 0`.
func isFlagHelper(f *ssa.Function) bool {
	if v, ok := flagHelperMemo[f]; ok {
		return v
	}
	res := false
	if len(f.Params) == 2 && len(f.Blocks) == 1 {
		for _, in := range f.Blocks[0].Instrs {
			if r, ok := in.(*ssa.Return); ok && len(r.Results) == 1 {
				if b, ok := r.Results[0].(*ssa.BinOp); ok && b.Op == token.NEQ {
					if and, ok := b.X.(*ssa.BinOp); ok && and.Op == token.AND {
						if (and.X == f.Params[0] && and.Y == f.Params[1]) || (and.X == f.Params[1] && and.Y == f.Params[0]) {
							if z, ok := constIntOf(b.Y); ok && z == 0 {
								res = true
							}
						}
					}
				}
			}
		}
	}
	flagHelperMemo[f] = res
	return res
}

// eqConstGuard: guard `<desc containing sub> == <const int>` true (eq==true) or != (eq==false).
func eqConstGuard(sub string, cv int64, eq bool) func(Guard) bool {
	return func(g Guard) bool {
		b, ok := g.Cond.(*ssa.BinOp)
		if !ok || (b.Op != token.EQL && b.Op != token.NEQ) {
			return false
		}
		var other ssa.Value
		if v, ok := constIntOf(b.Y); ok && v == cv {
			other = b.X
		} else if v, ok := constIntOf(b.X); ok && v == cv {
			other = b.Y
		} else {
			return false
		}
		if !strings.Contains(D(other), sub) {
			return false
		}
		isEq := (b.Op == token.EQL) == g.Pol
		return isEq == eq
	}
}

// storesToField lists stores in fn (nested closures included) whose address is field typ.field.
func storesToField(fn *ssa.Function, nested bool, typ, field string) []*ssa.Store {
	var out []*ssa.Store
	fns := []*ssa.Function{fn}
	if nested {
		fns = WithClosures(fn)
	}
	for _, f := range fns {
		EachInstr(f, func(in ssa.Instruction) {
			if st, ok := in.(*ssa.Store); ok {
				if fa, ok := st.Addr.(*ssa.FieldAddr); ok && fieldAddrIs(fa, typ, field) {
					out = append(out, st)
				}
			}
		})
	}
	return out
}

// mapUpdatesOf lists MapUpdate instructions in fn whose map is (a load of) field typ.field.
func mapUpdatesOf(fn *ssa.Function, nested bool, typ, field string) []*ssa.MapUpdate {
	var out []*ssa.MapUpdate
	fns := []*ssa.Function{fn}
	if nested {
		fns = WithClosures(fn)
	}
	for _, f := range fns {
		EachInstr(f, func(in ssa.Instruction) {
			if mu, ok := in.(*ssa.MapUpdate); ok && loadsField(mu.Map, typ, field) {
				out = append(out, mu)
			}
		})
	}
	return out
}

// mapDeletesOf lists delete(m, k) builtin calls whose map is (a load of) field typ.field.
func mapDeletesOf(fn *ssa.Function, nested bool, typ, field string) []*ssa.Call {
	var out []*ssa.Call
	fns := []*ssa.Function{fn}
	if nested {
		fns = WithClosures(fn)
	}
	for _, f := range fns {
		EachInstr(f, func(in ssa.Instruction) {
			if call, ok := in.(*ssa.Call); ok {
				if b, ok := call.Call.Value.(*ssa.Builtin); ok && b.Name() == "delete" && len(call.Call.Args) == 2 && loadsField(call.Call.Args[0], typ, field) {
					out = append(out, call)
				}
			}
		})
	}
	return out
}

// isGoOrInGoClosure: the instruction is a `go` statement, or sits inside a function literal that
// is started by a `go` statement (transitively through parents).
func (w *World) inGoroutineLiteral(fn *ssa.Function) bool {
	for f := fn; f != nil && f.Parent() != nil; f = f.Parent() {
		for _, ci := range w.callers[f] {
			if _, ok := ci.(*ssa.Go); ok {
				return true
			}
		}
	}
	return false
}
