package main

import (
	"fmt"
	"go/types"
	"strings"

	"golang.org/x/tools/go/ssa"
)

// runC35Immutable (C35.R4): the bundled tag table is validated as a constant, so it has to *stay* the
// table that was validated: FindTags hands out the package-level slices themselves. Forward taint from
// every FindTags result (and from the package table) through phis, reslices, struct fields (field-based)
// and call arguments; any element store, copy-into or in-place sort through a tainted slice is a write
// into the shared table.
func runC35Immutable(c *Ctx) {
	w := c.W
	tainted := map[ssa.Value]bool{}
	taintedFields := map[string]bool{} // "Type.field"
	taintedGlobals := map[string]bool{"precomputed": true}
	isStrSlice := func(t types.Type) bool {
		s, ok := t.Underlying().(*types.Slice)
		if !ok {
			return false
		}
		b, ok := s.Elem().Underlying().(*types.Basic)
		return ok && b.Kind() == types.String
	}
	var funcs []*ssa.Function
	for _, f := range w.AllFuncs {
		if w.inModule(f) && !strings.HasSuffix(w.Pos(f.Pos()), "_test.go") {
			funcs = append(funcs, f)
		}
	}
	seeds := 0
	changed := true
	mark := func(v ssa.Value) {
		if v != nil && !tainted[v] && (isStrSlice(v.Type()) || isTupleWithStrSlice(v.Type())) {
			tainted[v] = true
			changed = true
		}
	}
	for iter := 0; iter < 12 && changed; iter++ {
		changed = false
		for _, f := range funcs {
			EachInstr(f, func(in ssa.Instruction) {
				switch x := in.(type) {
				case *ssa.Call:
					if cal := x.Call.StaticCallee(); cal != nil {
						if cal.Name() == "FindTags" && cal.Pkg != nil && strings.HasSuffix(cal.Pkg.Pkg.Path(), "internal/redispartition") {
							if !tainted[x] {
								seeds++
							}
							mark(x)
						}
						// arguments → parameters
						if w.inModule(cal) && len(cal.Params) == len(x.Call.Args) {
							for i, a := range x.Call.Args {
								if tainted[a] {
									mark(cal.Params[i])
								}
							}
						}
					}
				case *ssa.Extract:
					if tainted[x.Tuple] && isStrSlice(x.Type()) {
						mark(x)
					}
				case *ssa.Phi:
					for _, e := range x.Edges {
						if tainted[e] {
							mark(x)
						}
					}
				case *ssa.Slice:
					if tainted[x.X] {
						mark(x)
					}
				case *ssa.ChangeType:
					if tainted[x.X] {
						mark(x)
					}
				case *ssa.Lookup: // precomputed[n]
					if u, ok := x.X.(*ssa.UnOp); ok {
						if g, ok := u.X.(*ssa.Global); ok && taintedGlobals[g.Name()] && strings.HasSuffix(g.Pkg.Pkg.Path(), "internal/redispartition") {
							mark(x)
						}
					}
				case *ssa.Store:
					if tainted[x.Val] {
						switch a := x.Addr.(type) {
						case *ssa.FieldAddr:
							if typ, fld, ok := FieldOf(a); ok && !taintedFields[typ+"."+fld] {
								taintedFields[typ+"."+fld] = true
								changed = true
							}
						case *ssa.Alloc:
							// local cell: loads of it are tainted
							for _, r := range *a.Referrers() {
								if u, ok := r.(*ssa.UnOp); ok && u.X == a {
									mark(u)
								}
							}
						}
					}
				case *ssa.UnOp:
					if fa, ok := x.X.(*ssa.FieldAddr); ok {
						if typ, fld, ok := FieldOf(fa); ok && taintedFields[typ+"."+fld] {
							mark(x)
						}
					}
				case *ssa.Field:
					if typ, fld, ok := FieldOf(x); ok && taintedFields[typ+"."+fld] {
						mark(x)
					}
				}
			})
		}
	}
	c.Anchor("C35.R4", "FindTags call sites feeding the brokers", seeds >= 2)
	nUses := 0
	for _, f := range funcs {
		EachInstr(f, func(in ssa.Instruction) {
			switch x := in.(type) {
			case *ssa.IndexAddr:
				if !tainted[x.X] {
					return
				}
				nUses++
				written := false
				for _, r := range *x.Referrers() {
					if st, ok := r.(*ssa.Store); ok && st.Addr == x {
						written = true
					}
				}
				c.Check("C35.R4", in, "element of the shared precomputed tag table is only read", !written,
					"FindTags returns the package-level table itself (the table whose slots and balance are validated as constants); a store through it rewrites the tags of every broker in the process, and the rewritten strings hash to arbitrary slots")
			case *ssa.Call:
				if b, ok := x.Call.Value.(*ssa.Builtin); ok && b.Name() == "copy" && len(x.Call.Args) == 2 && tainted[x.Call.Args[0]] {
					c.Check("C35.R4", in, "the shared precomputed tag table is not a copy destination", false, "copy into the shared table")
				}
				if cal := x.Call.StaticCallee(); cal != nil && cal.Pkg != nil && (cal.Pkg.Pkg.Path() == "sort" || cal.Pkg.Pkg.Path() == "slices") && len(x.Call.Args) >= 1 && tainted[x.Call.Args[0]] {
					switch cal.Name() {
					case "Strings", "Sort", "SortFunc", "SortStableFunc", "Reverse", "Slice", "SliceStable":
						c.Check("C35.R4", in, "the shared precomputed tag table is not reordered in place", false, "partition index i must keep its validated tag; "+cal.Name()+" permutes the shared table")
					}
				}
			}
		})
	}
	c.CheckAt("C35.R4", "reads of the precomputed tag table found", "broker_redis.go", nUses >= 2, fmt.Sprintf("%d indexed uses, fields %v", nUses, keysOf(taintedFields)))
}

// runC35Lookup (C35.R5): the constant-table validation covers exactly the bundled tables, so the runtime
// lookup must hand out nothing else: every non-nil result of FindTags is the table entry for the
// requested count itself — not a prefix, a concatenation or a computed list (whose slots and balance
// nobody validated).
func runC35Lookup(c *Ctx) {
	w := c.W
	ft := w.Func("internal/redispartition", "FindTags")
	if ft == nil || len(ft.Params) < 1 {
		return
	}
	n := 0
	EachInstr(ft, func(in ssa.Instruction) {
		r, ok := in.(*ssa.Return)
		if !ok {
			return
		}
		vals := retVals(r)
		if len(vals) != 2 || isNilConst(vals[0]) {
			return
		}
		n++
		v := vals[0]
		okV := false
		detail := D(v)
		// the value of a lookup precomputed[param] (possibly the comma-ok form)
		if ex, isEx := v.(*ssa.Extract); isEx && ex.Index == 0 {
			v = ex.Tuple
		}
		if lk, isLk := v.(*ssa.Lookup); isLk {
			if u, isU := lk.X.(*ssa.UnOp); isU {
				if g, isG := u.X.(*ssa.Global); isG && g.Name() == "precomputed" && lk.Index == ssa.Value(ft.Params[0]) {
					okV = true
				}
			}
		}
		c.Check("C35.R5", r, "FindTags returns the bundled table entry of the requested count itself", okV,
			"result "+detail+": only the bundled tables are validated (distinct slots, balance within one for every cluster size); a prefix of a larger table is the lowest slots of that table, all on the first nodes")
	})
	c.Anchor("C35.R5", "successful returns of FindTags", n >= 1)
}

func isTupleWithStrSlice(t types.Type) bool {
	tp, ok := t.(*types.Tuple)
	if !ok {
		return false
	}
	for i := 0; i < tp.Len(); i++ {
		if s, ok := tp.At(i).Type().Underlying().(*types.Slice); ok {
			if b, ok := s.Elem().Underlying().(*types.Basic); ok && b.Kind() == types.String {
				return true
			}
		}
	}
	return false
}

func keysOf(m map[string]bool) []string {
	var out []string
	for k := range m {
		out = append(out, k)
	}
	return out
}
