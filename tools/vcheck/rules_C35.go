package main

import (
	"fmt"
	"go/ast"
	"go/constant"
	"go/token"
	"sort"
	"strings"

	"golang.org/x/tools/go/ssa"
)

func init() {
	register(&PropMeta{
		ID:    "C35",
		Level: "proof",
		Explanation: "exhaustive evaluation of the bundled constant tables: for every bundled partition count P the P tags are distinct brace-free strings whose Redis hash slots (CRC16-XMODEM mod 16384, computed by a reference implementation inside the checker) are pairwise distinct, and for every cluster size 1 ≤ n ≤ P the per-node partition counts under contiguous slot assignment differ by at most one; the repository's crc16tab equals the reference table, both slot reductions use 16384 slots, and the bit-wise CRC of the partition package uses polynomial 0x1021 with zero initial value.",
		NotDecided: "clusters whose slot ranges were re-sharded manually (non-contiguous assignment); the runtime lookup FindTags beyond its table.",
		Rules: map[string]string{
			"C35.R1": "K8: per partition count — cardinality, distinctness, brace-freedom, distinct slots",
			"C35.R2": "K8: per (P, n) — balance within one under contiguous assignment",
			"C35.R3": "K8: CRC table and constants equal the independent reference",
			"C35.R4": "ownership/taint: the validated table is never written through a FindTags result (it stays the constant that was validated)",
			"C35.R5": "value flow: FindTags returns a bundled table entry itself, nothing derived",
		},
		Exhaustive: true,
		Technique:  "constant-table validation: exhaustive evaluation of package-level literals against an independent reference (CRC16-XMODEM, contiguous slot assignment)",
		LevelNote:  "Trusted base: the checker's own CRC16-XMODEM and slot-assignment reference, go/types constant evaluation of the literals. Exhaustive over all bundled partition counts and all cluster sizes up to each count.",
		Run:        runC35,
	})
}

func refCRC16(data []byte) uint16 {
	var crc uint16
	for _, b := range data {
		crc ^= uint16(b) << 8
		for i := 0; i < 8; i++ {
			if crc&0x8000 != 0 {
				crc = (crc << 1) ^ 0x1021
			} else {
				crc <<= 1
			}
		}
	}
	return crc
}

// refNode: Redis contiguous assignment — the first (16384 mod n) nodes own ⌈16384/n⌉ slots, the rest ⌊16384/n⌋.
func refNode(slot, n int) int {
	const total = 16384
	q, r := total/n, total%n
	start := 0
	for node := 0; node < n; node++ {
		size := q
		if node < r {
			size++
		}
		if slot < start+size {
			return node
		}
		start += size
	}
	return n - 1
}

func runC35(c *Ctx) {
	w := c.W
	runC35Immutable(c)
	runC35Lookup(c)
	pkg := w.ByPath[longPkg("internal/redispartition")]
	if !c.Anchor("C35.R1", "package internal/redispartition", pkg != nil) {
		return
	}
	// locate the `precomputed` composite literal
	var lit *ast.CompositeLit
	for _, f := range pkg.Syntax {
		ast.Inspect(f, func(n ast.Node) bool {
			vs, ok := n.(*ast.ValueSpec)
			if !ok {
				return true
			}
			for i, name := range vs.Names {
				if name.Name == "precomputed" && i < len(vs.Values) {
					if cl, ok := vs.Values[i].(*ast.CompositeLit); ok {
						lit = cl
					}
				}
			}
			return true
		})
	}
	if !c.Anchor("C35.R1", "precomputed table literal", lit != nil) {
		return
	}
	tables := map[int][]string{}
	for _, el := range lit.Elts {
		kv, ok := el.(*ast.KeyValueExpr)
		if !ok {
			continue
		}
		ktv := pkg.TypesInfo.Types[kv.Key]
		if ktv.Value == nil {
			c.CheckAt("C35.R1", "precomputed: constant partition count key", w.Pos(kv.Pos()), false, "non-constant key")
			continue
		}
		p64, _ := constant.Int64Val(constant.ToInt(ktv.Value))
		inner, ok := kv.Value.(*ast.CompositeLit)
		if !ok {
			continue
		}
		var tags []string
		for _, te := range inner.Elts {
			tv := pkg.TypesInfo.Types[te]
			if tv.Value == nil || tv.Value.Kind() != constant.String {
				c.CheckAt("C35.R1", fmt.Sprintf("precomputed[%d]: constant tag", p64), w.Pos(te.Pos()), false, "non-constant tag")
				continue
			}
			tags = append(tags, constant.StringVal(tv.Value))
		}
		tables[int(p64)] = tags
	}
	var sizes []int
	for p := range tables {
		sizes = append(sizes, p)
	}
	sort.Ints(sizes)
	c.Anchor("C35.R1", "at least four bundled partition counts", len(sizes) >= 4)
	for _, p := range sizes {
		tags := tables[p]
		site := fmt.Sprintf("precomputed[%d]", p)
		c.CheckAt("C35.R1", site+": exactly P tags", "internal/redispartition/precomputed.go", len(tags) == p, fmt.Sprintf("%d tags for %d partitions", len(tags), p))
		seenTag, seenSlot := map[string]bool{}, map[int]string{}
		dupTag, dupSlot, brace := "", "", ""
		slots := make([]int, 0, len(tags))
		for _, t := range tags {
			if seenTag[t] {
				dupTag = t
			}
			seenTag[t] = true
			if strings.ContainsAny(t, "{}") || t == "" {
				brace = t
			}
			s := int(refCRC16([]byte(t))) % 16384
			if o, dup := seenSlot[s]; dup {
				dupSlot = fmt.Sprintf("%q and %q → slot %d", o, t, s)
			}
			seenSlot[s] = t
			slots = append(slots, s)
		}
		c.CheckAt("C35.R1", site+": tags distinct", "internal/redispartition/precomputed.go", dupTag == "", "duplicate tag "+dupTag)
		c.CheckAt("C35.R1", site+": tags usable as hash tags (non-empty, no braces)", "internal/redispartition/precomputed.go", brace == "", "tag "+brace+" would change the hashed segment")
		c.CheckAt("C35.R1", site+": Redis slots pairwise distinct", "internal/redispartition/precomputed.go", dupSlot == "", "two partitions share a slot and therefore always a node: "+dupSlot)
		for n := 1; n <= p; n++ {
			counts := make([]int, n)
			for _, s := range slots {
				counts[refNode(s, n)]++
			}
			mn, mx := counts[0], counts[0]
			for _, v := range counts {
				if v < mn {
					mn = v
				}
				if v > mx {
					mx = v
				}
			}
			c.CheckAt("C35.R2", fmt.Sprintf("%s: balanced over %d node(s)", site, n), "internal/redispartition/precomputed.go", mx-mn <= 1, fmt.Sprintf("per-node partition counts range %d…%d", mn, mx))
		}
	}
	// R3: constants and table
	if v, ok := w.ConstInt("internal/redispartition", "totalSlots"); c.Anchor("C35.R3", "redispartition.totalSlots", ok) {
		c.CheckAt("C35.R3", "redispartition.totalSlots == 16384", "internal/redispartition/partitions.go", v == 16384, fmt.Sprint(v))
	}
	// crc16tab in the root package
	root := w.ByPath[modPath]
	var tabLit *ast.CompositeLit
	if root != nil {
		for _, f := range root.Syntax {
			ast.Inspect(f, func(n ast.Node) bool {
				vs, ok := n.(*ast.ValueSpec)
				if !ok {
					return true
				}
				for i, name := range vs.Names {
					if name.Name == "crc16tab" && i < len(vs.Values) {
						if cl, ok := vs.Values[i].(*ast.CompositeLit); ok {
							tabLit = cl
						}
					}
				}
				return true
			})
		}
	}
	if c.Anchor("C35.R3", "crc16tab literal", tabLit != nil) {
		bad := -1
		if len(tabLit.Elts) != 256 {
			bad = len(tabLit.Elts)
		}
		for i, e := range tabLit.Elts {
			tv := root.TypesInfo.Types[e]
			if tv.Value == nil {
				bad = i
				continue
			}
			got, _ := constant.Int64Val(constant.ToInt(tv.Value))
			want := refCRC16([]byte{byte(i)})
			if uint16(got) != want && bad < 0 {
				bad = i
			}
		}
		c.CheckAt("C35.R3", "crc16tab equals the CRC16-XMODEM reference table", "redis_cluster_slot.go", bad < 0, fmt.Sprintf("first differing entry: %d", bad))
	}
	// redisSlot masks with 0x3FFF; partition crc16 uses 0x1021 and zero init
	if rs := c.Fn("C35.R3", "centrifuge", "redisSlot"); rs != nil {
		okMask := false
		EachInstr(rs, func(in ssa.Instruction) {
			if b, ok := in.(*ssa.BinOp); ok && b.Op == token.AND {
				if v, isC := constIntOf(b.Y); isC && v == 0x3FFF {
					okMask = true
				}
			}
		})
		c.CheckAt("C35.R3", "redisSlot reduces to 16384 slots", "redis_cluster_slot.go", okMask, "slot = crc & 0x3FFF")
	}
	if cf := c.Fn("C35.R3", "internal/redispartition", "crc16"); cf != nil {
		okPoly, okShift := false, false
		EachInstr(cf, func(in ssa.Instruction) {
			if b, ok := in.(*ssa.BinOp); ok {
				if v, isC := constIntOf(b.Y); isC {
					if b.Op == token.XOR && v == 0x1021 {
						okPoly = true
					}
					if b.Op == token.AND && v == 0x8000 {
						okShift = true
					}
				}
			}
		})
		c.CheckAt("C35.R3", "partition crc16 uses polynomial 0x1021 (MSB first)", "internal/redispartition/partitions.go", okPoly && okShift, "CRC16-XMODEM as Redis computes it")
	}
	if ts := c.Fn("C35.R3", "internal/redispartition", "TagSlot"); ts != nil {
		okMod := false
		EachInstr(ts, func(in ssa.Instruction) {
			if b, ok := in.(*ssa.BinOp); ok && b.Op == token.REM {
				if v, isC := constIntOf(b.Y); isC && v == 16384 {
					okMod = true
				}
			}
		})
		c.CheckAt("C35.R3", "TagSlot reduces modulo 16384", "internal/redispartition/partitions.go", okMod, "slot = crc16(tag) mod 16384")
	}
}
