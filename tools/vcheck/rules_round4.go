package main

import (
	"go/token"
	"go/types"
	"sort"
	"strings"

	"golang.org/x/tools/go/ssa"
)

// Rules added after the fourth round of seeded defects.

func r4doc(prop, rule, doc string) {
	if round2Docs[prop] == nil {
		round2Docs[prop] = map[string]string{}
	}
	round2Docs[prop][rule] = doc
}

func init() {
	r4doc("C03", "C03.R6", "sibling agreement: the recovery-side filter verdict is exactly the negation of filter.Match")
	r4doc("C02", "C02.R8", "sibling agreement: the recovery-side filter verdict is exactly the negation of filter.Match")
	round3Hooks["C03"] = append(round3Hooks["C03"], func(c *Ctx) { runFilterVerdictIsMatch(c, "C03.R6") })
	round3Hooks["C02"] = append(round3Hooks["C02"], func(c *Ctx) { runFilterVerdictIsMatch(c, "C02.R8") })
	r4doc("C04", "C04.R9", "K1: the generation-matched subscribe rollback removes the hub entry on every path")
	round3Hooks["C04"] = append(round3Hooks["C04"], runRollbackAlwaysRemovesHubEntry)
	r4doc("C06", "C06.R5", "K1: ending a subscription that has presence enabled reaches the node-level presence removal on every path")
	round3Hooks["C06"] = append(round3Hooks["C06"], runUnsubscribeRemovesPresence)
}

// runFilterVerdictIsMatch: live delivery (hub broadcast) decides with filter.Match directly; recovery from
// history decides through publicationFiltered. The two agree for every filter and every tag set only if
// publicationFiltered adds nothing of its own: with a filter set its verdict is !Match(filter, tags). So
// every return of the function is either the "no filter" answer, dominated by the nil test of the filter
// alone, or computed from the result of filter.Match. A shortcut for untagged publications (in either
// direction) makes recovery and live delivery disagree for the operators that match an absent key
// (neq, nin, nex, not) or for the positive ones.
func runFilterVerdictIsMatch(c *Ctx, rule string) {
	w := c.W
	fn := w.Func("centrifuge", "publicationFiltered")
	if !c.Anchor(rule, "publicationFiltered", fn) {
		return
	}
	match := w.calleeIs("filter.Match")
	fromMatch := func(call *ssa.Call) bool { return match(call) }
	n := 0
	EachInstr(fn, func(in ssa.Instruction) {
		r, ok := in.(*ssa.Return)
		if !ok {
			return
		}
		vals := retVals(r)
		if len(vals) != 1 {
			return
		}
		n++
		v := vals[0]
		ok2 := false
		why := ""
		if condFromCall(v, fromMatch, 0, map[ssa.Value]bool{}) {
			// no constant may be mixed in through a φ (a && / || with another test)
			ok2 = true
			if p, isPhi := v.(*ssa.Phi); isPhi {
				for _, e := range p.Edges {
					if _, isC := e.(*ssa.Const); isC {
						ok2 = false
						why = "the verdict mixes the Match result with another condition"
					}
				}
			}
		} else if k, isC := boolConst(v); isC && !k {
			// "not filtered" without consulting Match: only when no filter is set
			nilOnly := false
			gs := Guards(r)
			if len(gs) == 1 {
				if b, ok := gs[0].Cond.(*ssa.BinOp); ok && isNilConst(b.Y) {
					if _, isParam := b.X.(*ssa.Parameter); isParam && ((b.Op == token.EQL && gs[0].Pol) || (b.Op == token.NEQ && !gs[0].Pol)) {
						nilOnly = true
					}
				}
			}
			ok2 = nilOnly
			why = "a constant verdict is allowed only under the nil test of the filter alone"
		} else {
			why = "the verdict is neither the Match result nor the no-filter answer"
		}
		c.Check(rule, r, "with a filter set the recovery verdict is the negation of filter.Match", ok2,
			"live delivery uses filter.Match directly; a verdict decided any other way makes recovery deliver what live delivery withholds, or withhold what it delivers ("+why+")")
	})
	c.Anchor(rule, "returns of publicationFiltered", n >= 2)
}

// runRollbackAlwaysRemovesHubEntry (C04.R9): a failed subscribe attempt may have registered in the hub
// after its reservation was already taken away (the unsubscribe wait gate timed out and close() consumed
// it). onSubscribeErrorGen therefore removes the hub entry of its generation whether or not it still owns
// the reservation: every path from entry to a return passes Node.removeSubscription, except the refusal
// of the zero ("any") generation.
func runRollbackAlwaysRemovesHubEntry(c *Ctx) {
	w := c.W
	fn := w.Func("centrifuge", "(*Client).onSubscribeErrorGen")
	if !c.Anchor("C04.R9", "(*Client).onSubscribeErrorGen", fn) {
		return
	}
	remove := w.wrapMust(w.calleeIs("Node.removeSubscription"), 1)
	bad := PathQ{
		Stop: remove,
		Goal: isReturn,
		EdgeCond: func(cond ssa.Value, outcome bool) bool {
			// expectGen == anySubGen: refused, nothing to remove
			if b, ok := cond.(*ssa.BinOp); ok && (b.Op == token.EQL || b.Op == token.NEQ) {
				_, px := b.X.(*ssa.Parameter)
				_, py := b.Y.(*ssa.Parameter)
				_, cx := constIntOf(b.X)
				_, cy := constIntOf(b.Y)
				if (px && cy) || (py && cx) {
					return outcome != (b.Op == token.EQL)
				}
			}
			return true
		},
	}.FromEntry(fn)
	c.CheckAt("C04.R9", "(*centrifuge.Client).onSubscribeErrorGen: every path removes the hub entry of the failed generation", w.Pos(fn.Pos()), bad == nil,
		"a subscribe that registered in the hub after losing its reservation is rolled back without removing the entry: the hub keeps routing the channel to a connection that is not subscribed"+instrAt(w, bad))
}

// runUnsubscribeRemovesPresence (C06.R5): unsubscribe (which close() also goes through) removes the
// node-level presence entry either itself or through removeMapPresence, depending on the map options of
// the subscription. Whatever the combination, a subscription with flagEmitPresence must reach
// Node.removePresence: from the delete of the channel entry, assuming the subscribed and emit-presence
// flags set, every path to a return passes Node.removePresence — directly, or through a helper in which
// the removal is conditional on nothing but the emit-presence flag.
func runUnsubscribeRemovesPresence(c *Ctx) {
	w := c.W
	fn := w.Func("centrifuge", "(*Client).unsubscribe")
	if !c.Anchor("C06.R5", "(*Client).unsubscribe", fn) {
		return
	}
	cvEmit, ok1 := w.ConstInt("centrifuge", "flagEmitPresence")
	cvSub, ok2 := w.ConstInt("centrifuge", "flagSubscribed")
	if !c.Anchor("C06.R5", "flag constants", ok1 && ok2) {
		return
	}
	direct := w.calleeIs("Node.removePresence")
	isEmitTest := func(g Guard) bool { return flagTest(g.Cond, cvEmit, "", g.Pol, 0) }
	removes := func(in ssa.Instruction) bool {
		ci := asCall(in)
		if ci == nil {
			return false
		}
		if _, isDefer := in.(*ssa.Defer); isDefer {
			return false
		}
		if direct(ci) {
			return true
		}
		cal := w.Callee(ci)
		if cal == nil || !w.inModule(cal) {
			return false
		}
		for _, inner := range CallsIn(cal, false, direct) {
			only := true
			for _, g := range Guards(inner) {
				if !isEmitTest(g) {
					only = false
				}
			}
			if only {
				return true
			}
		}
		return false
	}
	n := 0
	for _, del := range channelDeleteSites(w, fn) {
		n++
		bad := PathQ{
			Stop: removes,
			Goal: isReturn,
			EdgeCond: func(cond ssa.Value, outcome bool) bool {
				if flagTest(cond, cvEmit, "", true, 0) || flagTest(cond, cvSub, "", true, 0) {
					return outcome
				}
				// the walk starts at the delete: this goroutine is the one that removed the entry
				if isRemovedNowGuard(Guard{Cond: cond, Pol: true}) {
					return outcome
				}
				return true
			},
		}.From(del)
		c.Check("C06.R5", del, "a subscription with presence enabled reaches Node.removePresence on every path of its teardown", bad == nil,
			"for some combination of subscription options nobody removes the node-level presence entry: presence keeps listing a connection that is not subscribed any more"+instrAt(w, bad))
	}
	c.Anchor("C06.R5", "delete of the channel entry in unsubscribe", n >= 1)
	_ = strings.Contains
}

func init() {
	r4doc("C08", "C08.R6", "K2: the shutdown sweep closes every connection of its snapshot, whatever state the connection is in")
	round3Hooks["C08"] = append(round3Hooks["C08"], runShutdownClosesAll)
}

// runShutdownClosesAll (C08.R6): connShard.shutdown snapshots the shard's connections and closes each one.
// A connection that is still in its connect handshake must be closed as well (close() queues behind
// connectMu and fires once the handshake is over); skipping connections by their state lets one that
// passed the shutdown test before Shutdown began become connected afterwards and stay in the hub for
// good. So the start of the per-connection close is not conditional on any field of the connection.
func runShutdownClosesAll(c *Ctx) {
	w := c.W
	fn := w.Func("centrifuge", "(*connShard).shutdown")
	if !c.Anchor("C08.R6", "(*connShard).shutdown", fn) {
		return
	}
	closes := w.calleeIs("Client.close")
	n := 0
	EachInstr(fn, func(in ssa.Instruction) {
		g, ok := in.(*ssa.Go)
		if !ok {
			return
		}
		mc, ok := g.Call.Value.(*ssa.MakeClosure)
		if !ok {
			return
		}
		cf, ok := mc.Fn.(*ssa.Function)
		if !ok || !w.MayReach(cf, closes, 2) {
			return
		}
		n++
		bad := ""
		for _, gd := range Guards(in) {
			var loads []*ssa.UnOp
			fieldLoadsIn(gd.Cond, 0, map[ssa.Value]bool{}, &loads)
			for _, ld := range loads {
				if fa, ok := ld.X.(*ssa.FieldAddr); ok {
					if t, f, ok := FieldOf(fa); ok && t == "Client" {
						bad = "Client." + f
					}
				}
			}
		}
		c.Check("C08.R6", in, "every connection of the shutdown snapshot is closed, whatever its state", bad == "",
			"the close is skipped depending on "+bad+": a connection that was mid-connect when Shutdown began finishes connecting afterwards and is never closed")
	})
	c.Anchor("C08.R6", "per-connection close goroutine in connShard.shutdown", n >= 1)
}

func init() {
	r4doc("C09", "C09.R6", "K1: every command passes the closed/unusable test of the connection before it is dispatched")
	round3Hooks["C09"] = append(round3Hooks["C09"], runUnusableTestedFirst)
	r4doc("C11", "C11.R5", "K1: closing a connection releases its dictionary codec whatever state the connection was in")
	round3Hooks["C11"] = append(round3Hooks["C11"], runCloseReleasesCodec)
	r4doc("C14", "C14.R8", "lockset freshness: a keyed delta is chosen only on a base test made in the critical section of the send")
	round3Hooks["C14"] = append(round3Hooks["C14"], runKeyedDeltaFreshBase)
}

// runUnusableTestedFirst (C09.R6): a connection whose connect was answered with an error stays in the
// "connecting" state but may already be authenticated; the only thing that keeps later commands away from
// it is the unusable flag, tested at the top of HandleCommand. Every path from the entry of HandleCommand
// to the dispatch passes a read of Client.unusable.
func runUnusableTestedFirst(c *Ctx) {
	w := c.W
	fn := w.Func("centrifuge", "(*Client).HandleCommand")
	if !c.Anchor("C09.R6", "(*Client).HandleCommand", fn) {
		return
	}
	dispatch := w.calleeIs("Client.dispatchCommand")
	if !c.Anchor("C09.R6", "dispatchCommand call in HandleCommand", len(CallsIn(fn, false, dispatch)) > 0) {
		return
	}
	readsUnusable := func(in ssa.Instruction) bool {
		ld, ok := in.(*ssa.UnOp)
		if !ok || ld.Op != token.MUL {
			return false
		}
		fa, ok := ld.X.(*ssa.FieldAddr)
		return ok && fieldAddrIs(fa, "Client", "unusable")
	}
	// (the test may be made by a same-package helper called at the top of HandleCommand)
	stop := func(in ssa.Instruction) bool {
		if readsUnusable(in) {
			return true
		}
		ci := asCall(in)
		if ci == nil {
			return false
		}
		if _, isDefer := in.(*ssa.Defer); isDefer {
			return false
		}
		cal := w.Callee(ci)
		if cal == nil || cal.Pkg != fn.Pkg || !w.inModule(cal) || dispatch(ci) {
			return false
		}
		found := false
		EachInstr(cal, func(x ssa.Instruction) {
			if readsUnusable(x) {
				found = true
			}
		})
		return found
	}
	bad := PathQ{Stop: stop, Goal: instrPred(dispatch)}.FromEntry(fn)
	c.CheckAt("C09.R6", "(*centrifuge.Client).HandleCommand: the unusable flag is read on every path to the dispatch", w.Pos(fn.Pos()), bad == nil,
		"a connection that answered its connect with an error is authenticated but unusable: a command that skips the test is processed and replied to instead of closing the connection with bad request"+instrAt(w, bad))
}

// runCloseReleasesCodec (C11.R5): the dictionary codec is installed on the transport early in connectCmd,
// long before the connection becomes connected, and most failure exits after that rely on close() to
// release it. In close(), from the store that marks the connection closed, every path to a return passes
// CloseDictionaryCompression — except where the transport is not dictionary-aware (the failed type
// assertion).
func runCloseReleasesCodec(c *Ctx) {
	w := c.W
	fn := w.Func("centrifuge", "(*Client).close")
	if !c.Anchor("C11.R5", "(*Client).close", fn) {
		return
	}
	cv, ok := w.ConstInt("centrifuge", "statusClosed")
	if !c.Anchor("C11.R5", "constant statusClosed", ok) {
		return
	}
	releaseDirect := func(in ssa.Instruction) bool {
		ci := asCall(in)
		if ci == nil {
			return false
		}
		cc := ci.Common()
		return cc.IsInvoke() && cc.Method.Name() == "CloseDictionaryCompression"
	}
	// directly, or in a teardown helper of the same package (where the same type assertion guards it)
	release := func(in ssa.Instruction) bool {
		if releaseDirect(in) {
			return true
		}
		ci := asCall(in)
		if ci == nil {
			return false
		}
		if _, isDefer := in.(*ssa.Defer); isDefer {
			return false
		}
		cal := w.Callee(ci)
		if cal == nil || cal.Pkg != fn.Pkg || !w.inModule(cal) {
			return false
		}
		found := false
		EachInstr(cal, func(x ssa.Instruction) {
			if !releaseDirect(x) {
				return
			}
			// in the helper the release may depend on the type assertion only
			only := true
			for _, g := range Guards(x) {
				ex, ok := g.Cond.(*ssa.Extract)
				if !ok {
					only = false
					continue
				}
				if _, isTA := ex.Tuple.(*ssa.TypeAssert); !isTA {
					only = false
				}
			}
			if only {
				found = true
			}
		})
		return found
	}
	n := 0
	for _, st := range storesToField(fn, false, "Client", "status") {
		if k, isK := constIntOf(st.Val); !isK || k != cv {
			continue
		}
		n++
		bad := PathQ{
			Stop: release,
			Goal: isReturn,
			EdgeCond: func(cond ssa.Value, outcome bool) bool {
				if ex, ok := cond.(*ssa.Extract); ok && ex.Index == 1 {
					if _, isTA := ex.Tuple.(*ssa.TypeAssert); isTA && !outcome {
						return false
					}
				}
				return true
			},
		}.From(st)
		c.Check("C11.R5", st, "once the connection is marked closed every path releases the dictionary codec", bad == nil,
			"the codec is installed before the connection is connected: a close that skips the release for some states leaks it on every connect that fails or is disconnected after the codec was installed"+instrAt(w, bad))
	}
	c.Anchor("C11.R5", "store of statusClosed in close()", n >= 1)
}

// runKeyedDeltaFreshBase (C14.R8): keyedWritePublication encodes outside c.mu and decides delta-vs-full
// after re-taking the lock. Between the two sections the key's state can be replaced (a re-track resets
// version and deltaReady), so the delta may be chosen only on a test of the key state's version and
// deltaReady read in the critical section of the send: on some incoming edge of the φ that selects the
// bytes to send, the guards contain loads of keyedKeyState.version and keyedKeyState.deltaReady with no
// lock event between the load and the send.
func runKeyedDeltaFreshBase(c *Ctx) {
	w := c.W
	fn := w.Func("centrifuge", "(*Client).keyedWritePublication")
	if !c.Anchor("C14.R8", "(*Client).keyedWritePublication", fn) {
		return
	}
	n := 0
	for _, ci := range CallsIn(fn, false, w.calleeIs("Client.writeEncodedPushData")) {
		phi, ok := ci.Common().Args[1].(*ssa.Phi)
		if !ok {
			if len(ci.Common().Args) > 0 {
				phi, ok = ci.Common().Args[0].(*ssa.Phi)
			}
			if !ok {
				continue
			}
		}
		n++
		fresh := func(ld *ssa.UnOp) bool {
			stale := false
			EachInstr(fn, func(u ssa.Instruction) {
				if _, isDefer := u.(*ssa.Defer); isDefer {
					return
				}
				x := asCall(u)
				if x == nil {
					return
				}
				if k, _ := lockEvent(x); k != "" && Reaches(ld, u) && Reaches(u, ci) {
					stale = true
				}
			})
			return !stale
		}
		okEdge := false
		for _, pred := range phi.Block().Preds {
			if len(pred.Instrs) == 0 {
				continue
			}
			haveVersion, haveReady := false, false
			for _, g := range Guards(pred.Instrs[len(pred.Instrs)-1]) {
				var loads []*ssa.UnOp
				fieldLoadsIn(g.Cond, 0, map[ssa.Value]bool{}, &loads)
				for _, ld := range loads {
					fa := ld.X.(*ssa.FieldAddr)
					if fieldAddrIs(fa, "keyedKeyState", "version") && fresh(ld) {
						haveVersion = true
					}
					if fieldAddrIs(fa, "keyedKeyState", "deltaReady") && fresh(ld) {
						haveReady = true
					}
				}
			}
			if haveVersion && haveReady {
				okEdge = true
			}
		}
		c.Check("C14.R8", ci, "the delta-vs-full choice tests the key state's version and deltaReady read in the critical section of the send", okEdge,
			"the key state can be replaced between the encode and the send (a re-track resets version and deltaReady): a choice made on values read before the lock was re-taken sends a delta to a client that holds no base")
	}
	c.Anchor("C14.R8", "send of a φ-selected payload in keyedWritePublication", n >= 1)
}

func init() {
	r4doc("C17", "C17.R7", "pairing: an element removed from the stream's list takes its offset-index entry with it")
	round3Hooks["C17"] = append(round3Hooks["C17"], runStreamListIndexPairing)
	r4doc("C18", "C18.R5", "sibling agreement: every history read refreshes the stream's meta deadline (Redis expires the meta key on every read)")
	round3Hooks["C18"] = append(round3Hooks["C18"], runHistoryReadRefreshesMeta)
	r4doc("C20", "C20.R6", "state left behind: Clear drops every per-channel entry the memory map broker keeps")
	round3Hooks["C20"] = append(round3Hooks["C20"], runClearDropsPerChannelState)
}

func isMapDeleteOf(in ssa.Instruction, typ, field string) bool {
	call, ok := in.(*ssa.Call)
	if !ok {
		return false
	}
	b, ok := call.Call.Value.(*ssa.Builtin)
	return ok && b.Name() == "delete" && len(call.Call.Args) == 2 && loadsField(call.Call.Args[0], typ, field)
}

// runStreamListIndexPairing (C17.R7): memstream.Stream keeps its items in a list and an offset → element
// index; Get trusts the index. Every list.Remove on Stream.list is followed, before the next removal or
// the return, by a delete from Stream.index: an index entry that outlives its element leads Get to an
// unlinked element (one stale publication, then nothing).
func runStreamListIndexPairing(c *Ctx) {
	w := c.W
	n := 0
	for _, f := range moduleFuncs(w) {
		if f.Pkg == nil || !strings.HasSuffix(f.Pkg.Pkg.Path(), "internal/memstream") {
			continue
		}
		EachInstr(f, func(in ssa.Instruction) {
			call, ok := in.(*ssa.Call)
			if !ok {
				return
			}
			cal := call.Call.StaticCallee()
			if cal == nil || cal.Pkg == nil || cal.Pkg.Pkg.Path() != "container/list" || cal.Name() != "Remove" || len(call.Call.Args) == 0 || !loadsField(call.Call.Args[0], "Stream", "list") {
				return
			}
			n++
			rm := in
			first := true
			bad := PathQ{
				Stop: func(x ssa.Instruction) bool { return isMapDeleteOf(x, "Stream", "index") },
				Goal: func(x ssa.Instruction) bool {
					if x == rm {
						if first {
							first = false
							return false
						}
						return true
					}
					return isReturn(x)
				},
			}.From(in)
			c.Check("C17.R7", in, "an element removed from Stream.list has its Stream.index entry deleted before the next removal or the return", bad == nil,
				"Get looks offsets up in the index: an entry left behind points at an unlinked element, so a read since a trimmed offset returns one stale publication and stops"+instrAt(w, bad))
		})
	}
	c.Anchor("C17.R7", "list.Remove calls on Stream.list", n >= 1)
}

// runHistoryReadRefreshesMeta (C18.R5): both Redis history scripts expire the meta key on every call,
// whatever the filter; the memory broker does the same by moving historyHub.removes[ch] in getLocked. A
// read path that answers without that (a position-only fast path) lets the meta of a channel that is
// read but not written expire: offset and epoch restart while Redis keeps them. Every path from the entry
// of historyHub.get to a return passes a write of historyHub.removes (directly or in the callee).
func runHistoryReadRefreshesMeta(c *Ctx) {
	w := c.W
	fn := w.Func("centrifuge", "(*historyHub).get")
	if !c.Anchor("C18.R5", "(*historyHub).get", fn) {
		return
	}
	refreshes := func(in ssa.Instruction) bool {
		if mu, ok := in.(*ssa.MapUpdate); ok && loadsField(mu.Map, "historyHub", "removes") {
			return true
		}
		ci := asCall(in)
		if ci == nil {
			return false
		}
		if _, isDefer := in.(*ssa.Defer); isDefer {
			return false
		}
		cal := w.Callee(ci)
		var writes func(f *ssa.Function, d int) bool
		writes = func(f *ssa.Function, d int) bool {
			if f == nil || !w.inModule(f) || d < 0 {
				return false
			}
			if len(mapUpdatesOf(f, false, "historyHub", "removes")) > 0 {
				return true
			}
			found := false
			EachInstr(f, func(x ssa.Instruction) {
				if found {
					return
				}
				if xc := asCall(x); xc != nil {
					if g := w.Callee(xc); g != nil && g.Pkg == f.Pkg && writes(g, d-1) {
						found = true
					}
				}
			})
			return found
		}
		return writes(cal, 2)
	}
	bad := PathQ{Stop: refreshes, Goal: isReturn}.FromEntry(fn)
	c.CheckAt("C18.R5", "(*centrifuge.historyHub).get: every read refreshes the stream's meta deadline", w.Pos(fn.Pos()), bad == nil,
		"a read answered without touching historyHub.removes does not keep the stream's meta alive: a channel that is only read expires, its offset and epoch restart, while the Redis scripts refresh the meta key on every read"+instrAt(w, bad))
}

// runClearDropsPerChannelState (C20.R6): Clear destroys a map channel. Whatever the broker keeps per
// channel in its own maps (idempotency results) describes the destroyed channel and must go with it:
// for every map field of MemoryMapBroker that some method writes with a key taken from its channel
// parameter, Clear (or a helper it calls) deletes from that field.
func runClearDropsPerChannelState(c *Ctx) {
	w := c.W
	clearFn := w.Func("centrifuge", "(*MemoryMapBroker).Clear")
	if !c.Anchor("C20.R6", "(*MemoryMapBroker).Clear", clearFn) {
		return
	}
	fields := map[string]string{}
	for _, f := range moduleFuncs(w) {
		if f.Signature.Recv() == nil || typeShort(f.Signature.Recv().Type()) != "MemoryMapBroker" {
			continue
		}
		EachInstr(f, func(in ssa.Instruction) {
			mu, ok := in.(*ssa.MapUpdate)
			if !ok {
				return
			}
			if _, isParam := mu.Key.(*ssa.Parameter); !isParam || !paramOfKind(mu.Key, 17 /* types.String */) {
				return
			}
			for fa := mu.Map; ; {
				ld, ok := fa.(*ssa.UnOp)
				if !ok {
					break
				}
				if a, ok := ld.X.(*ssa.FieldAddr); ok {
					if t, fld, ok := FieldOf(a); ok && t == "MemoryMapBroker" {
						fields[fld] = FuncName(f)
					}
				}
				break
			}
		})
	}
	if !c.Anchor("C20.R6", "per-channel map fields of MemoryMapBroker", len(fields) >= 1) {
		return
	}
	dv := w.Deep(clearFn, 2)
	for fld, writer := range fields {
		found := false
		dv.Each(func(in ssa.Instruction) {
			if isMapDeleteOf(in, "MemoryMapBroker", fld) {
				found = true
			}
		})
		c.CheckAt("C20.R6", "(*centrifuge.MemoryMapBroker).Clear: drops the channel's entry of MemoryMapBroker."+fld, w.Pos(clearFn.Pos()), found,
			"the entry (written by "+writer+") outlives the channel it describes: after Clear an operation that reuses an idempotency key is answered from the destroyed channel's results — suppressed, with a position of a stream that no longer exists")
	}
}

func init() {
	r4doc("C19", "C19.R7", "injectivity: the idempotency result cache key distinguishes (channel, key) pairs")
	round3Hooks["C19"] = append(round3Hooks["C19"], runResultCacheKeyInjective)
}

// valueParts: the operands of a string concatenation (as values).
func valueParts(v ssa.Value, depth int, out *[]ssa.Value) {
	if depth > 12 {
		*out = append(*out, v)
		return
	}
	switch x := v.(type) {
	case *ssa.BinOp:
		if x.Op == token.ADD {
			valueParts(x.X, depth+1, out)
			valueParts(x.Y, depth+1, out)
			return
		}
	case *ssa.ChangeType:
		valueParts(x.X, depth+1, out)
		return
	}
	*out = append(*out, v)
}

// runResultCacheKeyInjective (C19.R7): the memory broker answers a publish whose (channel, idempotency
// key) is in its result cache as a retry. Channel and key are both free-form strings; a cache key that
// simply joins them with a separator maps ("a_b","c") and ("a","b_c") to the same entry, so a first-time
// publish into one channel is suppressed by a publish into another. A key built by concatenation must
// either contain at most one free-form string, or carry the length of one of them (length-prefixed, hence
// uniquely decodable); a nested map keyed by channel needs no concatenation at all.
func runResultCacheKeyInjective(c *Ctx) {
	w := c.W
	n := 0
	check := func(in ssa.Instruction, key ssa.Value) {
		// follow a helper that builds the key
		if call, ok := key.(*ssa.Call); ok {
			if cal := w.Callee(call); cal != nil && w.inModule(cal) {
				EachInstr(cal, func(x ssa.Instruction) {
					if r, ok := x.(*ssa.Return); ok {
						for _, v := range retVals(r) {
							key = v
						}
					}
				})
			}
		}
		var parts []ssa.Value
		valueParts(key, 0, &parts)
		free, hasLen := 0, false
		for _, p := range parts {
			if _, isConst := constStrOf(p); isConst {
				continue
			}
			if call, ok := p.(*ssa.Call); ok {
				// strconv.Itoa(len(x)) and friends: a length
				if strings.Contains(D(call), "len(") {
					hasLen = true
					continue
				}
			}
			free++
		}
		n++
		c.Check("C19.R7", in, "the result cache key is injective in (channel, idempotency key)", free <= 1 || hasLen,
			"two free-form strings joined by a constant separator: (\"a_b\",\"c\") and (\"a\",\"b_c\") share a cache entry, so a first-time publish into one channel is answered as a retry of a publish into another — suppressed, nothing appended or delivered")
	}
	for _, f := range moduleFuncs(w) {
		EachInstr(f, func(in ssa.Instruction) {
			switch x := in.(type) {
			case *ssa.Lookup:
				if loadsField(x.X, "MemoryBroker", "resultCache") {
					check(in, x.Index)
				}
			case *ssa.MapUpdate:
				if loadsField(x.Map, "MemoryBroker", "resultCache") {
					check(in, x.Key)
				}
			}
		})
	}
	c.Anchor("C19.R7", "lookups and updates of MemoryBroker.resultCache", n >= 2)
}

func init() {
	r4doc("C26", "C26.R5", "K2: the dissolver's queue refuses a job only when it is closed")
	r4doc("C40", "C40.R6", "K2: the dissolver's queue refuses a job only when it is closed")
	round3Hooks["C26"] = append(round3Hooks["C26"], func(c *Ctx) { runQueueRefusesOnlyWhenClosed(c, "C26.R5") })
	round3Hooks["C40"] = append(round3Hooks["C40"], func(c *Ctx) { runQueueRefusesOnlyWhenClosed(c, "C40.R6") })
	r4doc("C25", "C25.R7", "state left behind: ending a keyed subscription drops every per-channel entry of the keyed state on every path")
	round3Hooks["C25"] = append(round3Hooks["C25"], runCleanupKeyedDropsAll)
	r4doc("C27", "C27.R7", "state left behind: a pooled control message has every field it ever carries overwritten or cleared")
	round3Hooks["C27"] = append(round3Hooks["C27"], runPooledControlMessageReset)
}

// runQueueRefusesOnlyWhenClosed: deferred broker unsubscribes (and their retries) are handed to the
// dissolver with the result of Add ignored — correct as long as Add can only fail on a closed queue. A
// bound on the queue turns "ignored" into "silently lost": the channel stays subscribed in the broker for
// ever. Every `return false` of queueImpl.Add is dominated by the closed test.
func runQueueRefusesOnlyWhenClosed(c *Ctx, rule string) {
	w := c.W
	fn := w.Func("internal/dissolve", "(*queueImpl).Add")
	if !c.Anchor(rule, "(*queueImpl).Add", fn) {
		return
	}
	n := 0
	EachInstr(fn, func(in ssa.Instruction) {
		r, ok := in.(*ssa.Return)
		if !ok {
			return
		}
		vals := retVals(r)
		if len(vals) != 1 {
			return
		}
		k, isK := boolConst(vals[0])
		if !isK || k {
			return
		}
		n++
		closed := Guarded(r, func(g Guard) bool {
			return g.Pol && loadsField(g.Cond, "queueImpl", "closed")
		})
		c.Check(rule, r, "Add refuses a job only on a closed queue", closed,
			"callers drop the result of Submit/Add (removeSubscription, the retry in runWorker): a refusal for any other reason loses a deferred broker unsubscribe for good")
	})
	c.Anchor(rule, "refusing returns of queueImpl.Add", n >= 1)
}

// runCleanupKeyedDropsAll (C25.R7): cleanupKeyed ends the keyed (shared-poll) side of a subscription. The
// per-channel entries of the keyed state (tracked keys, negotiated delta state, expiry hint) describe that
// subscription; one that survives is picked up by the next subscription to the same channel (a later
// subscribe without delta is then served deltas). For every map of the keyed state that cleanupKeyed
// deletes from under its channel parameter, every path from entry to a return passes that delete — except
// paths on which a pointer or map was found nil.
func runCleanupKeyedDropsAll(c *Ctx) {
	w := c.W
	fn := w.Func("centrifuge", "(*Client).cleanupKeyed")
	if !c.Anchor("C25.R7", "(*Client).cleanupKeyed", fn) {
		return
	}
	type fld struct{ typ, name string }
	fields := map[fld]bool{}
	EachInstr(fn, func(in ssa.Instruction) {
		call, ok := in.(*ssa.Call)
		if !ok {
			return
		}
		b, ok := call.Call.Value.(*ssa.Builtin)
		if !ok || b.Name() != "delete" || len(call.Call.Args) != 2 {
			return
		}
		if _, isParam := call.Call.Args[1].(*ssa.Parameter); !isParam {
			return
		}
		if ld, ok := call.Call.Args[0].(*ssa.UnOp); ok {
			if fa, ok := ld.X.(*ssa.FieldAddr); ok {
				if t, f, ok := FieldOf(fa); ok {
					fields[fld{t, f}] = true
				}
			}
		}
	})
	if !c.Anchor("C25.R7", "per-channel deletes in cleanupKeyed", len(fields) >= 2) {
		return
	}
	for f := range fields {
		f := f
		bad := PathQ{
			Stop: func(in ssa.Instruction) bool { return isMapDeleteOf(in, f.typ, f.name) },
			Goal: isReturn,
			EdgeCond: func(cond ssa.Value, outcome bool) bool {
				if b, ok := cond.(*ssa.BinOp); ok && (isNilConst(b.X) || isNilConst(b.Y)) {
					isNil := (b.Op == token.EQL) == outcome
					if isNil {
						return false
					}
				}
				return true
			},
		}.FromEntry(fn)
		c.CheckAt("C25.R7", "(*centrifuge.Client).cleanupKeyed: every path drops the channel's entry of "+f.typ+"."+f.name, w.Pos(fn.Pos()), bad == nil,
			"the entry outlives the subscription it describes and is picked up by the next subscription to the same channel (negotiated delta state served to a subscriber that did not ask for delta)"+instrAt(w, bad))
	}
}

// runPooledControlMessageReset (C27.R7): a control message taken from a sync.Pool still holds what its
// previous use put there. Every field the function ever stores into it must be stored on every path from
// the Get to the first use of the message, or be cleared by the function that returns it to the pool;
// otherwise an option of an earlier call (a recovery position) travels to the other nodes with an
// unrelated later call. (No control message is pooled on the pinned tree: zero instances there.)
func runPooledControlMessageReset(c *Ctx) {
	w := c.W
	n := 0
	for _, f := range moduleFuncs(w) {
		EachInstr(f, func(in ssa.Instruction) {
			ta, ok := in.(*ssa.TypeAssert)
			if !ok {
				return
			}
			get, ok := ta.X.(*ssa.Call)
			if !ok {
				return
			}
			cal := get.Call.StaticCallee()
			if cal == nil || cal.Pkg == nil || cal.Pkg.Pkg.Path() != "sync" || cal.Name() != "Get" {
				return
			}
			if !strings.Contains(ta.AssertedType.String(), "controlpb.") {
				return
			}
			var obj ssa.Value = ta
			if ta.CommaOk {
				return
			}
			// fields stored in f, and fields stored by helpers that receive obj (the put helper)
			stored := map[int][]*ssa.Store{}
			cleared := map[int]bool{}
			var uses []ssa.Instruction
			for _, r := range *obj.Referrers() {
				switch x := r.(type) {
				case *ssa.FieldAddr:
					for _, rr := range *x.Referrers() {
						if st, ok := rr.(*ssa.Store); ok && st.Addr == ssa.Value(x) {
							stored[x.Field] = append(stored[x.Field], st)
						}
					}
				case ssa.CallInstruction:
					if cf := w.Callee(x); cf != nil && w.inModule(cf) && len(cf.Params) > 0 {
						// helper: which fields of its parameter does it store?
						for _, p := range cf.Params {
							if p.Type().String() != obj.Type().String() {
								continue
							}
							for _, pr := range *p.Referrers() {
								if fa, ok := pr.(*ssa.FieldAddr); ok {
									for _, rr := range *fa.Referrers() {
										if st, ok := rr.(*ssa.Store); ok && st.Addr == ssa.Value(fa) {
											cleared[fa.Field] = true
										}
									}
								}
							}
						}
					}
					if _, isDefer := r.(*ssa.Defer); !isDefer {
						uses = append(uses, r)
					}
				default:
					if _, isFA := r.(*ssa.FieldAddr); !isFA {
						uses = append(uses, r)
					}
				}
			}
			n++
			for idx, sts := range stored {
				if cleared[idx] {
					continue
				}
				isStore := func(x ssa.Instruction) bool {
					for _, st := range sts {
						if x == ssa.Instruction(st) {
							return true
						}
					}
					return false
				}
				isUse := func(x ssa.Instruction) bool {
					for _, u := range uses {
						if x == u {
							return true
						}
					}
					return isReturn(x)
				}
				bad := PathQ{Stop: isStore, Goal: isUse}.From(in)
				name := "field #" + string(rune('0'+idx%10))
				if st, ok := deref(obj.Type()).Underlying().(*types.Struct); ok && idx < st.NumFields() {
					name = st.Field(idx).Name()
				}
				c.Check("C27.R7", sts[0], "pooled control message: field "+name+" is overwritten on every path or cleared before pooling", bad == nil,
					"the field keeps the value of an earlier call on the path that does not set it: that value is sent to the other nodes with an unrelated operation, so they act differently from the calling node"+instrAt(w, bad))
			}
		})
	}
	c.CheckAt("C27.R7", "pooled control messages examined", "node.go", true, "")
	_ = n
}


func init() {
	r4doc("C29", "C29.R6", "K1: the decompressed-size budget is armed for every message")
	round3Hooks["C29"] = append(round3Hooks["C29"], runLimitArmedPerMessage)
	r4doc("C30", "C30.R6", "io.Reader contract: the bytes a Read returned are accounted for before its error is looked at")
	round3Hooks["C30"] = append(round3Hooks["C30"], runReadCountsBeforeError)
	r4doc("C31", "C31.R4", "K1: our own close frame is recorded before it is written (and can be answered)")
	round3Hooks["C31"] = append(round3Hooks["C31"], runCloseRecordedBeforeWrite)
}

// runLimitArmedPerMessage (C29.R6): the decompressed read limit is a limit per message. NextReader wraps
// the reader of every compressed message into a limitedReader; the budget (remaining) must be set there,
// for that message: every store of a *limitedReader into Conn.reader is preceded, in NextReader, by a
// store of the remaining field of that very object. A reader armed once per connection turns the limit
// into a connection-wide budget: valid later messages are cut off with "read limit exceeded".
func runLimitArmedPerMessage(c *Ctx) {
	w := c.W
	fn := w.Func("internal/websocket", "(*Conn).NextReader")
	if !c.Anchor("C29.R6", "(*Conn).NextReader", fn) {
		return
	}
	n := 0
	for _, st := range storesToField(fn, false, "Conn", "reader") {
		mi, ok := st.Val.(*ssa.MakeInterface)
		if !ok || !strings.HasSuffix(typeShort(mi.X.Type()), "limitedReader") {
			continue
		}
		n++
		obj := mi.X
		armed := false
		// a constructor call made for this message: the object is fresh and the constructor sets its budget
		if call, ok := obj.(*ssa.Call); ok {
			if h := call.Call.StaticCallee(); h != nil && len(h.Blocks) > 0 && h.Pkg == fn.Pkg {
				EachInstr(h, func(in ssa.Instruction) {
					if s2, ok := in.(*ssa.Store); ok {
						if fa, ok := s2.Addr.(*ssa.FieldAddr); ok && fieldAddrIs(fa, "limitedReader", "remaining") {
							if _, isAlloc := fa.X.(*ssa.Alloc); isAlloc {
								armed = true
							}
						}
					}
				})
			}
		}
		EachInstr(fn, func(in ssa.Instruction) {
			s2, ok := in.(*ssa.Store)
			if !ok {
				return
			}
			fa, ok := s2.Addr.(*ssa.FieldAddr)
			if !ok || !fieldAddrIs(fa, "limitedReader", "remaining") {
				return
			}
			if (fa.X == obj || D(fa.X) == D(obj)) && Precedes(s2, st) {
				armed = true
			}
		})
		c.Check("C29.R6", st, "the limitedReader installed for a message has its budget set for that message", armed,
			"the budget is not re-armed when a new message starts: the inflated sizes of all compressed messages of the connection add up, and a valid later message is rejected with read limit exceeded (1009)")
	}
	c.Anchor("C29.R6", "installation of a limitedReader in NextReader", n >= 1)
}

// runReadCountsBeforeError (C30.R6): io.Reader may return n > 0 together with an error (io.EOF included);
// the caller must consume those n bytes first. In the websocket package, a store that accumulates the n
// of an io.Reader Read call is not conditional on that call's error.
func runReadCountsBeforeError(c *Ctx) {
	w := c.W
	n := 0
	for _, f := range moduleFuncs(w) {
		if f.Pkg == nil || !strings.HasSuffix(f.Pkg.Pkg.Path(), "internal/websocket") {
			continue
		}
		EachInstr(f, func(in ssa.Instruction) {
			call, ok := in.(*ssa.Call)
			if !ok || !call.Call.IsInvoke() || call.Call.Method.Name() != "Read" {
				return
			}
			var nv, ev ssa.Value
			for _, r := range *call.Referrers() {
				if ex, ok := r.(*ssa.Extract); ok {
					if ex.Index == 0 {
						nv = ex
					} else {
						ev = ex
					}
				}
			}
			if nv == nil || ev == nil {
				return
			}
			// accumulating stores of n: field = field + n
			for _, r := range *nv.Referrers() {
				add, ok := r.(*ssa.BinOp)
				if !ok || add.Op != token.ADD {
					continue
				}
				for _, rr := range *add.Referrers() {
					st, ok := rr.(*ssa.Store)
					if !ok {
						continue
					}
					if _, isField := st.Addr.(*ssa.FieldAddr); !isField {
						continue
					}
					n++
					onErr := GuardedBy(st, func(g Guard) bool {
						seen := map[ssa.Value]bool{}
						var dep func(v ssa.Value, d int) bool
						dep = func(v ssa.Value, d int) bool {
							if v == nil || seen[v] || d > 5 {
								return false
							}
							seen[v] = true
							if v == ev {
								return true
							}
							switch x := v.(type) {
							case *ssa.BinOp:
								return dep(x.X, d+1) || dep(x.Y, d+1)
							case *ssa.UnOp:
								return dep(x.X, d+1)
							case *ssa.Phi:
								for _, e := range x.Edges {
									if dep(e, d+1) {
										return true
									}
								}
							}
							return false
						}
						return dep(g.Cond, 0)
					})
					c.Check("C30.R6", st, "the bytes returned by Read are counted whatever error came with them", !onErr,
						"a reader may hand out its last bytes together with io.EOF: counting them only when err == nil drops the tail of the message — the peer reads a truncated message and no error is reported")
				}
			}
		})
	}
	c.Anchor("C30.R6", "accumulating stores of a Read count in the websocket package", n >= 1)
}

// runCloseRecordedBeforeWrite (C31.R4): the connection records the first close frame it sent or received
// (first wins; the read loop records the peer's). Our own close must be recorded before it is written:
// once it is on the wire the peer's reply can be processed — and recorded as the first, incoming close —
// before the writer gets to record its own. Assuming the close opcode, every path from the entry of
// WriteControl to the network write passes recordCloseCode.
func runCloseRecordedBeforeWrite(c *Ctx) {
	w := c.W
	fn := w.Func("internal/websocket", "(*Conn).WriteControl")
	if !c.Anchor("C31.R4", "(*Conn).WriteControl", fn) {
		return
	}
	cv, ok := w.ConstInt("internal/websocket", "CloseMessage")
	if !c.Anchor("C31.R4", "constant CloseMessage", ok) {
		return
	}
	record := w.calleeIs("Conn.recordCloseCode")
	if !c.Anchor("C31.R4", "recordCloseCode call in WriteControl", len(CallsIn(fn, false, record)) > 0) {
		return
	}
	netWrite := func(in ssa.Instruction) bool {
		call, ok := in.(*ssa.Call)
		return ok && call.Call.IsInvoke() && call.Call.Method.Name() == "Write"
	}
	bad := PathQ{
		Stop: instrPred(record),
		Goal: netWrite,
		EdgeCond: func(cond ssa.Value, outcome bool) bool {
			b, ok := cond.(*ssa.BinOp)
			if !ok || (b.Op != token.EQL && b.Op != token.NEQ) {
				return true
			}
			_, isParam := b.X.(*ssa.Parameter)
			k, isK := constIntOf(b.Y)
			if !isParam || !isK || k != cv {
				return true
			}
			// assume messageType == CloseMessage
			return outcome == (b.Op == token.EQL)
		},
	}.FromEntry(fn)
	c.CheckAt("C31.R4", "(*internal/websocket.Conn).WriteControl: a close frame is recorded before it is written", w.Pos(fn.Pos()), bad == nil,
		"recorded after the write, the peer's close reply can be recorded first by the read loop: a close this side initiated is reported as initiated by the peer"+instrAt(w, bad))
}

func init() {
	r4doc("C06", "C06.R6", "K2: the compensation scan visits every snapshot item (no exit on the first raced channel)")
	round3Hooks["C06"] = append(round3Hooks["C06"], runCompensationScansAll)
}

// runCompensationScansAll (C06.R6): a presence tick can race several unsubscribes at once
// (Node.Unsubscribe(user, "") tears down all channels of a connection back to back), so the scan that
// finds raced channels must go on after the first hit: on the not-found edge of the membership lookup the
// path returns to the loop test before it can leave the loop.
func runCompensationScansAll(c *Ctx) {
	w := c.W
	fn := w.Func("centrifuge", "(*Client).compensateRacedPresence")
	if !c.Anchor("C06.R6", "(*Client).compensateRacedPresence", fn) {
		return
	}
	isLoopTest := func(in ssa.Instruction) bool {
		ifi, ok := in.(*ssa.If)
		if !ok {
			return false
		}
		b, ok := ifi.Cond.(*ssa.BinOp)
		return ok && b.Op == token.LSS && strings.HasPrefix(D(b.Y), "len(")
	}
	n := 0
	for _, b := range fn.Blocks {
		if len(b.Instrs) == 0 {
			continue
		}
		ifi, ok := b.Instrs[len(b.Instrs)-1].(*ssa.If)
		if !ok {
			continue
		}
		ex, ok := ifi.Cond.(*ssa.Extract)
		if !ok || ex.Index != 1 {
			continue
		}
		lk, ok := ex.Tuple.(*ssa.Lookup)
		if !ok || !loadsField(lk.X, "Client", "channels") {
			continue
		}
		n++
		// not found = false edge of `ok`
		bad := PathQ{
			Stop: isLoopTest,
			Goal: func(x ssa.Instruction) bool { return isReturn(x) || isUnlockOf(x, "Client") },
		}.FromBlock(b.Succs[1])
		c.Check("C06.R6", ifi, "after a raced channel is found the scan goes on to the next snapshot item", bad == nil,
			"one tick can race several channels (an all-channels unsubscribe): stopping at the first leaves the others with a presence entry for a connection that is not subscribed"+instrAt(w, bad))
	}
	c.Anchor("C06.R6", "membership lookup in compensateRacedPresence", n >= 1)
}

func init() {
	r4doc("C39", "C39.R6", "K3 lockset: the subscribe-time buffer is read and written only under its own mutex")
	round3Hooks["C39"] = append(round3Hooks["C39"], runPubBufferUnderLock)
	r4doc("C42", "C42.R5", "K2: between the capacity read that selects the size class and the Put nothing changes the buffer's capacity")
	round3Hooks["C42"] = append(round3Hooks["C42"], runPutKeepsCapacity)
	r4doc("C41", "C41.R6", "value flow: a control command addressed to one node is published to that node, never widened to all")
	round3Hooks["C41"] = append(round3Hooks["C41"], runControlTargetUnchanged)
	r4doc("C36", "C36.R6", "K2: the stale timer never closes an authenticated, usable connection")
	round3Hooks["C36"] = append(round3Hooks["C36"], runStaleOnlyUnauthenticated)
}

// runPubBufferUnderLock (C39.R6): publications that arrive while a subscribe is recovering are appended
// to subscribeState.pubBuffer under pubBufferMu, and the subscriber takes the whole buffer under the same
// mutex. Any read of the buffer (its length included) made before the mutex is held can be stale: a
// publication appended in between is neither returned nor delivered later, and because the lost entries
// are the tail no gap is detected.
func runPubBufferUnderLock(c *Ctx) {
	w := c.W
	n := 0
	for _, f := range moduleFuncs(w) {
		if f.Pkg == nil || !strings.HasSuffix(f.Pkg.Pkg.Path(), "internal/recovery") {
			continue
		}
		for _, acc := range FieldAccesses(f, "subscribeState", "pubBuffer") {
			n++
			held := w.Locks().HeldAt(acc.In)
			c.Check("C39.R6", acc.In, "subscribeState.pubBuffer accessed ("+acc.Kind+") under pubBufferMu", held.Holds("pubBufferMu", true),
				"a length or content read outside the buffer's mutex can miss a publication appended meanwhile: it is dropped with the buffer and never delivered (held: "+held.String()+")")
		}
	}
	c.Anchor("C39.R6", "accesses of subscribeState.pubBuffer", n >= 3)
}

// runPutKeepsCapacity (C42.R5): PutByteBuffer files a buffer under the size class of the capacity it read,
// then resets it. The reset may only re-slice (which keeps the capacity): a store into ByteBuffer.B /
// itemBuf.B of anything else (nil, a fresh smaller slice) between the capacity read and the Put leaves a
// buffer in a class it no longer fits, and the next Get of that class hands out an undersized buffer.
func runPutKeepsCapacity(c *Ctx) {
	w := c.W
	n := 0
	for _, fam := range []struct{ pkg, put, typ string }{{"internal/bpool", "PutByteBuffer", "ByteBuffer"}, {"centrifuge", "putItemBuf", "itemBuf"}} {
		put := w.Func(fam.pkg, fam.put)
		if !c.Anchor("C42.R5", fam.put, put) {
			continue
		}
		w.Deep(put, 2).Each(func(in ssa.Instruction) {
			st, ok := in.(*ssa.Store)
			if !ok {
				return
			}
			fa, ok := st.Addr.(*ssa.FieldAddr)
			if !ok || !fieldAddrIs(fa, fam.typ, "B") {
				return
			}
			n++
			sl, isSlice := st.Val.(*ssa.Slice)
			keeps := isSlice && sl.Max == nil && loadsField(sl.X, fam.typ, "B")
			c.Check("C42.R5", st, "a store into "+fam.typ+".B on the way to the pool only re-slices the buffer", keeps,
				"the size class was chosen from the capacity read before this store: a buffer whose capacity changes afterwards sits in a class it does not fit and is handed out undersized ("+D(st.Val)+")")
		})
	}
	c.Anchor("C42.R5", "stores into pooled buffers on the Put path", n >= 2)
}

// runControlTargetUnchanged (C41.R6): survey ids are per-node counters; what keeps a survey response out
// of another node's survey with the same id is that it is published to the requesting node only. In
// publishControl the node id handed to Controller.PublishControl is the function's own parameter,
// unchanged on every path.
func runControlTargetUnchanged(c *Ctx) {
	w := c.W
	fn := w.Func("centrifuge", "(*Node).publishControl")
	if !c.Anchor("C41.R6", "(*Node).publishControl", fn) {
		return
	}
	n := 0
	EachInstr(fn, func(in ssa.Instruction) {
		call, ok := in.(*ssa.Call)
		if !ok || !call.Call.IsInvoke() || call.Call.Method.Name() != "PublishControl" {
			return
		}
		n++
		okAll := true
		k := 0
		for _, a := range call.Call.Args {
			b, isB := a.Type().Underlying().(*types.Basic)
			if !isB || b.Kind() != types.String {
				continue
			}
			k++
			if k == 1 {
				// the node id: first string argument
				if _, isParam := a.(*ssa.Parameter); !isParam {
					okAll = false
				}
			}
		}
		c.Check("C41.R6", in, "the target node id reaches the controller unchanged", okAll && k >= 1,
			"a command addressed to one node that is re-targeted (to all nodes for an unknown target) delivers a survey response to nodes that did not ask: a survey with the same numeric id on another node accepts it as an answer")
	})
	c.Anchor("C41.R6", "Controller.PublishControl call in publishControl", n >= 1)
}

// runStaleOnlyUnauthenticated (C36.R6): the stale timer exists for connections that never authenticate
// (or were marked unusable). A connection is authenticated — and registered in the hub — some time before
// its status becomes connected (connect-time subscriptions, OnConnect handler), so the decision must be
// made on authenticated/unusable, not on the status: assuming authenticated == true and unusable == false
// no close is reachable in closeStale.
func runStaleOnlyUnauthenticated(c *Ctx) {
	w := c.W
	fn := w.Func("centrifuge", "(*Client).closeStale")
	if !c.Anchor("C36.R6", "(*Client).closeStale", fn) {
		return
	}
	closes := w.wrapMay(w.calleeIs("Client.close"), 1)
	if !c.Anchor("C36.R6", "close call in closeStale", len(CallsIn(fn, true, w.calleeIs("Client.close"))) > 0) {
		return
	}
	bad := PathQ{
		Goal: func(in ssa.Instruction) bool {
			if _, isMC := in.(*ssa.MakeClosure); isMC {
				return false
			}
			return asCall(in) != nil && closes(in)
		},
		EdgeCond: func(cond ssa.Value, outcome bool) bool {
			if loadsField(cond, "Client", "authenticated") {
				return outcome
			}
			if loadsField(cond, "Client", "unusable") {
				return !outcome
			}
			return true
		},
	}.FromEntry(fn)
	c.CheckAt("C36.R6", "(*centrifuge.Client).closeStale: an authenticated, usable connection is never closed as stale", w.Pos(fn.Pos()), bad == nil,
		"a connection is authenticated before its status becomes connected (connect-time subscriptions and the OnConnect handler run in between): a stale timer that decides on anything else closes a healthy connection mid-connect"+instrAt(w, bad))
}

func init() {
	r4doc("C38", "C38.R7", "conservation: what the queue's byte counter gains on Add it loses on Remove (same payload fields)")
	round3Hooks["C38"] = append(round3Hooks["C38"], runSizeAccountingSymmetric)
}

// fieldChain: names of the fields selected on the way to v, innermost last, up to the first non-field step.
func fieldChain(v ssa.Value) string {
	var names []string
	for i := 0; i < 8; i++ {
		switch x := v.(type) {
		case *ssa.UnOp:
			if x.Op != token.MUL {
				i = 8
				break
			}
			v = x.X
			continue
		case *ssa.FieldAddr:
			if _, f, ok := FieldOf(x); ok {
				names = append([]string{f}, names...)
			}
			v = x.X
			continue
		case *ssa.Field:
			if _, f, ok := FieldOf(x); ok {
				names = append([]string{f}, names...)
			}
			v = x.X
			continue
		}
		break
	}
	return strings.Join(names, ".")
}

// runSizeAccountingSymmetric (C38.R7): publicationQueue.size is compared with the medium's byte limit;
// publications are dropped when it is exceeded. The counter is exact only if Remove gives back exactly
// what Add took: the set of payload fields whose length Add adds equals the set Remove subtracts. A
// field counted on one side only makes the counter drift until an empty queue looks full and every
// publication is dropped silently.
func runSizeAccountingSymmetric(c *Ctx) {
	w := c.W
	added, removed := map[string]bool{}, map[string]bool{}
	var pos string
	for _, f := range moduleFuncs(w) {
		if f.Signature.Recv() == nil || typeShort(f.Signature.Recv().Type()) != "publicationQueue" {
			continue
		}
		for _, st := range storesToField(f, false, "publicationQueue", "size") {
			b, ok := st.Val.(*ssa.BinOp)
			if !ok || (b.Op != token.ADD && b.Op != token.SUB) || !loadsField(b.X, "publicationQueue", "size") {
				continue
			}
			call, ok := b.Y.(*ssa.Call)
			if !ok {
				continue
			}
			bi, ok := call.Call.Value.(*ssa.Builtin)
			if !ok {
				// a shared size helper: symmetric when both sides use the same one
				if cal := w.Callee(call); cal != nil && w.inModule(cal) {
					key := "call:" + shortFuncName(cal)
					if b.Op == token.ADD {
						added[key] = true
					} else {
						removed[key] = true
					}
					pos = w.InstrPos(st)
				}
				continue
			}
			if bi.Name() != "len" {
				continue
			}
			chain := fieldChain(call.Call.Args[0])
			// keep the last two names: <publication field>.<payload field>
			parts := strings.Split(chain, ".")
			if len(parts) > 2 {
				parts = parts[len(parts)-2:]
			}
			key := strings.Join(parts, ".")
			if b.Op == token.ADD {
				added[key] = true
			} else {
				removed[key] = true
			}
			pos = w.InstrPos(st)
		}
	}
	if !c.Anchor("C38.R7", "byte accounting of publicationQueue", len(added) >= 1 && len(removed) >= 1) {
		return
	}
	var onlyAdd, onlyRem []string
	for k := range added {
		if !removed[k] {
			onlyAdd = append(onlyAdd, k)
		}
	}
	for k := range removed {
		if !added[k] {
			onlyRem = append(onlyRem, k)
		}
	}
	sort.Strings(onlyAdd)
	sort.Strings(onlyRem)
	c.CheckAt("C38.R7", "publicationQueue: the payload fields counted into size on Add are the ones given back on Remove", pos, len(onlyAdd) == 0 && len(onlyRem) == 0,
		"counted on one side only: added "+strings.Join(onlyAdd, ",")+" removed "+strings.Join(onlyRem, ",")+" — the counter drifts until an empty queue exceeds the byte limit and every publication is dropped without any signal")
}

func init() {
	r4doc("C36", "C36.R7", "freshness: a subscription is expired on the expireAt of its live context, read after the tick's round trips")
	round3Hooks["C36"] = append(round3Hooks["C36"], runExpiryUsesLiveContext)
}

// runExpiryUsesLiveContext (C36.R7): the periodic tick snapshots the channel contexts, runs the presence
// and position duties (network round trips, possibly slow) and only then decides about expiry, with the
// clock read at decision time. A SUB_REFRESH that lands during the round trips moves expireAt forward in
// Client.channels only; deciding on the snapshot's expireAt unsubscribes, as expired, a subscription that
// was refreshed in time. The context handed to checkSubscriptionExpiration must carry an expireAt read
// from Client.channels with no tick duty between that read and the check.
func runExpiryUsesLiveContext(c *Ctx) {
	w := c.W
	fn := w.Func("centrifuge", "(*Client).updatePresence")
	if !c.Anchor("C36.R7", "(*Client).updatePresence", fn) {
		return
	}
	duty := w.calleeIs("Client.runTickDuty")
	duties := CallsIn(fn, false, duty)
	fromLookup := func(v ssa.Value) *ssa.Lookup {
		for i := 0; i < 6; i++ {
			switch x := v.(type) {
			case *ssa.Field:
				v = x.X
			case *ssa.Extract:
				v = x.Tuple
			case *ssa.UnOp:
				v = x.X
			case *ssa.FieldAddr:
				v = x.X
			case *ssa.Lookup:
				if loadsField(x.X, "Client", "channels") {
					return x
				}
				return nil
			case *ssa.Alloc:
				sv := singleStore(x)
				if sv == nil {
					return nil
				}
				v = sv
			default:
				return nil
			}
		}
		return nil
	}
	n := 0
	for _, ci := range CallsIn(fn, false, w.calleeIs("Client.checkSubscriptionExpiration")) {
		n++
		live := false
		for _, a := range ci.Common().Args {
			ld, ok := a.(*ssa.UnOp)
			if !ok {
				continue
			}
			al, ok := ld.X.(*ssa.Alloc)
			if !ok {
				continue
			}
			for _, r := range *al.Referrers() {
				fa, ok := r.(*ssa.FieldAddr)
				if !ok || !fieldAddrIs(fa, "ChannelContext", "expireAt") {
					continue
				}
				for _, rr := range *fa.Referrers() {
					st, ok := rr.(*ssa.Store)
					if !ok || st.Addr != ssa.Value(fa) {
						continue
					}
					lk := fromLookup(st.Val)
					if lk == nil || !Reaches(lk, ci) {
						continue
					}
					stale := false
					for _, d := range duties {
						if Reaches(lk, d) && Reaches(d, ci) && !Reaches(ci, lk) {
							stale = true
						}
					}
					if !stale {
						live = true
					}
				}
			}
		}
		c.Check("C36.R7", ci, "the expiry check runs on an expireAt read from Client.channels after the tick's round trips", live,
			"the snapshot taken at the start of the tick is compared with a clock read after the presence/position round trips: a SUB_REFRESH that arrived in time but during a slow pass is ignored and the subscription is unsubscribed as expired")
	}
	c.Anchor("C36.R7", "checkSubscriptionExpiration call in updatePresence", n >= 1)
}

func init() {
	r4doc("C36", "C36.R8", "K2: a fired timer callback claims a due deadline before it runs the operation it finds scheduled")
	round3Hooks["C36"] = append(round3Hooks["C36"], runTimerCallbackClaimsDeadline)
}

// runTimerCallbackClaimsDeadline (C36.R8): the connection has one timer; scheduleNextTimer stores the
// operation to run next in Client.timerOp and re-arms the timer, and the callback onTimerOp runs whatever
// timerOp holds when it gets c.mu. Stop/Reset do not cancel a callback that already fired, so when another
// goroutine re-arms the timer (Refresh, a sub refresh, the presence tick) while a fired callback waits for
// the lock, the same due operation fires twice — or the second firing finds the *next* operation (the
// pong check scheduled by the ping that just went out) and runs it at once: a client that answers every
// ping is disconnected with the no-pong code, or is sent two pings and then disconnected for its second
// pong. The callback must verify under c.mu that the operation it picked is due (its next* deadline is
// set and reached) and claim it. Structurally: onTimerOp reads one of the next* deadline fields.
func runTimerCallbackClaimsDeadline(c *Ctx) {
	w := c.W
	fn := w.Func("centrifuge", "(*Client).onTimerOp")
	if !c.Anchor("C36.R8", "(*Client).onTimerOp", fn) {
		return
	}
	reads := false
	for _, f := range []string{"nextPing", "nextPong", "nextPresence", "nextExpire"} {
		for _, acc := range FieldAccesses(fn, "Client", f) {
			if !acc.Write && w.Locks().HeldAt(acc.In).Holds("Client.mu", false) {
				reads = true
			}
		}
	}
	c.CheckAt("C36.R8", "(*centrifuge.Client).onTimerOp: a fired callback verifies under c.mu that the scheduled operation is due", w.Pos(fn.Pos()), reads,
		"onTimerOp runs whatever timerOp holds when it gets the lock; a callback that fired before a concurrent re-arm runs the operation a second time, or runs the next operation (the pong check) immediately")
}
