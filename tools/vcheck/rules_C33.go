package main

import (
	"fmt"
	"go/token"
	"strings"

	"golang.org/x/tools/go/ssa"
)

func init() {
	register(&PropMeta{
		ID:    "C33",
		Level: "other",
		Explanation: "(R1, totality) every index and slice expression of the PUB/SUB payload parsers (extractPushData, parseDeltaPush, RedisBroker.extractChannel and the map-broker equivalents) is proven in bounds from the branch conditions that dominate it, by Fourier–Motzkin refutation over linear facts (len ≥ 0, Index results, HasPrefix, definitional len of sub-slices); " +
			"(R2) the framing literals the Lua builders emit (\"__\", \"p1:\", \"d1:\", \":\") and the constants the Go parser expects agree, and the parser's type switch covers exactly the emitted type bytes; " +
			"(R3) on the publishing side the delta flag is embedded in the publication on every path that ends in a plain (non-script) PUBLISH, i.e. the two decisions made from the history options cannot diverge; " +
			"(R4) the stream version handed to the script is formatted without narrowing the uint64.",
		NotDecided: "payload equality after the round trip (runtime bytes); behaviour of the Lua string concatenation; integer overflow of offsets inside strconv.",
		Rules: map[string]string{
			"C33.R1": "K9 linear guard prover over every index/slice site of the parsers",
			"C33.R2": "K8/K10 literal agreement between Lua builders and Go parser",
			"C33.R3": "K1 must-pass: delta flag store on every path to a plain publish",
			"C33.R4": "value flow: version formatting",
		},
		Run: runC33,
	})
}

func runC33(c *Ctx) {
	w := c.W
	parsers := []struct{ pkg, name string }{
		{"centrifuge", "extractPushData"}, {"centrifuge", "parseDeltaPush"}, {"centrifuge", "(*RedisBroker).extractChannel"},
	}
	// map broker / shared helpers that slice PUB/SUB payloads or channel ids
	for _, f := range w.AllFuncs {
		n := shortFuncName(f)
		if (strings.HasPrefix(n, "RedisMapBroker.extract") || strings.HasPrefix(n, "RedisMapBroker.parse")) && f.Parent() == nil {
			parsers = append(parsers, struct{ pkg, name string }{"centrifuge", "(*RedisMapBroker)." + f.Name()})
		}
	}
	total := 0
	for _, p := range parsers {
		fn := c.Fn("C33.R1", p.pkg, p.name)
		if fn == nil {
			continue
		}
		for i, ob := range w.checkBounds(fn) {
			total++
			// stable, readable site key: ordinal within the function plus a shortened expression
			what := ob.What
			if r := []rune(what); len(r) > 70 {
				what = string(r[:28]) + " … " + string(r[len(r)-36:])
			}
			ob.What = fmt.Sprintf("site %d %s", i+1, what)
			d := "decoding an arbitrary PUB/SUB payload must never crash the node: this expression can go out of range"
			if !ob.Proved {
				d += " — undischarged: " + ob.Detail + fmt.Sprintf(" (dominating guards: %v)", GuardStrings(ob.In))
			}
			c.Check("C33.R1", ob.In, "in bounds: "+ob.What, ob.Proved, d)
		}
	}
	c.Floor("C33.R1", 20)

	// ---- R2 literals
	scripts := w.LuaScripts()
	luaLits := map[string]bool{}
	for _, n := range []string{"broker_history_add_stream.lua", "broker_history_add_list.lua"} {
		if s := scripts[n]; c.Anchor("C33.R2", "script "+n, s != nil) {
			for _, l := range s.stringLiterals() {
				luaLits[l] = true
			}
		}
	}
	for _, lit := range []string{"__", "p1:", "d1:", ":"} {
		c.CheckAt("C33.R2", "Lua builders emit literal "+fmt.Sprintf("%q", lit), "internal/redis_lua", luaLits[lit], "the framing literal is no longer produced by the scripts")
	}
	epd := w.Func("centrifuge", "extractPushData")
	pdp := w.Func("centrifuge", "parseDeltaPush")
	if sp := w.SSA[modPath]; sp != nil {
		if g, ok := sp.Members["metaSep"].(*ssa.Global); c.Anchor("C33.R2", "metaSep", ok) {
			n, known := w.globalConstLen(g)
			c.CheckAt("C33.R2", "Go metaSep has the length of the Lua \"__\" separator", "broker_redis.go", known && n == 2, "the parser's separator must equal the one the scripts emit")
		}
	}
	if cs, ok := w.ConstString("centrifuge", "contentSep"); ok {
		c.CheckAt("C33.R2", "Go contentSep equals the Lua \":\" separator", "broker_redis.go", cs == ":", "got "+cs)
	} else if sp := w.SSA[modPath]; sp != nil {
		// contentSep is a var initialised from a constant
		_, isVar := sp.Members["contentSep"].(*ssa.Global)
		c.Anchor("C33.R2", "contentSep", isVar)
	}
	if pdp != nil {
		okPrefix := false
		EachInstr(pdp, func(in ssa.Instruction) {
			if call, ok := in.(*ssa.Call); ok {
				if f := call.Call.StaticCallee(); f != nil && f.Name() == "HasPrefix" {
					if s, isS := constStrOf(call.Call.Args[1]); isS && s == "d1:" {
						okPrefix = true
					}
				}
			}
		})
		c.CheckAt("C33.R2", "parseDeltaPush expects the \"d1:\" prefix the scripts emit", w.Pos(pdp.Pos()), okPrefix, "prefix mismatch between builder and parser")
	}
	if epd != nil {
		// type bytes compared against content[0]
		got := map[int64]bool{}
		EachInstr(epd, func(in ssa.Instruction) {
			b, ok := in.(*ssa.BinOp)
			if !ok || b.Op != token.EQL {
				return
			}
			if v, isC := constIntOf(b.Y); isC && strings.Contains(D(b.X), "[0]") {
				got[v] = true
			}
		})
		want := map[int64]bool{'j': true, 'l': true, 'p': true, 'd': true}
		same := len(got) == len(want)
		for k := range want {
			if !got[k] {
				same = false
			}
		}
		c.CheckAt("C33.R2", "extractPushData dispatches on exactly the emitted type bytes j,l,p,d", w.Pos(epd.Pos()), same, fmt.Sprintf("got %v", got))
		// header skip equals len("p1:")
		okSkip := false
		EachInstr(epd, func(in ssa.Instruction) {
			if s, ok := in.(*ssa.Slice); ok && s.Low != nil && s.High == nil {
				if v, isC := constIntOf(s.Low); isC && v == int64(len("p1:")) && strings.Contains(D(s.X), "BytesToString") {
					okSkip = true
				}
			}
		})
		c.CheckAt("C33.R2", "positioned header skip equals len(\"p1:\")", w.Pos(epd.Pos()), okSkip, "the parser must skip exactly the version tag the scripts emit")
	}
	if sp := w.SSA[modPath]; sp != nil {
		for name, want := range map[string]int64{"joinTypePrefix": 5, "leaveTypePrefix": 5} {
			if g, ok := sp.Members[name].(*ssa.Global); c.Anchor("C33.R2", name, ok) {
				n, known := w.globalConstLen(g)
				c.CheckAt("C33.R2", name+" is a __x__ frame", "broker_redis.go", known && n == want, "join/leave prefix must be a type byte between two separators")
			}
		}
	}

	// ---- R3
	pub := c.Fn("C33.R3", "centrifuge", "(*RedisBroker).publish")
	if pub != nil {
		isDeltaStore := func(in ssa.Instruction) bool {
			st, ok := in.(*ssa.Store)
			if !ok {
				return false
			}
			fa, ok := st.Addr.(*ssa.FieldAddr)
			return ok && fieldAddrIs(fa, "Publication", "Delta")
		}
		plain := func(in ssa.Instruction) bool {
			ci := asCall(in)
			if ci == nil {
				return false
			}
			if f := ci.Common().StaticCallee(); f != nil {
				// rueidis builder: Publish()/Spublish() command, or the idempotent (no-history) script
				if (f.Name() == "Publish" || f.Name() == "Spublish") && strings.Contains(FuncName(f), "rueidis") {
					return true
				}
				if f.Name() == "Exec" && strings.Contains(D(ci.Common().Args[0]), "publishIdempotentScript") {
					return true
				}
			}
			return false
		}
		var sites []ssa.Instruction
		EachInstr(pub, func(in ssa.Instruction) {
			if plain(in) {
				sites = append(sites, in)
			}
		})
		if c.Anchor("C33.R3", "plain PUBLISH / idempotent-script sites in RedisBroker.publish", len(sites) >= 2) {
			for _, s := range sites {
				target := s
				bad := PathQ{Stop: isDeltaStore, Goal: func(in ssa.Instruction) bool { return in == target }}.FromEntry(pub)
				c.Check("C33.R3", s, "delta flag embedded on every path to a plain publish", bad == nil, "plain framing carries the delta flag inside the publication; a path that publishes plain without setting it makes the receiving node decode delta=false for a delta publish")
			}
		}
	}

	// ---- R4
	for _, fname := range []string{"(*RedisBroker).publish", "(*RedisMapBroker).Publish"} {
		fn := w.Func("centrifuge", fname)
		if fn == nil {
			continue
		}
		for _, f := range WithClosures(fn) {
			EachInstr(f, func(in ssa.Instruction) {
				call, ok := in.(*ssa.Call)
				if !ok {
					return
				}
				cal := call.Call.StaticCallee()
				if cal == nil || cal.Pkg == nil || cal.Pkg.Pkg.Path() != "strconv" {
					return
				}
				if len(call.Call.Args) == 0 || !strings.HasSuffix(D(call.Call.Args[0]), "Options.Version") {
					return
				}
				c.Check("C33.R4", in, "version formatted as an unsigned 64-bit number", cal.Name() == "FormatUint", "strconv.Itoa(int(v)) turns versions ≥ 2^63 into negative numbers: the script compares a negative version and accepts/suppresses wrongly")
			})
		}
	}
}
