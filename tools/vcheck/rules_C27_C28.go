package main

import (
	"fmt"
	"go/token"
	"go/types"
	"sort"
	"strings"

	"golang.org/x/tools/go/ssa"
)

func init() {
	register(&PropMeta{
		ID:    "C27",
		Level: "other",
		Explanation: "(R1) for the node-level subscribe, unsubscribe, disconnect and refresh: every field of the operation's options struct that an exported With… constructor can set is read when the control message for other nodes is built (so the option travels), " +
			"(R2) every field the encoder stores into the control message is read back by handleControl, and (R3) handleControl dispatches every command member of controlpb.Command.",
		NotDecided: "that the remote hub call behaves like the local one for equal options (same code path; the options are re-built from the message); delivery of the control message itself.",
		Rules: map[string]string{"C27.R1": "K6a field-table: With-settable ⊆ encoded", "C27.R2": "K6a: encoded ⊆ decoded", "C27.R3": "K7 exhaustiveness over controlpb.Command members", "C27.R4": "sibling agreement: routing condition of sender and receiver"},
		Run: runC27,
	})
	register(&PropMeta{
		ID:    "C28",
		Level: "other",
		Explanation: "(R1) on the paths from Node.Unsubscribe (local call and control message) to Client.Unsubscribe, the channel value is tested for emptiness: a call that forwards the caller's channel is reached only when it is non-empty, and on the empty edge every channel of the connection (Client.Channels) is unsubscribed through the same per-channel call (callbacks, leave, presence removal, unsubscribe push).",
		NotDecided: "the per-channel effects themselves (C05–C08, C10 cover them).",
		Rules: map[string]string{"C28.R1": "call-graph + K2: empty channel fans out over Client.Channels()", "C28.R2": "K2: no guard on the channel argument between Node.Unsubscribe and the all-channels expansion"},
		Run: runC28,
	})
}

// withSettableFields: fields of struct `optType` stored by closures returned from exported With* functions.
func (w *World) withSettableFields(optType string) map[string][]string {
	out := map[string][]string{}
	sp := w.SSA[modPath]
	if sp == nil {
		return out
	}
	for name, m := range sp.Members {
		fn, ok := m.(*ssa.Function)
		if !ok || !strings.HasPrefix(name, "With") {
			continue
		}
		for _, cl := range fn.AnonFuncs {
			if len(cl.Params) != 1 || typeShort(cl.Params[0].Type()) != optType {
				continue
			}
			EachInstr(cl, func(in ssa.Instruction) {
				if st, ok := in.(*ssa.Store); ok {
					if fa, ok := st.Addr.(*ssa.FieldAddr); ok {
						if t, f, ok := FieldOf(fa); ok && t == optType {
							out[f] = append(out[f], name)
						}
					}
				}
			})
		}
	}
	return out
}

// fieldsRead: fields of struct typ loaded in the given functions.
func fieldsRead(fns []*ssa.Function, typ string) map[string]bool {
	out := map[string]bool{}
	for _, fn := range fns {
		for _, f := range WithClosures(fn) {
			EachInstr(f, func(in ssa.Instruction) {
				switch x := in.(type) {
				case *ssa.FieldAddr:
					if t, fl, ok := FieldOf(x); ok && t == typ {
						// loaded (not only stored)?
						if refs := x.Referrers(); refs != nil {
							for _, r := range *refs {
								if u, ok := r.(*ssa.UnOp); ok && u.Op == token.MUL {
									out[fl] = true
								}
							}
						}
					}
				case *ssa.Field:
					if t, fl, ok := FieldOf(x); ok && t == typ {
						out[fl] = true
					}
				}
			})
		}
	}
	return out
}

func fieldsStored(fns []*ssa.Function, typ string) map[string]bool {
	out := map[string]bool{}
	for _, fn := range fns {
		for _, f := range WithClosures(fn) {
			EachInstr(f, func(in ssa.Instruction) {
				if st, ok := in.(*ssa.Store); ok {
					if fa, ok := st.Addr.(*ssa.FieldAddr); ok {
						if t, fl, ok := FieldOf(fa); ok && t == typ {
							out[fl] = true
						}
					}
				}
			})
		}
	}
	return out
}

func runC27(c *Ctx) {
	w := c.W
	type op struct{ opts, nodeFn, pubFn, msg string }
	ops := []op{
		{"SubscribeOptions", "(*Node).Subscribe", "(*Node).pubSubscribe", "Subscribe"},
		{"UnsubscribeOptions", "(*Node).Unsubscribe", "(*Node).pubUnsubscribe", "Unsubscribe"},
		{"DisconnectOptions", "(*Node).Disconnect", "(*Node).pubDisconnect", "Disconnect"},
		{"RefreshOptions", "(*Node).Refresh", "(*Node).pubRefresh", "Refresh"},
	}
	hc := c.Fn("C27.R2", "centrifuge", "(*Node).handleControl")
	for _, o := range ops {
		nodeFn := c.Fn("C27.R1", "centrifuge", o.nodeFn)
		pubFn := c.Fn("C27.R1", "centrifuge", o.pubFn)
		if nodeFn == nil || pubFn == nil {
			continue
		}
		settable := w.withSettableFields(o.opts)
		c.Anchor("C27.R1", "With… constructors for "+o.opts, len(settable) >= 2)
		// fields that reach the encoder: read in pubX, or read in Node.X and passed as an argument to pubX
		read := fieldsRead([]*ssa.Function{pubFn}, o.opts)
		for _, ci := range CallsIn(nodeFn, false, w.calleeFn(pubFn)) {
			for _, a := range ci.Common().Args {
				d := D(a)
				for f := range settable {
					if strings.Contains(d, o.opts+"."+f) || strings.HasSuffix(d, "."+f) {
						read[f] = true
					}
				}
				// whole struct passed by value
				if strings.HasSuffix(d, o.opts) && !strings.Contains(d, ".") {
					for f := range fieldsRead([]*ssa.Function{pubFn}, o.opts) {
						read[f] = true
					}
				}
			}
		}
		// custom unsubscribe / disconnect structs are passed as values built from the option
		for f := range settable {
			if read[f] {
				continue
			}
			for _, ci := range CallsIn(nodeFn, false, w.calleeFn(pubFn)) {
				for _, a := range ci.Common().Args {
					if valueDependsOnField(a, o.opts, f, 0) {
						read[f] = true
					}
				}
			}
		}
		var names []string
		for f := range settable {
			names = append(names, f)
		}
		sort.Strings(names)
		for _, f := range names {
			c.CheckAt("C27.R1", o.nodeFn+": option field "+o.opts+"."+f+" (set by "+strings.Join(uniq(settable[f]), ",")+") travels in the control message", w.Pos(pubFn.Pos()), read[f],
				"the option is applied to connections of this node but a matching connection on another node is handled with the default: the call does not act the same from any node")
		}
		// R2: message fields stored by the encoder are read by handleControl
		if hc != nil {
			stored := fieldsStored([]*ssa.Function{pubFn}, o.msg)
			readBack := fieldsRead([]*ssa.Function{hc}, o.msg)
			var sf []string
			for f := range stored {
				sf = append(sf, f)
			}
			sort.Strings(sf)
			for _, f := range sf {
				c.CheckAt("C27.R2", "handleControl reads controlpb."+o.msg+"."+f, w.Pos(hc.Pos()), readBack[f], "the sending node encodes this field but the receiving node ignores it")
			}
		}
	}
	c.Floor("C27.R1", 20)
	c.Floor("C27.R2", 25)
	// R4: the calling node and the receiving node route to the fleet-wide (across users) path under the
	// same condition: empty user AND the allUsers flag
	nAcross := 0
	for _, f := range w.AllFuncs {
		for _, ci := range CallsIn(f, false, w.calleeIs("Hub.subscribeAcrossUsers", "Hub.unsubscribeAcrossUsers", "Hub.disconnectAcrossUsers", "Hub.refreshAcrossUsers")) {
			nAcross++
			emptyUser := Guarded(ci, func(g Guard) bool {
				b, ok := g.Cond.(*ssa.BinOp)
				if !ok {
					return false
				}
				s, isS := constStrOf(b.Y)
				if !isS || s != "" {
					return false
				}
				d := strings.ToLower(D(b.X))
				return strings.Contains(d, "user") && ((b.Op == token.EQL && g.Pol) || (b.Op == token.NEQ && !g.Pol))
			})
			allUsers := Guarded(ci, func(g Guard) bool {
				d := D(g.Cond)
				return g.Pol && (strings.HasSuffix(d, ".AllUsers") || strings.HasSuffix(d, ".allUsers"))
			})
			c.Check("C27.R4", ci, "fleet-wide dispatch only for an empty user with the allUsers flag", emptyUser && allUsers,
				"the calling node takes the per-user path for a non-empty user even when allUsers is set; a receiving node that trusts the flag alone applies the operation to every user's connections there")
		}
	}
	c.Floor("C27.R4", 8)
	// R3
	if hc != nil {
		var cmdT *types.Struct
		for _, p := range w.Ext {
			if strings.HasSuffix(p.PkgPath, "internal/controlpb") {
				if tn, ok := p.Types.Scope().Lookup("Command").(*types.TypeName); ok {
					cmdT, _ = tn.Type().Underlying().(*types.Struct)
				}
			}
		}
		if c.Anchor("C27.R3", "controlpb.Command", cmdT != nil) {
			tested := map[string]bool{}
			EachInstr(hc, func(in ssa.Instruction) {
				b, ok := in.(*ssa.BinOp)
				if !ok || b.Op != token.NEQ || !isNilConst(b.Y) {
					return
				}
				if t, f, ok := FieldOf(unload(b.X)); ok && t == "Command" {
					tested[f] = true
				}
			})
			for i := 0; i < cmdT.NumFields(); i++ {
				f := cmdT.Field(i)
				if !f.Exported() {
					continue
				}
				if _, isPtr := f.Type().(*types.Pointer); !isPtr {
					continue
				}
				c.CheckAt("C27.R3", "handleControl dispatches controlpb.Command."+f.Name(), w.Pos(hc.Pos()), tested[f.Name()], "a control command member without a handler is silently dropped on receiving nodes")
			}
		}
	}
}

func uniq(xs []string) []string {
	m := map[string]bool{}
	var out []string
	for _, x := range xs {
		if !m[x] {
			m[x] = true
			out = append(out, x)
		}
	}
	sort.Strings(out)
	return out
}

// valueDependsOnField: v is computed from a load of typ.field (through φ, loads of locals, deref).
func valueDependsOnField(v ssa.Value, typ, field string, depth int) bool {
	if depth > 6 || v == nil {
		return false
	}
	if loadsField(v, typ, field) {
		return true
	}
	switch x := v.(type) {
	case *ssa.Phi:
		for _, e := range x.Edges {
			if valueDependsOnField(e, typ, field, depth+1) {
				return true
			}
		}
	case *ssa.UnOp:
		if x.Op == token.MUL {
			if al, ok := x.X.(*ssa.Alloc); ok && al.Referrers() != nil {
				for _, r := range *al.Referrers() {
					if st, ok := r.(*ssa.Store); ok && st.Addr == al && valueDependsOnField(st.Val, typ, field, depth+1) {
						return true
					}
				}
			}
			return valueDependsOnField(x.X, typ, field, depth+1)
		}
	case *ssa.Field:
		return valueDependsOnField(x.X, typ, field, depth+1)
	case *ssa.FieldAddr:
		return valueDependsOnField(x.X, typ, field, depth+1)
	case *ssa.Convert:
		return valueDependsOnField(x.X, typ, field, depth+1)
	case *ssa.ChangeType:
		return valueDependsOnField(x.X, typ, field, depth+1)
	}
	return false
}

func runC28(c *Ctx) {
	w := c.W
	clientUnsub := c.Fn("C28.R1", "centrifuge", "(*Client).Unsubscribe")
	if clientUnsub == nil {
		return
	}
	var roots []*ssa.Function
	for _, n := range []string{"(*connShard).unsubscribe", "(*connShard).unsubscribeAcrossUsers"} {
		if f := c.Fn("C28.R1", "centrifuge", n); f != nil {
			roots = append(roots, f)
		}
	}
	// functions reachable from the roots (static callees, closures, goroutines) to depth 3
	reach := map[*ssa.Function]bool{}
	var visit func(f *ssa.Function, d int)
	visit = func(f *ssa.Function, d int) {
		if f == nil || reach[f] || d < 0 || !w.inModule(f) || f == clientUnsub {
			return
		}
		reach[f] = true
		EachInstr(f, func(in ssa.Instruction) {
			if ci := asCall(in); ci != nil {
				visit(w.Callee(ci), d-1)
			}
		})
		for _, a := range f.AnonFuncs {
			visit(a, d-1)
		}
	}
	for _, r := range roots {
		visit(r, 3)
	}
	nonEmpty := func(g Guard) bool {
		b, ok := g.Cond.(*ssa.BinOp)
		if !ok {
			return false
		}
		if s, isS := constStrOf(b.Y); isS && s == "" {
			return (b.Op == token.NEQ && g.Pol) || (b.Op == token.EQL && !g.Pol)
		}
		if z, isZ := constIntOf(b.Y); isZ && z == 0 && strings.HasPrefix(D(b.X), "len(") {
			return (b.Op == token.NEQ && g.Pol) || (b.Op == token.GTR && g.Pol) || (b.Op == token.EQL && !g.Pol)
		}
		return false
	}
	isEmpty := func(g Guard) bool {
		g2 := g
		g2.Pol = !g.Pol
		return nonEmpty(g2)
	}
	// guardedUp: the guard dominates the site, or (the site sits in a helper or a closure) it dominates the
	// place the closure is made and every call site of the helper inside the unsubscribe paths.
	var guardedUp func(in ssa.Instruction, g func(Guard) bool, depth int) bool
	guardedUp = func(in ssa.Instruction, g func(Guard) bool, depth int) bool {
		if Guarded(in, g) {
			return true
		}
		if depth <= 0 {
			return false
		}
		f := in.Parent()
		if p := f.Parent(); p != nil {
			made, ok := 0, true
			EachInstr(p, func(x ssa.Instruction) {
				if mc, isMC := x.(*ssa.MakeClosure); isMC && mc.Fn == ssa.Value(f) {
					made++
					if !guardedUp(mc, g, depth-1) {
						ok = false
					}
				}
			})
			return made > 0 && ok
		}
		sites, ok := 0, true
		for _, site := range w.Callers(f) {
			if !reach[site.Parent()] {
				continue
			}
			sites++
			if !guardedUp(site, g, depth-1) {
				ok = false
			}
		}
		return sites > 0 && ok
	}
	// a channel name taken out of a []string (or out of the keys of a map) is an element of a snapshot of
	// the connection's subscriptions
	isSnapshotElem := func(v ssa.Value) bool {
		switch x := v.(type) {
		case *ssa.UnOp:
			if ia, ok := x.X.(*ssa.IndexAddr); ok && x.Op == token.MUL {
				if sl, ok := ia.X.Type().Underlying().(*types.Slice); ok {
					b, ok := sl.Elem().Underlying().(*types.Basic)
					return ok && b.Kind() == types.String
				}
			}
		case *ssa.Extract:
			if nx, ok := x.Tuple.(*ssa.Next); ok && x.Index == 1 {
				if rg, ok := nx.Iter.(*ssa.Range); ok {
					_, isMap := rg.X.Type().Underlying().(*types.Map)
					return isMap
				}
			}
		}
		return false
	}
	nForward, nAll := 0, 0
	for f := range reach {
		for _, ci := range CallsIn(f, false, w.calleeFn(clientUnsub)) {
			arg := ci.Common().Args[1]
			d := D(arg)
			fromChannels := isSnapshotElem(arg) || strings.Contains(d, "Client.Channels(") || strings.Contains(d, "ChannelsWithContext(")
			if fromChannels {
				nAll++
				c.Check("C28.R1", ci, "all-channels fan-out only for an empty channel name", guardedUp(ci, isEmpty, 3), "unsubscribing from every channel must happen exactly when the caller passed an empty channel")
				continue
			}
			nForward++
			c.Check("C28.R1", ci, "forwarded channel name is non-empty", guardedUp(ci, nonEmpty, 3), "as documented for Node.Unsubscribe an empty channel means all channels: forwarding \"\" looks up c.channels[\"\"] (never present), unsubscribes nothing and pushes an unsubscribe for an empty channel (channel value: "+d+")")
		}
	}
	runSnapshotNotReused(c, reach)
	c.CheckAt("C28.R1", "node-level unsubscribe paths reach Client.Unsubscribe", "hub.go", nForward >= 1, fmt.Sprintf("%d forwarding call(s)", nForward))
	c.CheckAt("C28.R1", "node-level unsubscribe has an all-channels branch over Client.Channels()", "hub.go", nAll >= 1, "Node.Unsubscribe(user, \"\") must unsubscribe every matching connection from all of its channels")

	// R2: on the way down to the wildcard expansion nothing may filter connections by the channel
	// argument: "" is not a channel name, so any test of the form subscribed(c, ch) / lookup by ch
	// silently skips every connection for the all-channels request.
	more := []string{"(*Node).Unsubscribe", "(*Hub).unsubscribe", "(*Hub).unsubscribeAcrossUsers", "(*Node).handleControl"}
	for _, n := range more {
		if f := w.Func("centrifuge", n); f != nil {
			visit(f, 2)
		}
	}
	expands := func(f *ssa.Function) bool {
		// the function that owns the all-channels branch, and Client.Unsubscribe itself, may test ch
		if f == clientUnsub {
			return true
		}
		for _, ci := range CallsIn(f, false, w.calleeFn(clientUnsub)) {
			d := D(ci.Common().Args[1])
			if strings.Contains(d, "Client.Channels(") || strings.Contains(d, "ChannelsWithContext(") {
				return true
			}
		}
		return false
	}
	leads := w.wrapMay(w.calleeFn(clientUnsub), 6)
	nSites := 0
	for f := range reach {
		if expands(f) {
			continue
		}
		EachInstr(f, func(in ssa.Instruction) {
			var chVals []ssa.Value
			switch x := in.(type) {
			case *ssa.Go:
				if !leads(in) && !closureLeads(w, x.Call.Value, leads) {
					return
				}
				chVals = stringOperands(&x.Call)
			case *ssa.Call:
				if !leads(in) {
					return
				}
				chVals = stringOperands(&x.Call)
			default:
				return
			}
			nSites++
			for _, g := range Guards(in) {
				if nonEmpty(g) || isEmpty(g) {
					continue
				}
				// an error check of an earlier call that merely received the channel (pubUnsubscribe(…, ch, …)
				// returned an error) is not a test of the channel
				if b, ok := g.Cond.(*ssa.BinOp); ok && (isNilConst(b.Y) || isNilConst(b.X)) {
					if types.Identical(b.X.Type(), types.Universe.Lookup("error").Type()) || types.Identical(b.Y.Type(), types.Universe.Lookup("error").Type()) {
						continue
					}
				}
				gd := D(g.Cond)
				for _, cv := range chVals {
					d := strings.TrimLeft(D(cv), "&*")
					if !strings.HasPrefix(d, "arg:") && !strings.HasPrefix(d, "fv:") && !strings.HasPrefix(d, "var:") {
						continue
					}
					name := d[strings.Index(d, ":")+1:]
					if !isChannelName(name) {
						continue
					}
					if mentionsIdent(gd, "arg:"+name) || mentionsIdent(gd, "fv:"+name) || mentionsIdent(gd, "var:"+name) {
						c.Check("C28.R2", in, "the way to the all-channels expansion does not filter by the channel argument", false,
							"guard "+g.String()+" tests the channel name before the empty-means-all expansion: for an empty channel it is false for every connection, nothing is unsubscribed and no error is returned")
						return
					}
				}
				// the channel may also be a field of a decoded message (control path): the value passed in
				// the callee's channel parameter position
				if ci := asCall(in); ci != nil {
					if cal := w.Callee(ci); cal != nil {
						off := 0
						if cal.Signature.Recv() != nil {
							off = 0 // Params includes the receiver, as do Args
						}
						for i, p := range cal.Params {
							if i+off >= len(ci.Common().Args) || !isChannelName(p.Name()) {
								continue
							}
							d := D(ci.Common().Args[i+off])
							if len(d) > 3 && strings.Contains(gd, d) {
								c.Check("C28.R2", in, "the way to the all-channels expansion does not filter by the channel argument", false,
									"guard "+g.String()+" tests the channel value ("+d+") before the empty-means-all expansion: for an empty channel the test fails on every node, the request is dropped and no error is returned")
								return
							}
						}
					}
				}
			}
			c.Check("C28.R2", in, "the way to the all-channels expansion does not filter by the channel argument", true, "")
		})
	}
	c.CheckAt("C28.R2", "node-level unsubscribe fan-out sites found", "hub.go", nSites >= 3, fmt.Sprintf("%d", nSites))
}

func isChannelName(n string) bool {
	return n == "ch" || n == "channel" || n == "chName"
}

// mentionsIdent: s contains ident not followed by an identifier character.
func mentionsIdent(s, ident string) bool {
	for i := 0; ; {
		j := strings.Index(s[i:], ident)
		if j < 0 {
			return false
		}
		end := i + j + len(ident)
		if end >= len(s) || !(s[end] == '_' || (s[end] >= 'a' && s[end] <= 'z') || (s[end] >= 'A' && s[end] <= 'Z') || (s[end] >= '0' && s[end] <= '9')) {
			return true
		}
		i = end
	}
}

// stringOperands lists the string-typed arguments and (for closures) captured variables of a call.
func stringOperands(cc *ssa.CallCommon) []ssa.Value {
	var out []ssa.Value
	isStr := func(v ssa.Value) bool {
		b, ok := v.Type().Underlying().(*types.Basic)
		return ok && b.Kind() == types.String
	}
	for _, a := range cc.Args {
		if isStr(a) {
			out = append(out, a)
		}
	}
	if mc, ok := cc.Value.(*ssa.MakeClosure); ok {
		for _, b := range mc.Bindings {
			if isStr(b) {
				out = append(out, b)
			} else if p, ok := b.Type().Underlying().(*types.Pointer); ok {
				if bb, ok := p.Elem().Underlying().(*types.Basic); ok && bb.Kind() == types.String {
					out = append(out, b)
				}
			}
		}
	}
	return out
}

// closureLeads: v is a closure whose body contains an instruction matching leads.
func closureLeads(w *World, v ssa.Value, leads func(ssa.Instruction) bool) bool {
	mc, ok := v.(*ssa.MakeClosure)
	if !ok {
		return false
	}
	fn, ok := mc.Fn.(*ssa.Function)
	if !ok {
		return false
	}
	found := false
	EachInstr(fn, func(in ssa.Instruction) {
		if leads(in) {
			found = true
		}
	})
	return found
}
