package main

import (
	"fmt"
	"go/token"
	"go/types"
	"sort"
	"strings"

	"golang.org/x/tools/go/ssa"
)

// strCase is one comparison `<value> ==/!= "K"` in a function.
type strCase struct {
	K   string
	Bin *ssa.BinOp
}

// stringCases lists comparisons of a value whose descriptor ends with `suffix` against a string constant.
func stringCases(fn *ssa.Function, suffix string) []strCase {
	var out []strCase
	EachInstr(fn, func(in ssa.Instruction) {
		b, ok := in.(*ssa.BinOp)
		if !ok || (b.Op != token.EQL && b.Op != token.NEQ) {
			return
		}
		var other ssa.Value
		var k string
		if s, ok := constStrOf(b.Y); ok {
			k, other = s, b.X
		} else if s, ok := constStrOf(b.X); ok {
			k, other = s, b.Y
		} else {
			return
		}
		if strings.HasSuffix(D(other), suffix) {
			out = append(out, strCase{k, b})
		}
	})
	return out
}

func setOf(cs []strCase) map[string]bool {
	m := map[string]bool{}
	for _, c := range cs {
		m[c.K] = true
	}
	return m
}

func keys(m map[string]bool) []string {
	var ks []string
	for k := range m {
		ks = append(ks, k)
	}
	sort.Strings(ks)
	return ks
}

func setDiff(a, b map[string]bool) []string {
	var d []string
	for k := range a {
		if !b[k] {
			d = append(d, k)
		}
	}
	sort.Strings(d)
	return d
}

// ifOfCond returns the If instruction(s) that branch on v (directly).
func ifsOn(v ssa.Value) []*ssa.If {
	var out []*ssa.If
	if refs := v.Referrers(); refs != nil {
		for _, r := range *refs {
			if i, ok := r.(*ssa.If); ok {
				out = append(out, i)
			}
		}
	}
	return out
}

func init() {
	register(&PropMeta{
		ID:    "C15",
		Level: "other",
		Explanation: "(R1) the comparison operators Validate accepts are exactly the ones Match handles, node operators likewise, and the inner numeric switch of Match covers exactly the operators routed to the numeric branch; " +
			"(R2) in Match the looked-up tag value is read only where the lookup's ok result is known true (a missing key is never treated as the empty string); " +
			"(R3) Validate rejects a nil node before touching it (nil children are produced by JSON null) and every child handed to the recursion goes through that same check; Match recursion only descends into f.Nodes; " +
			"(R5) the exact-decimal engine is the only number parser or comparator reachable from Match (no strconv/big/Sscan parsing, no float comparison); (R4) protocol.FilterNode has no map-typed field transitively, so the canonical marshalling behind Hash is order-deterministic, and Hash sizes its buffer with SizeVT of the same node.",
		NotDecided: "decimal comparison semantics of the external udecimal package; the boolean results themselves (values); equality of hashes is reduced to determinism of the marshaller's input shape.",
		Rules: map[string]string{
			"C15.R1": "K7 case-set agreement between filter.Validate and filter.Match over FilterNode.Cmp / FilterNode.Op string constants",
			"C15.R2": "contradiction rule: every use of `val` from `val, ok := tags[f.Key]` is dominated by the true edge of `ok`",
			"C15.R3": "guard: first field access of Validate's parameter is dominated by a non-nil test of it",
			"C15.R5": "K4 who-may-call: in the functions reachable from filter.Match no number parser other than udecimal and no floating-point comparison",
			"C15.R4": "type rule: no map reachable from protocol.FilterNode; Hash marshals into a buffer sized by SizeVT of the same receiver",
		},
		Run: runC15,
	})
}

func runC15(c *Ctx) {
	w := c.W
	match := c.Fn("C15.R1", "internal/filter", "Match")
	validate := c.Fn("C15.R1", "internal/filter", "Validate")
	hash := c.Fn("C15.R4", "internal/filter", "Hash")
	if match == nil || validate == nil {
		return
	}
	// ---- R1
	// Match / Validate together with the package helpers they call: the leaf comparison may live in a
	// helper (matchLeaf) — the function holding most operator cases is the one the path rules look at.
	entryMatch := match
	var mc, vc []strCase
	var moAll, voAll []strCase
	best := 0
	for _, f := range w.Deep(entryMatch, 2).Funcs {
		cs := stringCases(f, "FilterNode.Cmp")
		mc = append(mc, cs...)
		moAll = append(moAll, stringCases(f, "FilterNode.Op")...)
		if len(cs) > best {
			best = len(cs)
			match = f
		}
	}
	for _, f := range w.Deep(validate, 2).Funcs {
		vc = append(vc, stringCases(f, "FilterNode.Cmp")...)
		voAll = append(voAll, stringCases(f, "FilterNode.Op")...)
	}
	// the path rules below use only the cases of the leaf function
	mcLeaf := stringCases(match, "FilterNode.Cmp")
	ms, vs := setOf(mc), setOf(vc)
	mc = mcLeaf
	delete(vs, "") // `f.Cmp == ""` is Validate's "must be set" test
	d1, d2 := setDiff(ms, vs), setDiff(vs, ms)
	c.CheckAt("C15.R1", "filter.Match/filter.Validate: comparison operator sets", w.Pos(match.Pos()), len(d1) == 0 && len(d2) == 0 && len(ms) >= 2,
		fmt.Sprintf("Match handles %v; Validate accepts %v; only-in-Match=%v only-in-Validate=%v", keys(ms), keys(vs), d1, d2))
	mo := setOf(moAll)
	vo := setOf(voAll)
	d1, d2 = setDiff(mo, vo), setDiff(vo, mo)
	c.CheckAt("C15.R1", "filter.Match/filter.Validate: node operator sets", w.Pos(validate.Pos()), len(d1) == 0 && len(d2) == 0 && len(mo) >= 2,
		fmt.Sprintf("Match handles %v; Validate accepts %v; only-in-Match=%v only-in-Validate=%v", keys(mo), keys(vo), d1, d2))
	// inner numeric switch: operators whose outer case reaches udecimal.Parse == operators compared after Parse
	isParse := func(ci ssa.CallInstruction) bool {
		f := ci.Common().StaticCallee()
		return f != nil && f.Pkg != nil && f.Pkg.Pkg.Name() == "udecimal" && f.Name() == "Parse"
	}
	// the parse may sit in Match itself or in a helper it calls (resolved through the call graph)
	parseLike := w.wrapMay(isParse, 3)
	parses := CallsIn(match, false, func(ci ssa.CallInstruction) bool { return parseLike(ci) })
	if c.Anchor("C15.R1", "udecimal.Parse reachable from filter.Match", len(parses) > 0) {
		inner, outerNumeric := map[string]bool{}, map[string]bool{}
		for _, sc := range mc {
			dominatedByParse := false
			for _, p := range parses {
				if Precedes(p, sc.Bin) {
					dominatedByParse = true
				}
			}
			if dominatedByParse {
				inner[sc.K] = true
				continue
			}
			for _, ifi := range ifsOn(sc.Bin) {
				tgt := ifi.Block().Succs[0]
				if sc.Bin.Op == token.NEQ {
					tgt = ifi.Block().Succs[1]
				}
				if PathFromBlockAvoiding(tgt, func(ssa.Instruction) bool { return false }, parseLike) != nil {
					outerNumeric[sc.K] = true
				}
			}
		}
		d1, d2 := setDiff(inner, outerNumeric), setDiff(outerNumeric, inner)
		c.CheckAt("C15.R1", "filter.Match: numeric branch operator sets", w.InstrPos(parses[0]), len(d1) == 0 && len(d2) == 0 && len(inner) >= 1,
			fmt.Sprintf("routed to numeric branch %v; decided after parsing %v", keys(outerNumeric), keys(inner)))
		// the fallthrough after the inner switch must not be reachable with a success result: every
		// return reachable from Parse without passing an inner comparison's true edge returns an error
	}
	// Match's default / Validate's default fail loudly: some return with non-nil error not guarded by any case-true edge
	for _, fn := range []*ssa.Function{match, validate} {
		hasFailingDefault := false
		EachInstr(fn, func(in ssa.Instruction) {
			r, ok := in.(*ssa.Return)
			if !ok {
				return
			}
			errv := r.Results[len(r.Results)-1]
			if isNilConst(errv) {
				return
			}
			// reached only via false edges of Cmp comparisons (no true Cmp edge dominates)
			posCase := false
			nNeg := 0
			for _, g := range Guards(r) {
				d := D(g.Cond)
				if strings.Contains(d, "FilterNode.Cmp ==") || strings.Contains(d, "FilterNode.Op ==") {
					if g.Pol && !strings.HasSuffix(d, `== "")`) {
						posCase = true
					} else {
						nNeg++
					}
				}
			}
			if !posCase && nNeg >= 2 {
				hasFailingDefault = true
			}
		})
		c.CheckAt("C15.R1", "filter."+fn.Name()+": failing default", w.Pos(fn.Pos()), hasFailingDefault, "an unknown operator must end in a non-nil error return reached through the false edges of all cases")
	}

	// ---- R5: the exact-decimal engine is the only number parser/comparator reachable from Match
	{
		reach := map[*ssa.Function]bool{}
		var visit func(f *ssa.Function, d int)
		visit = func(f *ssa.Function, d int) {
			if f == nil || reach[f] || d < 0 || !w.inModule(f) {
				return
			}
			reach[f] = true
			EachInstr(f, func(in ssa.Instruction) {
				if ci := asCall(in); ci != nil {
					visit(w.Callee(ci), d-1)
				}
			})
			for _, a := range f.AnonFuncs {
				visit(a, d-1)
			}
		}
		visit(entryMatch, 4)
		n := 0
		for f := range reach {
			EachInstr(f, func(in ssa.Instruction) {
				if ci := asCall(in); ci != nil {
					if cal := ci.Common().StaticCallee(); cal != nil && cal.Pkg != nil {
						pkg, name := cal.Pkg.Pkg.Path(), cal.Name()
						banned := (pkg == "strconv" && (strings.HasPrefix(name, "Parse") || name == "Atoi")) ||
							pkg == "math/big" || (pkg == "fmt" && strings.HasPrefix(name, "Sscan"))
						if banned {
							n++
							c.Check("C15.R5", in, "number parser other than the exact-decimal engine: "+cal.Pkg.Pkg.Name()+"."+name, false,
								"numeric filter operators must agree with exact decimal comparison and be false for numerals the engine rejects; a second parser (float/int) accepts different numerals and rounds")
						}
					}
				}
				if b, ok := in.(*ssa.BinOp); ok {
					if bt, ok := b.X.Type().Underlying().(*types.Basic); ok && bt.Info()&types.IsFloat != 0 {
						switch b.Op {
						case token.LSS, token.GTR, token.LEQ, token.GEQ, token.EQL, token.NEQ:
							n++
							c.Check("C15.R5", in, "floating-point comparison on the Match path", false, "float comparison cannot agree with exact decimal comparison for every accepted numeral")
						}
					}
				}
			})
		}
		names := []string{}
		for f := range reach {
			names = append(names, FuncName(f))
		}
		sort.Strings(names)
		c.CheckAt("C15.R5", "filter.Match call closure: only the exact-decimal engine parses/compares numbers", w.Pos(match.Pos()), n == 0, fmt.Sprintf("functions scanned: %v", names))
	}

	// ---- R2
	var lookups []*ssa.Lookup
	EachInstr(match, func(in ssa.Instruction) {
		if l, ok := in.(*ssa.Lookup); ok && l.CommaOk {
			if _, isMap := l.X.Type().Underlying().(*types.Map); isMap {
				lookups = append(lookups, l)
			}
		}
	})
	if c.Anchor("C15.R2", "`val, ok := tags[key]` lookup in filter.Match", len(lookups) > 0) {
		n := 0
		for _, l := range lookups {
			var val, okv ssa.Value
			for _, r := range *l.Referrers() {
				if e, ok := r.(*ssa.Extract); ok {
					if e.Index == 0 {
						val = e
					} else {
						okv = e
					}
				}
			}
			if val == nil {
				continue
			}
			for _, u := range *val.Referrers() {
				if _, dbg := u.(*ssa.DebugRef); dbg {
					continue
				}
				n++
				guarded := okv != nil && GuardedBy(u, func(g Guard) bool { return g.Cond == okv && g.Pol })
				// which case are we in?
				cs := "?"
				for _, g := range Guards(u) {
					d := D(g.Cond)
					if g.Pol && strings.Contains(d, "FilterNode.Cmp == ") {
						cs = d
						break
					}
				}
				c.Check("C15.R2", u, "use of looked-up tag value in case "+cs, guarded,
					"the tag value is read where `ok` is not known true: a key absent from the tag map is treated as the empty string (missing key must equal no value and be in no set)")
			}
		}
		c.Floor("C15.R2", 5)
		_ = n
	}

	// ---- R3
	checkNilGuard := func(fn *ssa.Function, rule string) {
		if len(fn.Params) == 0 {
			return
		}
		p := fn.Params[0]
		first := true
		EachInstr(fn, func(in ssa.Instruction) {
			fa, ok := in.(*ssa.FieldAddr)
			if !ok || fa.X != p {
				return
			}
			guarded := GuardedBy(fa, func(g Guard) bool {
				b, ok := g.Cond.(*ssa.BinOp)
				if !ok {
					return false
				}
				if !((b.X == p && isNilConst(b.Y)) || (b.Y == p && isNilConst(b.X))) {
					return false
				}
				return (b.Op == token.NEQ && g.Pol) || (b.Op == token.EQL && !g.Pol)
			})
			if first || !guarded {
				c.Check(rule, fa, "field access of parameter "+fn.Name()+".f", guarded,
					"the *FilterNode parameter is dereferenced without a nil test: JSON `\"nodes\":[null]` decodes to a nil child and the node panics (no recover on this path)")
				first = false
			}
		})
	}
	checkNilGuard(validate, "C15.R3")
	c.Floor("C15.R3", 1)
	// Match recursion only descends into elements of f.Nodes (validated children)
	for _, ci := range w.Deep(entryMatch, 2).Calls(w.calleeFn(entryMatch)) {
		arg := D(ci.Common().Args[0])
		ok := strings.Contains(arg, "FilterNode.Nodes")
		c.Check("C15.R3", ci, "recursive Match argument", ok, "recursive Match must descend into f.Nodes elements (validated children); got "+arg)
	}
	for _, ci := range CallsIn(validate, false, w.calleeFn(validate)) {
		arg := D(ci.Common().Args[0])
		ok := strings.Contains(arg, "FilterNode.Nodes")
		c.Check("C15.R3", ci, "recursive Validate argument", ok, "recursive Validate must visit f.Nodes elements; got "+arg)
	}

	// ---- R4
	if len(match.Params) > 0 {
		t := match.Params[0].Type()
		path := findMap(t, map[types.Type]bool{}, "FilterNode")
		c.CheckAt("C15.R4", "protocol.FilterNode: no map-typed field", w.Pos(match.Pos()), path == "", "map reachable at "+path+": marshalling order (and the hash) would depend on map iteration order")
	}
	if hash != nil {
		var size, marshal ssa.CallInstruction
		EachInstr(hash, func(in ssa.Instruction) {
			if ci := asCall(in); ci != nil {
				if f := ci.Common().StaticCallee(); f != nil {
					switch f.Name() {
					case "SizeVT":
						size = ci
					case "MarshalToVT", "MarshalVT", "MarshalToSizedBufferVT":
						marshal = ci
					}
				}
			}
		})
		ok := size != nil && marshal != nil && Precedes(size, marshal) && size.Common().Args[0] == marshal.Common().Args[0]
		var at ssa.Instruction
		if marshal != nil {
			at = marshal
		} else if len(hash.Blocks) > 0 {
			at = hash.Blocks[0].Instrs[0]
		}
		c.Check("C15.R4", at, "Hash: SizeVT before deterministic vtproto marshal of the same node", ok, "Hash must marshal the node with the deterministic vtproto marshaller into a buffer sized by SizeVT of that node")
	}
}

// findMap returns a path to a map type reachable from t, or "".
func findMap(t types.Type, seen map[types.Type]bool, path string) string {
	if seen[t] {
		return ""
	}
	seen[t] = true
	switch x := t.(type) {
	case *types.Pointer:
		return findMap(x.Elem(), seen, path)
	case *types.Named:
		return findMap(x.Underlying(), seen, path)
	case *types.Alias:
		return findMap(types.Unalias(x), seen, path)
	case *types.Slice:
		return findMap(x.Elem(), seen, path+"[]")
	case *types.Array:
		return findMap(x.Elem(), seen, path+"[]")
	case *types.Map:
		return path
	case *types.Struct:
		for i := 0; i < x.NumFields(); i++ {
			f := x.Field(i)
			if !f.Exported() {
				continue // unknownFields etc. are raw bytes
			}
			if p := findMap(f.Type(), seen, path+"."+f.Name()); p != "" {
				return p
			}
		}
	}
	return ""
}
