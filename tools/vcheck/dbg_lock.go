package main

import (
	"fmt"
	"os"

	"golang.org/x/tools/go/ssa"
)

func init() {
	if os.Getenv("VCHECK_DBG") == "" {
		return
	}
	dbgHook = func(w *World) {
		fn := w.Func("centrifuge", "(*Client).runTickDuty")
		for _, a := range fn.AnonFuncs {
			fmt.Println("anon", a.Name(), "callers", len(w.callers[a]), "addrTaken", w.addrTaken[a], "escapes", closureEscapes(a))
			for _, ci := range w.callers[a] {
				fmt.Printf("  caller %T in %s\n", ci, ci.Parent().Name())
				if g, ok := ci.(*ssa.Go); ok {
					r := PathQ{Stop: func(in ssa.Instruction) bool {
						if c2 := asCall(in); c2 != nil {
							if f := c2.Common().StaticCallee(); f != nil && f.Name() == "Wait" {
								return true
							}
						}
						return false
					}, Goal: isReturn}.From(g)
					fmt.Println("  path to return avoiding Wait:", r)
				}
			}
		}
	}
}

var dbgHook func(w *World)

var boundsDebug = os.Getenv("VCHECK_BOUNDS_DEBUG") != ""
