package main

import (
	"fmt"
	"go/token"
	"go/types"
	"strings"

	"golang.org/x/tools/go/ssa"
)

func init() {
	register(&PropMeta{
		ID:    "C05",
		Level: "other",
		Explanation: "(R1) Client.close sets statusClosed and snapshots Client.channels in one c.mu critical section, removes the client from the node only when authenticated, closes the writer before the dictionary codec before the transport, and only then takes presenceMu, unsubscribes every snapshotted channel and cleans the in-progress map subscriptions; " +
			"(R2) the rollback exits of commitSubscription release the buffer before removing the hub entry, remove the pre-commit presence for channel reservations, and wake waiters last; " +
			"(R3) every caller of subscribeCmd rolls the attempt back on a failing result (onSubscribeErrorGen / rollbackConnectServerSideSubs), and every failing exit of handleMapTransitionToLive after the hub add removes the hub entry; " +
			"(R4) the closed-during-connect and lost-reservation edges of connectCmd can reach removeSubscription and removeSubscribePresence; " +
			"(R5) in subscribeCmd the presenceAdded marker is set right after addPresence and a deferred removal covers every later failing return; " +
			"(R6) connection/subscription gauges and the session registry move only next to the registry mutation they count; " +
			"(R7) unsubscribe removes presence, keyed state, the per-channel writer and the hub entry for the flags the removed context carries.",
		NotDecided: "that the rollbacks are sufficient under every crash point and interleaving; the numeric values of gauges; broker-side failures of the removal calls themselves.",
		Rules: map[string]string{
			"C05.R1": "K1 order in Client.close", "C05.R2": "K1 order in commitSubscription rollbacks",
			"C05.R3": "error discipline at subscribeCmd call sites and map live transition", "C05.R4": "K1 reachability on connectCmd rollback edges",
			"C05.R5": "pairing: addPresence … deferred removeSubscribePresence", "C05.R6": "K4 who-may-write gauges/sessions", "C05.R7": "K2 cleanup calls in unsubscribe per flag",
		},
		Run: runC05,
	})
	register(&PropMeta{
		ID:    "C06",
		Level: "other",
		Explanation: "(R1) every presence add issued by the periodic tick runs with presenceMu held, and Client.close holds presenceMu across its unsubscribe loop (tick and close are serialised); " +
			"(R2) once the tick snapshot is taken every exit of updatePresence runs compensateRacedPresence (deferred before the first early return); " +
			"(R3) in unsubscribe the channel is deleted from Client.channels before presence is removed (the compensation's membership re-check relies on it); " +
			"(R4) = C05.R5; (R5) removeRacedPresence removes exactly the presence kinds updateChannelPresence adds, each under a test equivalent to the adder's (flagEmitPresence; flagMapClientPresence or a non-empty mapClientPresenceChannel).",
		NotDecided: "presence set contents and statistics arithmetic (values); Redis presence scripts.",
		Rules: map[string]string{
			"C06.R1": "K3 lockset: presence adds of the tick under presenceMu", "C06.R2": "K1 must-pass: compensateRacedPresence on every exit",
			"C06.R3": "K1 order: delete before presence removal", "C06.R5": "sibling agreement between adder and compensator",
		},
		Run: runC06,
	})
	register(&PropMeta{
		ID:    "C07",
		Level: "other",
		Explanation: "(R1) no call that publishes a join (Node.publishJoin, publishJoinAndPresence, setupMapPresenceAndJoin) sits in a `go` statement or in a function literal started by one; " +
			"(R2) every such call follows the commit of that subscription (commitSubscription / connect finalize store / subscribeCmd result check) on every path; " +
			"(R3) Node.publishLeave is called only from unsubscribe, dominated by the removedNow ownership test and by flagEmitJoinLeave && flagSubscribed of the removed context, and a failing leave does not stop the teardown; " +
			"(R4) everything after the `!removedNow → return` test in unsubscribe runs only for the goroutine that won the delete.",
		NotDecided: "cross-broker ordering of the join and leave messages themselves; what observers receive.",
		Rules: map[string]string{
			"C07.R1": "K4: join publication never asynchronous", "C07.R2": "K1: join after commit",
			"C07.R3": "K2+K4: leave only for established subscriptions, only by the owner", "C07.R4": "K2: single owner of unsubscribe cleanup",
		},
		Run: runC07,
	})
	register(&PropMeta{
		ID:    "C08",
		Level: "other",
		Explanation: "(R1) the connect callback is invoked only in triggerConnect, with connectMu held, after a statusConnecting test, and statusConnected is stored only after it; every caller arms the connection's timers (scheduleOnConnectTimers) only after triggerConnect returned; " +
			"(R2) the disconnect callback is invoked only in Client.close, only when the previous status was statusConnected, with connectMu and presenceMu held, after the closed test and the statusClosed store made in one c.mu critical section; " +
			"(R3) the alive callback is invoked only with presenceMu held and after a not-closed test made under c.mu in that section; " +
			"(R4) the unsubscribe callback is invoked only in unsubscribe, for the goroutine that removed the entry, for contexts with flagSubscribed; " +
			"(R5) connectCmd consults the node's shutdown state after registering the client in the hub, and every HTTP handler that creates a client either checks it before or relies on that check.",
		NotDecided: "callback ordering across goroutines beyond these lock/guard facts; timer timing.",
		Rules: map[string]string{
			"C08.R1": "K4+K3+K2+K1: connect handler call sites and timer arming order", "C08.R2": "K4+K3+K2: disconnect handler", "C08.R3": "K4+K3+K2: alive handler",
			"C08.R4": "K4+K2: unsubscribe handler", "C08.R5": "K1: shutdown consulted after hub registration",
		},
		Run: runC08,
	})
}

func builtinCalls(fn *ssa.Function, name string) []*ssa.Call {
	var out []*ssa.Call
	EachInstr(fn, func(in ssa.Instruction) {
		if call, ok := in.(*ssa.Call); ok {
			if b, ok := call.Call.Value.(*ssa.Builtin); ok && b.Name() == name {
				out = append(out, call)
			}
		}
	})
	return out
}

func lockCalls(fn *ssa.Function, kind, lockSuffix string) []ssa.Instruction {
	var out []ssa.Instruction
	EachInstr(fn, func(in ssa.Instruction) {
		if ci := asCall(in); ci != nil {
			if _, isDefer := in.(*ssa.Defer); isDefer {
				return
			}
			if k, l := lockEvent(ci); k == kind && strings.HasSuffix(l, lockSuffix) {
				out = append(out, in)
			}
		}
	})
	return out
}

// orderChain checks that in fn the first instruction matching each successive predicate precedes
// (dominates) the next one.
func (c *Ctx) orderChain(rule string, fn *ssa.Function, names []string, preds []func(ssa.Instruction) bool, why string) {
	// A step may sit in fn itself or in a same-package helper fn calls (a teardown block extracted into a
	// method): it is then represented in fn by the call site of the helper, and two consecutive steps
	// inside the same helper are ordered there.
	var prev, prevInner ssa.Instruction
	for i, p := range preds {
		var cur, inner ssa.Instruction
		EachInstr(fn, func(in ssa.Instruction) {
			if cur == nil && p(in) {
				cur, inner = in, in
			}
		})
		if cur == nil {
			EachInstr(fn, func(in ssa.Instruction) {
				if cur != nil {
					return
				}
				ci := asCall(in)
				if ci == nil {
					return
				}
				cal := c.W.Callee(ci)
				if cal == nil || cal.Pkg != fn.Pkg || !c.W.inModule(cal) {
					return
				}
				EachInstr(cal, func(x ssa.Instruction) {
					if cur == nil && p(x) {
						cur, inner = in, x
					}
				})
			})
		}
		if !c.Anchor(rule, names[i]+" in "+FuncName(fn), cur != nil) {
			return
		}
		if prev != nil {
			// order on every path that contains both (steps may be conditional or loop bodies)
			ok := Reaches(prev, cur) && !Reaches(cur, prev)
			if prev == cur && prevInner != nil && inner != nil && prevInner.Parent() == inner.Parent() {
				ok = Reaches(prevInner, inner) && !Reaches(inner, prevInner)
			}
			c.CheckAt(rule, FuncName(fn)+": "+names[i-1]+" ≺ "+names[i], c.W.InstrPos(cur), ok, why)
		}
		prev, prevInner = cur, inner
	}
}

func runC05(c *Ctx) {
	w := c.W
	li := w.Locks()
	closeFn := c.Fn("C05.R1", "centrifuge", "(*Client).close")
	statusClosed, _ := w.ConstInt("centrifuge", "statusClosed")
	if closeFn != nil {
		isStatusStore := func(in ssa.Instruction) bool {
			st, ok := in.(*ssa.Store)
			if !ok {
				return false
			}
			fa, ok := st.Addr.(*ssa.FieldAddr)
			if !ok || !fieldAddrIs(fa, "Client", "status") {
				return false
			}
			v, isC := constIntOf(st.Val)
			return isC && v == statusClosed
		}
		isSnapshotRange := func(in ssa.Instruction) bool {
			if r, ok := in.(*ssa.Range); ok {
				return strings.HasSuffix(D(r.X), "Client.channels")
			}
			// maps.Copy(snapshot, c.channels) / maps.Clone(c.channels)
			if call, ok := in.(*ssa.Call); ok {
				if cal := call.Call.StaticCallee(); cal != nil && cal.Object() != nil && cal.Object().Pkg() != nil && cal.Object().Pkg().Path() == "maps" {
					for _, a := range call.Call.Args {
						if strings.HasSuffix(D(a), "Client.channels") {
							return true
						}
					}
				}
			}
			return false
		}
		invoke := func(name string) func(ssa.Instruction) bool {
			return func(in ssa.Instruction) bool {
				ci := asCall(in)
				if ci == nil {
					return false
				}
				if _, d := in.(*ssa.Defer); d {
					return false
				}
				return calleeName(ci.Common()) == name
			}
		}
		presLock := func(in ssa.Instruction) bool {
			ci := asCall(in)
			if ci == nil {
				return false
			}
			k, l := lockEvent(ci)
			return k == "Lock" && strings.HasSuffix(l, "Client.presenceMu")
		}
		c.orderChain("C05.R1", closeFn,
			[]string{"status = statusClosed", "snapshot of Client.channels", "writer.close", "CloseDictionaryCompression", "Transport.Close", "presenceMu.Lock", "Client.unsubscribe loop", "cleanupMapSubscribingAll"},
			[]func(ssa.Instruction) bool{isStatusStore, isSnapshotRange, invoke("writer.close"), invoke("DictionaryAwareTransport.CloseDictionaryCompression"), invoke("Transport.Close"), presLock, invoke("Client.unsubscribe"), invoke("Client.cleanupMapSubscribingAll")},
			"close() must flip the status and snapshot the channels atomically, tear the transport down, then undo every subscription; a different order leaks routing/presence entries or overlaps the codec with a write")
		// status store and snapshot in one critical section
		var st, rng ssa.Instruction
		EachInstr(closeFn, func(in ssa.Instruction) {
			if st == nil && isStatusStore(in) {
				st = in
			}
			if rng == nil && isSnapshotRange(in) {
				rng = in
			}
		})
		if st != nil && rng != nil {
			u := unlockBetween(closeFn, st, rng, "Client.mu")
			c.Check("C05.R1", rng, "status flip and channel snapshot in one c.mu critical section", u == nil && li.HeldAt(st).Holds("Client.mu", true) && li.HeldAt(rng).Holds("Client.mu", true),
				"a subscription committed between the status flip and the snapshot is neither rolled back by its commit (status not yet closed) nor unsubscribed by close (not in the snapshot)")
			// the closed test precedes the store in the same section (test-and-set ⇒ at most once)
			tested := GuardedBy(st, eqConstGuard("Client.status", statusClosed, false))
			c.Check("C05.R1", st, "statusClosed store dominated by the not-closed test", tested, "close() must be one-shot")
		}
		for _, rc := range CallsIn(closeFn, false, w.calleeIs("Node.removeClient")) {
			okG := GuardedBy(rc, func(g Guard) bool { return g.Pol && strings.HasSuffix(D(g.Cond), "Client.authenticated") })
			c.Check("C05.R1", rc, "removeClient only for an authenticated (hub-registered) client", okG, "removing a never-registered client drifts the connection gauge")
		}
		c.Anchor("C05.R1", "Node.removeClient call in close", len(CallsIn(closeFn, false, w.calleeIs("Node.removeClient"))) > 0)
		// every channel of the snapshot is unsubscribed: the unsubscribe call sits in a range over the snapshot map
		for _, uc := range CallsIn(closeFn, false, w.calleeIs("Client.unsubscribe")) {
			d := D(uc.Common().Args[1])
			c.Check("C05.R1", uc, "unsubscribe called for every snapshotted channel", strings.Contains(d, "next(range(makemap") || strings.Contains(d, "range("), "the unsubscribe loop must range over the snapshot taken under the status flip; got "+d)
		}
	}

	runC05Keyed(c)

	// ---- R2
	commitFn := c.Fn("C05.R2", "centrifuge", "(*Client).commitSubscription")
	if commitFn != nil {
		stopB := w.calleeIs("PubSubSync.StopBuffering")
		rem := w.calleeIs("Node.removeSubscription")
		// the rollback may live in commitSubscription itself or in a helper it calls (deep view)
		dv := w.Deep(commitFn, 2)
		rems := dv.Calls(rem)
		exits := map[ssa.Instruction]bool{}
		for _, r := range rems {
			for _, rr := range dv.Reps(r) {
				exits[rr] = true
			}
		}
		c.Anchor("C05.R2", "two rollback exits with removeSubscription in commitSubscription", len(exits) >= 2)
		for _, r := range rems {
			okStop := false
			for _, s := range dv.Calls(stopB) {
				if dv.PrecedesDeep(s, r) {
					okStop = true
				}
			}
			c.Check("C05.R2", r, "StopBuffering ≺ removeSubscription on the rollback exit", okStop, "removing the hub entry while the recovery buffer is locked inverts the broadcast lock order (deadlock) — and skipping the release leaks the buffer")
			// gen argument is ctx.subGen (C04.R3 covers origin); presence removal follows under kind==reservationChannels
			okPres := false
			for _, p := range dv.Calls(w.calleeIs("Client.removeSubscribePresence")) {
				if (p.Parent() == r.Parent() && Reaches(r, p)) || dv.PrecedesDeep(r, p) {
					okPres = true
				}
			}
			c.Check("C05.R2", r, "rollback exit can reach removeSubscribePresence", okPres, "presence added before the commit lingers until PresenceTTL")
			// no lock held while calling into the hub
			c.Check("C05.R2", r, "c.mu released before hub removal", !li.HeldAt(r).Holds("Client.mu", false), "removeSubscription takes subLock/subShard.mu; holding c.mu across it inverts the lock order")
		}
		for _, cl := range builtinCalls(commitFn, "close") {
			okLast := false
			for _, r := range rems {
				for _, rr := range dv.Reps(r) {
					if Precedes(rr, cl) {
						okLast = true
					}
				}
			}
			c.Check("C05.R2", cl, "waiters are woken only after the rollback removed the hub entry", okLast, "a woken unsubscribe (typically close()) would observe a half-rolled-back attempt and report the client fully disconnected while its hub entry is still registered")
		}
		// failing exits return (nil,false); success exit stores ctx into c.channels with subscribingCh cleared
		for _, mu := range mapUpdatesOf(commitFn, false, "Client", "channels") {
			cleared := false
			EachInstr(commitFn, func(in ssa.Instruction) {
				if s, ok := in.(*ssa.Store); ok {
					if fa, ok := s.Addr.(*ssa.FieldAddr); ok && fieldAddrIs(fa, "ChannelContext", "subscribingCh") && isNilConst(s.Val) && Precedes(s, mu) {
						cleared = true
					}
				}
			})
			c.Check("C05.R2", mu, "committed context carries no subscribingCh", cleared, "a committed entry that still carries the wait gate can be closed twice (panic) by a timed-out unsubscribe")
		}
	}

	// ---- R3
	subscribeCmd := c.Fn("C05.R3", "centrifuge", "(*Client).subscribeCmd")
	if subscribeCmd != nil {
		rollback := w.wrapMust(w.calleeIs("Client.onSubscribeErrorGen", "Client.rollbackConnectServerSideSubs"), 2)
		for _, ci := range w.Callers(subscribeCmd) {
			caller := ci.Parent()
			if caller.Parent() != nil && w.inGoroutineLiteral(caller) {
				// connectCmd: after the join every return not preceded by the finalize loop passes the rollback
				parent := caller.Parent()
				isFinalizeRange := func(in ssa.Instruction) bool {
					r, ok := in.(*ssa.Range)
					if !ok {
						return false
					}
					m, ok := r.X.Type().Underlying().(*types.Map)
					return ok && typeShort(m.Elem()) == "subscribeContext"
				}
				for _, wt := range CallsIn(parent, false, w.calleeIs("WaitGroup.Wait")) {
					// (an exit of an extracted fan-out helper continues at its call site in connectCmd)
					bad := w.mustPassUp(wt, PathQ{Stop: func(in ssa.Instruction) bool { return rollback(in) || isFinalizeRange(in) }, Goal: isReturn}, 2)
					d := "a connect that fails after its server-side subscribes were applied must undo their reservations, hub entries and presence"
					if bad != nil {
						d += " (return at " + w.InstrPos(bad) + ")"
					}
					c.Check("C05.R3", wt, "connectCmd: every early exit after the subscribes passes rollbackConnectServerSideSubs", bad == nil, d)
				}
				continue
			}
			n := 0
			EachInstr(caller, func(in ssa.Instruction) {
				ifi, ok := in.(*ssa.If)
				if !ok {
					return
				}
				d := D(ifi.Cond)
				if !strings.Contains(d, "subscribeCmd(") || !(strings.HasSuffix(d, ".disconnect != nil)") || strings.HasSuffix(d, ".err != nil)")) {
					return
				}
				n++
				bad := PathQ{Stop: rollback, Goal: isReturn}.FromBlock(ifi.Block().Succs[0])
				c.Check("C05.R3", ifi, "failing subscribeCmd result is rolled back (onSubscribeErrorGen)", bad == nil, "the reservation and hub entry of a failed subscribe attempt would stay behind")
			})
			c.Check("C05.R3", ci, "caller tests both .disconnect and .err of the subscribeCmd result", n >= 2, fmt.Sprintf("found %d result tests", n))
		}
	}
	mapLive := c.Fn("C05.R3", "centrifuge", "(*Client).handleMapTransitionToLive")
	if mapLive != nil {
		rem := w.wrapMust(w.calleeIs("Node.removeSubscription", "Client.commitSubscription"), 3)
		for _, a := range CallsIn(mapLive, false, w.calleeIs("Node.addSubscription")) {
			// success edge of addSubscription
			var okBlk *ssa.BasicBlock
			if v := a.Value(); v != nil {
				for _, r := range *v.Referrers() {
					if ex, ok := r.(*ssa.Extract); ok && ex.Index == 1 {
						for _, rr := range *ex.Referrers() {
							if b, ok := rr.(*ssa.BinOp); ok && b.Op == token.NEQ && isNilConst(b.Y) {
								for _, ifi := range ifsOn(b) {
									okBlk = ifi.Block().Succs[1]
								}
							}
						}
					}
				}
			}
			if !c.Anchor("C05.R3", "error test of addSubscription in handleMapTransitionToLive", okBlk != nil) {
				continue
			}
			bad := PathQ{Stop: rem, Goal: func(in ssa.Instruction) bool {
				r, ok := in.(*ssa.Return)
				return ok && len(r.Results) == 1 && !isNilConst(r.Results[0])
			}}.FromBlock(okBlk)
			d := "a failing map live transition must remove the hub entry it added (rollback) or hand it to commitSubscription"
			if bad != nil {
				d += " (failing return at " + w.InstrPos(bad) + ")"
			}
			c.Check("C05.R3", a, "every failing exit after the hub add removes the hub entry", bad == nil, d)
		}
	}

	// ---- R4
	connectCmd := c.Fn("C05.R4", "centrifuge", "(*Client).connectCmd")
	if connectCmd != nil {
		n := 0
		EachInstr(connectCmd, func(in ssa.Instruction) {
			ifi, ok := in.(*ssa.If)
			if !ok {
				return
			}
			b, ok := ifi.Cond.(*ssa.BinOp)
			if !ok || b.Op != token.EQL || !strings.HasSuffix(D(b.X), "Client.status") {
				return
			}
			// only the closedDuringConnect uses after the finalize section: those that return DisconnectConnectionClosed after loops
			blk := ifi.Block().Succs[0]
			hasRem := PathQ{Goal: instrPred(w.calleeIs("Node.removeSubscription"))}.FromBlock(blk) != nil
			hasDelete := false
			for _, d := range mapDeletesOf(connectCmd, false, "Client", "channels") {
				if d.Block() == blk {
					hasDelete = true
				}
			}
			if !hasRem && !hasDelete {
				return // early closed tests before any subscription exists
			}
			if hasDelete {
				return
			}
			n++
			hasPres := PathQ{Goal: instrPred(w.calleeIs("Client.removeSubscribePresence"))}.FromBlock(blk) != nil
			c.Check("C05.R4", ifi, "closed-during-connect edge reaches removeSubscription and removeSubscribePresence", hasRem && hasPres, "close() snapshotted c.channels before these subscriptions were installed; without this rollback their hub and presence entries leak")
		})
		c.Anchor("C05.R4", "closed-during-connect rollback edge in connectCmd", n >= 1)
		// lost reservations loop
		okLost := false
		EachInstr(connectCmd, func(in ssa.Instruction) {
			r, ok := in.(*ssa.Range)
			if !ok {
				return
			}
			m, ok := r.X.Type().Underlying().(*types.Map)
			if !ok {
				return
			}
			if bt, ok := m.Elem().Underlying().(*types.Basic); ok && bt.Kind() == types.Bool {
				hasRem := PathQ{Goal: instrPred(w.calleeIs("Node.removeSubscription"))}.From(r) != nil
				hasPres := PathQ{Goal: instrPred(w.calleeIs("Client.removeSubscribePresence"))}.From(r) != nil
				if hasRem && hasPres {
					okLost = true
				}
			}
		})
		c.CheckAt("C05.R4", "(*centrifuge.Client).connectCmd: lost-reservation loop removes hub entry and presence", w.Pos(connectCmd.Pos()), okLost, "a connect-time subscription whose reservation was consumed by a timed-out unsubscribe keeps its hub entry")
	}

	// ---- R5
	if subscribeCmd != nil {
		addP := CallsIn(subscribeCmd, false, w.calleeIs("Node.addPresence"))
		if c.Anchor("C05.R5", "Node.addPresence call in subscribeCmd", len(addP) > 0) {
			for _, a := range addP {
				// a deferred closure that may call removeSubscribePresence precedes the add
				deferred := false
				EachInstr(subscribeCmd, func(in ssa.Instruction) {
					if d, ok := in.(*ssa.Defer); ok && Precedes(d, a) {
						if cal := w.Callee(d); cal != nil && w.MayReach(cal, w.calleeIs("Client.removeSubscribePresence"), 1) {
							// the closure must act on failing results
							deferred = true
						}
					}
				})
				c.Check("C05.R5", a, "deferred presence removal armed before addPresence", deferred, "a failure after addPresence leaves the presence entry until PresenceTTL")
				// marker set before any return
				bad := PathQ{Stop: func(in ssa.Instruction) bool {
					st, ok := in.(*ssa.Store)
					if !ok {
						return false
					}
					v, known := boolConst(st.Val)
					return known && v && strings.Contains(D(st.Addr), "presenceAdded")
				}, Goal: isReturn}.From(a)
				c.Check("C05.R5", a, "presence marker set on every path right after addPresence (even on error)", bad == nil, "a failed add may still have landed server-side; without the marker the deferred removal is skipped")
			}
		}
	}

	// ---- R6
	type gauge struct{ field, fn, hubCall, op string }
	for _, g := range []gauge{{"connectionsInflight", "(*Node).addClient", "Hub.add", "Inc"}, {"connectionsInflight", "(*Node).removeClient", "Hub.remove", "Dec"}} {
		fn := c.Fn("C05.R6", "centrifuge", g.fn)
		if fn == nil {
			continue
		}
		n := 0
		for _, f := range w.AllFuncs {
			EachInstr(f, func(in ssa.Instruction) {
				ci := asCall(in)
				if ci == nil {
					return
				}
				name := calleeName(ci.Common())
				if !(strings.HasSuffix(name, "."+g.op)) || ci.Common().IsInvoke() == false && ci.Common().StaticCallee() == nil {
					return
				}
				recv := ""
				if ci.Common().IsInvoke() {
					recv = D(ci.Common().Value)
				} else if len(ci.Common().Args) > 0 {
					recv = D(ci.Common().Args[0])
				}
				if !strings.Contains(recv, "metrics."+g.field) {
					return
				}
				n++
				inFn := f == fn
				guarded := Guarded(in, func(gd Guard) bool { return gd.Pol && strings.Contains(D(gd.Cond), g.hubCall+"(") })
				c.Check("C05.R6", in, g.field+"."+g.op+" only in "+fn.Name()+" on the success edge of "+g.hubCall, inFn && guarded, "the connections gauge must move exactly when the hub registry changes")
			})
		}
		c.Anchor("C05.R6", g.field+"."+g.op+" site", n > 0)
	}
	// Hub.sessions: insert only in Hub.add, delete only in Hub.remove, under sessionsMu
	for _, f := range w.AllFuncs {
		if f.Name() == "newHub" {
			continue
		}
		for _, a := range FieldAccesses(f, "Hub", "sessions") {
			if !a.Write {
				continue
			}
			want := "Hub.add"
			if a.Kind == "delete" {
				want = "Hub.remove"
			}
			c.Check("C05.R6", a.In, "Hub.sessions "+a.Kind+" only in "+want+" under sessionsMu", shortFuncName(f) == want && li.HeldAt(a.In).Holds("Hub.sessionsMu", true), "a session entry written elsewhere survives the connection")
		}
	}
	// connShard.clients/users mutations only in add/remove under the shard lock
	for _, f := range w.AllFuncs {
		if f.Name() == "newConnShard" {
			continue
		}
		for _, fld := range []string{"clients", "users"} {
			for _, a := range FieldAccesses(f, "connShard", fld) {
				if !a.Write {
					continue
				}
				ok := (shortFuncName(f) == "connShard.add" || shortFuncName(f) == "connShard.remove") && li.HeldAt(a.In).Holds("connShard.mu", true)
				c.Check("C05.R6", a.In, "connShard."+fld+" mutated only in add/remove under the shard lock", ok, "connection registry mutated outside its owner")
			}
		}
	}
	c.Floor("C05.R6", 6)

	// ---- R7
	unsub := c.Fn("C05.R7", "centrifuge", "(*Client).unsubscribe")
	if unsub != nil {
		type cleanup struct {
			callee string
			flag   string
		}
		for _, cu := range []cleanup{{"Client.cleanupKeyed", "flagKeyed"}, {"Node.removePresence", "flagEmitPresence"}, {"Client.removeMapPresence", ""}, {"perChannelWriter.delWriter", ""}, {"Node.removeSubscription", ""}} {
			// (in unsubscribe itself or in a helper it delegates a critical section to)
			calls := w.Deep(unsub, 1).Calls(w.calleeIs(cu.callee))
			if !c.Anchor("C05.R7", cu.callee+" call in unsubscribe", len(calls) > 0) {
				continue
			}
			for _, ci := range calls {
				ok := true
				if cu.flag != "" {
					ok = GuardedBy(ci, w.flagGuard(cu.flag, true, ".flags"))
				}
				c.Check("C05.R7", ci, cu.callee+" under its flag in unsubscribe", ok, "the cleanup must run for contexts carrying "+cu.flag)
			}
		}
	}
}

func runC06(c *Ctx) {
	w := c.W
	li := w.Locks()
	// R1: presence adds reachable from the tick hold presenceMu
	tick := c.Fn("C06.R1", "centrifuge", "(*Client).updatePresence")
	ucp := c.Fn("C06.R1", "centrifuge", "(*Client).updateChannelPresence")
	if ucp != nil {
		for _, ci := range CallsIn(ucp, false, w.calleeIs("Node.addPresence", "Client.updateMapPresence")) {
			held := li.HeldAt(ci)
			c.Check("C06.R1", ci, "tick presence add under presenceMu", held.Holds("Client.presenceMu", true), "close() serialises against the tick through presenceMu; an add outside it can land after close removed presence (held: "+held.String()+")")
		}
		c.Floor("C06.R1", 2)
	}
	closeFn := c.Fn("C06.R1", "centrifuge", "(*Client).close")
	if closeFn != nil {
		for _, uc := range CallsIn(closeFn, false, w.calleeIs("Client.unsubscribe", "Client.cleanupMapSubscribingAll")) {
			c.Check("C06.R1", uc, "close() cleanup under presenceMu", li.HeldAt(uc).Holds("Client.presenceMu", true), "the unsubscribe loop of close must not overlap an in-flight presence tick")
		}
	}
	// R2
	if tick != nil {
		comp := w.calleeIs("Client.compensateRacedPresence")
		var deferComp *ssa.Defer
		EachInstr(tick, func(in ssa.Instruction) {
			if d, ok := in.(*ssa.Defer); ok && comp(d) {
				deferComp = d
			}
		})
		if c.Anchor("C06.R2", "deferred compensateRacedPresence in updatePresence", deferComp != nil) {
			// every call that can add presence / every early return after the snapshot is after the defer
			for _, ci := range CallsIn(tick, false, w.calleeIs("Client.runTickDuty")) {
				c.Check("C06.R2", ci, "compensation armed before presence work starts", Precedes(deferComp, ci), "an early exit of the tick would leave a presence entry resurrected by a racing unsubscribe")
			}
			// the snapshot it receives is the one filled under c.mu: the defer follows the snapshot loop
			var snap ssa.Instruction
			EachInstr(tick, func(in ssa.Instruction) {
				if r, ok := in.(*ssa.Range); ok && strings.HasSuffix(D(r.X), "Client.channels") {
					snap = r
				}
			})
			if snap != nil {
				c.Check("C06.R2", deferComp, "compensation armed after the snapshot was taken", Precedes(snap, deferComp), "the compensation must see the snapshot of this tick")
				// no return between snapshot unlock and the defer
				bad := PathQ{Stop: func(in ssa.Instruction) bool { return in == ssa.Instruction(deferComp) }, Goal: isReturn}.From(snap)
				c.Check("C06.R2", snap, "no exit between the snapshot and arming the compensation", bad == nil, "such an exit skips the compensation")
			}
		}
		compFn := c.Fn("C06.R2", "centrifuge", "(*Client).compensateRacedPresence")
		if compFn != nil {
			// membership re-check under c.mu, removal for raced items
			okLookup := false
			EachInstr(compFn, func(in ssa.Instruction) {
				if lk, ok := in.(*ssa.Lookup); ok && strings.HasSuffix(D(lk.X), "Client.channels") && li.HeldAt(lk).Holds("Client.mu", false) {
					okLookup = true
				}
			})
			c.CheckAt("C06.R2", "(*centrifuge.Client).compensateRacedPresence: membership re-check under c.mu", w.Pos(compFn.Pos()), okLookup, "compensation must re-check channel membership under the lock")
			c.CheckAt("C06.R2", "(*centrifuge.Client).compensateRacedPresence: calls removeRacedPresence", w.Pos(compFn.Pos()), len(CallsIn(compFn, false, w.calleeIs("Client.removeRacedPresence"))) > 0, "raced entries must be removed")
			// presence entries carry no generation: a channel counts as raced only when it is absent
			nr := 0
			EachInstr(compFn, func(in ssa.Instruction) {
				st, ok := in.(*ssa.Store)
				if !ok {
					return
				}
				fa, ok := st.Addr.(*ssa.FieldAddr)
				if !ok || !fieldAddrIs(fa, "channelTickItem", "raced") {
					return
				}
				if v, known := boolConst(st.Val); !known || !v {
					return
				}
				nr++
				okG := GuardedBy(st, func(g Guard) bool { return !g.Pol && strings.HasPrefix(D(g.Cond), "ok(Client.channels[") })
				c.Check("C06.R2", st, "a channel is compensated only when it is absent from Client.channels", okG, "presence is keyed by channel and client, not by subscription generation: treating a re-subscribed channel as raced removes the presence entry its live subscription owns")
			})
			c.Anchor("C06.R2", "raced marker store in compensateRacedPresence", nr > 0)
		}
	}
	// R3
	unsub := c.Fn("C06.R3", "centrifuge", "(*Client).unsubscribe")
	if unsub != nil {
		dels := channelDeleteSites(w, unsub)
		for _, p := range CallsIn(unsub, false, w.calleeIs("Node.removePresence", "Client.removeMapPresence")) {
			ok := false
			for _, d := range dels {
				if Reaches(d, p) && !Reaches(p, d) {
					ok = true
				}
			}
			c.Check("C06.R3", p, "channel deleted from Client.channels before presence removal", ok, "the tick's compensation re-checks membership: removing presence first lets a concurrent tick re-add it unnoticed")
		}
		c.Floor("C06.R3", 2)
	}
	// R5 sibling agreement
	rrp := c.Fn("C06.R5", "centrifuge", "(*Client).removeRacedPresence")
	if rrp != nil && ucp != nil {
		addsNode := len(CallsIn(ucp, false, w.calleeIs("Node.addPresence"))) > 0
		remNode := CallsIn(rrp, false, w.calleeIs("Node.removePresence"))
		c.CheckAt("C06.R5", "node presence: adder and compensator agree", w.Pos(rrp.Pos()), addsNode == (len(remNode) > 0), "updateChannelPresence adds node presence but removeRacedPresence does not remove it (or vice versa)")
		for _, r := range remNode {
			c.Check("C06.R5", r, "node presence removal under flagEmitPresence", GuardedBy(r, w.flagGuard("flagEmitPresence", true, "ChannelContext.flags")), "compensator must mirror the adder's flag test")
		}
		for _, a := range CallsIn(ucp, false, w.calleeIs("Node.addPresence")) {
			c.Check("C06.R5", a, "node presence add under flagEmitPresence", GuardedBy(a, w.flagGuard("flagEmitPresence", true, "ChannelContext.flags")), "adder flag test")
		}
		// map client presence: removal via MapRemove on mapClientPresenceChannel, guarded by flagMapClientPresence or non-empty channel
		rems := CallsIn(rrp, false, w.calleeIs("Node.MapRemove"))
		c.Anchor("C06.R5", "map client presence removal in removeRacedPresence", len(rems) > 0)
		for _, r := range rems {
			usesClientCh := strings.Contains(D(r.Common().Args[2]), "mapClientPresenceChannel")
			okG := GuardedBy(r, w.flagGuard("flagMapClientPresence", true, "ChannelContext.flags")) || GuardedBy(r, func(g Guard) bool {
				b, ok := g.Cond.(*ssa.BinOp)
				if !ok {
					return false
				}
				s, isS := constStrOf(b.Y)
				return isS && s == "" && strings.HasSuffix(D(b.X), "mapClientPresenceChannel") && ((b.Op == token.NEQ && g.Pol) || (b.Op == token.EQL && !g.Pol))
			})
			d := "the compensator must remove map client presence exactly when the adder (flagMapClientPresence ⇔ mapClientPresenceChannel != \"\") added it"
			if !okG {
				d += fmt.Sprintf(" (guards: %v)", GuardStrings(r))
			}
			c.Check("C06.R5", r, "map client presence removal under the adder's condition", usesClientCh && okG, d)
		}
	}
}

func runC07(c *Ctx) {
	w := c.W
	joinish := []string{"Node.publishJoin", "Client.publishJoinAndPresence", "Client.setupMapPresenceAndJoin"}
	isJoin := w.calleeIs(joinish...)
	n := 0
	for _, f := range w.AllFuncs {
		for _, ci := range CallsIn(f, false, isJoin) {
			n++
			_, isGo := ci.(*ssa.Go)
			async := isGo || w.inGoroutineLiteral(f)
			c.Check("C07.R1", ci, "join publication is synchronous", !async, "a goroutine racing a disconnect's synchronous publishLeave can put Join after Leave on the wire")
		}
	}
	c.Floor("C07.R1", 5)
	// R2: join after commit
	commitLike := func(fn *ssa.Function) func(ssa.Instruction) bool {
		// a function that commits explicitly (server-side Subscribe, map live transition) is judged on
		// that commit; elsewhere subscribeCmd, which commits internally, is the commit point
		ownCommit := len(CallsIn(fn, false, w.calleeIs("Client.commitSubscription"))) > 0
		return func(in ssa.Instruction) bool {
			if ci := asCall(in); ci != nil {
				if w.calleeIs("Client.commitSubscription")(ci) {
					return true
				}
				if !ownCommit && w.calleeIs("Client.subscribeCmd")(ci) {
					return true
				}
			}
			if mu, ok := in.(*ssa.MapUpdate); ok && loadsField(mu.Map, "Client", "channels") && strings.Contains(D(mu.Value), "channelContext") {
				return true
			}
			// connect finalize loop: a range over the subscribe contexts whose body installs them
			if r, ok := in.(*ssa.Range); ok {
				if m, ok := r.X.Type().Underlying().(*types.Map); ok && typeShort(m.Elem()) == "subscribeContext" {
					hit := PathQ{Stop: func(x ssa.Instruction) bool { _, isR := x.(*ssa.Range); return isR }, Goal: func(x ssa.Instruction) bool {
						mu, ok := x.(*ssa.MapUpdate)
						return ok && loadsField(mu.Map, "Client", "channels")
					}}.From(r)
					if hit != nil {
						return true
					}
				}
			}
			// the shared-poll commit installs a literal context with flags
			if mu, ok := in.(*ssa.MapUpdate); ok && loadsField(mu.Map, "Client", "channels") && !isReservationValue(mu.Value) && originLookup(mu.Value, 0) == nil {
				return true
			}
			return false
		}
	}
	for _, f := range w.AllFuncs {
		name := shortFuncName(f)
		if name == "Client.publishJoinAndPresence" || name == "Client.setupMapPresenceAndJoin" {
			continue // wrappers: their callers are checked
		}
		for _, ci := range CallsIn(f, false, w.calleeIs("Client.publishJoinAndPresence", "Client.setupMapPresenceAndJoin", "Node.publishJoin")) {
			target := ssa.Instruction(ci)
			bad := PathQ{Stop: commitLike(f), Goal: func(in ssa.Instruction) bool { return in == target }}.FromEntry(f)
			ok := bad == nil
			if !ok && f.Parent() == nil && len(f.Blocks) > 0 {
				ok = false
			}
			c.Check("C07.R2", ci, "join published only after the subscription was committed", ok, "a join for an attempt that is later rolled back has no matching leave")
		}
	}
	c.Floor("C07.R2", 4)
	// a commit that reports !committed (rolled back) reaches no join
	for _, f := range w.AllFuncs {
		for _, cc := range CallsIn(f, false, w.calleeIs("Client.commitSubscription")) {
			v := cc.Value()
			if v == nil {
				continue
			}
			for _, r := range *v.Referrers() {
				ex, ok := r.(*ssa.Extract)
				if !ok || ex.Index != 1 {
					continue
				}
				var failBlocks []*ssa.BasicBlock
				for _, ifi := range ifsOn(ex) {
					failBlocks = append(failBlocks, ifi.Block().Succs[1])
				}
				for _, rr := range *ex.Referrers() {
					if u, ok := rr.(*ssa.UnOp); ok && u.Op == token.NOT {
						for _, ifi := range ifsOn(u) {
							failBlocks = append(failBlocks, ifi.Block().Succs[0])
						}
					}
				}
				for _, fb := range failBlocks {
					bad := PathQ{Goal: instrPred(isJoin)}.FromBlock(fb)
					c.Check("C07.R2", cc, "a rolled-back commit reaches no join publication", bad == nil, "the attempt never entered c.channels, so close() publishes no leave for it: the join would be unpaired")
				}
			}
		}
	}
	// failing subscribeCmd results never reach the join
	for _, fname := range []string{"(*Client).handleSubscribe", "(*Client).Subscribe"} {
		fn := c.W.Func("centrifuge", fname)
		for _, f := range WithClosures(fn) {
			EachInstr(f, func(in ssa.Instruction) {
				ifi, ok := in.(*ssa.If)
				if !ok {
					return
				}
				d := D(ifi.Cond)
				if !strings.Contains(d, "subscribeCmd(") || !(strings.HasSuffix(d, ".disconnect != nil)") || strings.HasSuffix(d, ".err != nil)")) {
					return
				}
				bad := PathQ{Goal: instrPred(isJoin)}.FromBlock(ifi.Block().Succs[0])
				c.Check("C07.R2", ifi, "failed subscribe attempt reaches no join publication", bad == nil, "no join may be emitted for a subscribe attempt that failed")
			})
		}
	}
	// R3
	unsub := c.Fn("C07.R3", "centrifuge", "(*Client).unsubscribe")
	leaveFn := c.Fn("C07.R3", "centrifuge", "(*Node).publishLeave")
	if unsub != nil && leaveFn != nil {
		for _, ci := range w.Callers(leaveFn) {
			inUnsub := ci.Parent() == unsub
			c.Check("C07.R3", ci, "Node.publishLeave called only from Client.unsubscribe", inUnsub, "a leave published elsewhere is not paired with the established subscription it ends")
			if !inUnsub {
				continue
			}
			okJL := GuardedBy(ci, w.flagGuard("flagEmitJoinLeave", true, ".flags")) && GuardedBy(ci, w.flagGuard("flagSubscribed", true, ".flags"))
			c.Check("C07.R3", ci, "leave only for an established subscription with join/leave emission", okJL, "a reservation that never became a subscription emitted no join and must emit no leave")
			owner := Guarded(ci, isRemovedNowGuard)
			c.Check("C07.R3", ci, "leave only by the goroutine that removed the entry", owner, "concurrent unsubscribes of one subscription would emit several leaves")
			// the leave's error does not stop the teardown
			errUsed := false
			if v := ci.Value(); v != nil && v.Referrers() != nil {
				for _, r := range *v.Referrers() {
					if _, dbg := r.(*ssa.DebugRef); !dbg {
						errUsed = true
					}
				}
			}
			bad := PathQ{Stop: instrPred(w.calleeIs("Node.removeSubscription")), Goal: isReturn}.From(ci)
			c.Check("C07.R3", ci, "a failed leave does not abort the teardown", bad == nil || !errUsed, "returning before the hub removal leaves a routing entry for a channel the connection no longer reports")
		}
	}
	// R3b: the flags that decide the teardown are the ones read after the wait gates (the entry
	// actually removed), never a snapshot taken before waiting for an in-flight subscribe.
	if unsub != nil {
		var selects []ssa.Instruction
		EachInstr(unsub, func(in ssa.Instruction) {
			if s, ok := in.(*ssa.Select); ok {
				selects = append(selects, s)
			}
		})
		if c.Anchor("C07.R3", "wait gates (select) in Client.unsubscribe", len(selects) > 0) {
			targets := CallsIn(unsub, false, orPred(w.calleeIs("Node.publishLeave", "Node.removePresence", "Client.removeMapPresence", "Client.cleanupKeyed", "perChannelWriter.delWriter"), fieldFuncCall("clientEventHub", "unsubscribeHandler")))
			for _, ci := range targets {
				stale := ""
				for _, g := range Guards(ci) {
					call, ok := g.Cond.(*ssa.Call)
					var condIn ssa.Instruction
					if ok && call.Call.StaticCallee() != nil && isFlagHelper(call.Call.StaticCallee()) {
						condIn = call
					} else if b, ok := g.Cond.(*ssa.BinOp); ok && strings.Contains(D(b), ".flags") {
						condIn = b
					}
					if condIn == nil {
						continue
					}
					for _, s := range selects {
						if Reaches(condIn, s) {
							stale = D(g.Cond) + " evaluated at " + w.InstrPos(condIn)
						}
					}
				}
				c.Check("C07.R3", ci, "teardown decided from flags read after the wait gates", stale == "", "an unsubscribe that waited for an in-flight subscribe tears down the subscription that finalized meanwhile; deciding from the pre-wait snapshot (a bare reservation) skips its leave / presence removal / callback ("+stale+")")
			}
		}
	}
	// R4
	if unsub != nil {
		for _, ci := range CallsIn(unsub, false, w.calleeIs("Node.removePresence", "Client.removeMapPresence", "Client.cleanupKeyed", "Node.publishLeave", "Node.removeSubscription")) {
			c.Check("C07.R4", ci, "post-delete cleanup only for the owner (removedNow)", Guarded(ci, isRemovedNowGuard), "cleanup would run twice for one subscription (double leave, double callback)")
		}
		c.Floor("C07.R4", 5)
	}
}

// isRemovedNowGuard: a guard that holds only on paths where a Client.channels / mapSubscribing
// entry was deleted by this call: `!removedNow → return` false edge. removedNow is a φ of bool
// constants; its true polarity is what we need.
func isRemovedNowGuard(g Guard) bool {
	if !g.Pol {
		return false
	}
	// the flag may be the boolean result of a same-package helper that performs the delete
	if ex, ok := g.Cond.(*ssa.Extract); ok {
		if call, ok := ex.Tuple.(*ssa.Call); ok {
			if h := call.Call.StaticCallee(); h != nil && len(h.Blocks) > 0 && call.Parent() != nil && h.Pkg == call.Parent().Pkg {
				okAll, n := true, 0
				EachInstr(h, func(in ssa.Instruction) {
					r, isRet := in.(*ssa.Return)
					if !isRet {
						return
					}
					vals := retVals(r)
					if ex.Index >= len(vals) {
						okAll = false
						return
					}
					n++
					if k, known := boolConst(vals[ex.Index]); known {
						if k {
							okAll = false
						}
						return
					}
					hp, isPhi := vals[ex.Index].(*ssa.Phi)
					if !isPhi || !isRemovedNowGuard(Guard{Cond: hp, Pol: true}) {
						okAll = false
					}
				})
				return okAll && n > 0
			}
		}
		return false
	}
	phi, ok := g.Cond.(*ssa.Phi)
	if !ok {
		return false
	}
	if bt, ok := phi.Type().Underlying().(*types.Basic); !ok || bt.Kind() != types.Bool {
		return false
	}
	// the φ is true only via blocks containing a delete on Client.channels / Client.mapSubscribing
	fn := phi.Parent()
	dels := append(mapDeletesOf(fn, false, "Client", "channels"), mapDeletesOf(fn, false, "Client", "mapSubscribing")...)
	return phiTrueOnlyAfter(phi, dels, map[*ssa.Phi]bool{})
}

func phiTrueOnlyAfter(phi *ssa.Phi, dels []*ssa.Call, seen map[*ssa.Phi]bool) bool {
	if seen[phi] {
		return true
	}
	seen[phi] = true
	for i, e := range phi.Edges {
		if v, known := boolConst(e); known {
			if !v {
				continue
			}
			pred := phi.Block().Preds[i]
			ok := false
			for _, d := range dels {
				if d.Block() == pred || d.Block().Dominates(pred) {
					ok = true
				}
			}
			if !ok {
				return false
			}
			continue
		}
		if p2, ok := e.(*ssa.Phi); ok {
			if !phiTrueOnlyAfter(p2, dels, seen) {
				return false
			}
			continue
		}
		return false
	}
	return true
}

func runC08(c *Ctx) {
	w := c.W
	li := w.Locks()
	statusClosed, _ := w.ConstInt("centrifuge", "statusClosed")
	statusConnecting, _ := w.ConstInt("centrifuge", "statusConnecting")
	statusConnected, _ := w.ConstInt("centrifuge", "statusConnected")
	handlerCalls := func(typ, field string) []ssa.CallInstruction {
		var out []ssa.CallInstruction
		for _, f := range w.AllFuncs {
			out = append(out, CallsIn(f, false, fieldFuncCall(typ, field))...)
		}
		return out
	}
	// R1
	trig := c.Fn("C08.R1", "centrifuge", "(*Client).triggerConnect")
	calls := handlerCalls("clientEventHub", "connectHandler")
	if len(calls) == 0 {
		calls = handlerCalls("", "connectHandler")
	}
	if c.Anchor("C08.R1", "call of the connect handler", len(calls) > 0) && trig != nil {
		for _, ci := range calls {
			c.Check("C08.R1", ci, "connect handler invoked only in triggerConnect", ci.Parent() == trig, "a second call site can run the connect callback twice")
			c.Check("C08.R1", ci, "connect handler invoked with connectMu held", li.HeldAt(ci).Holds("Client.connectMu", true), "connectMu serialises triggerConnect with close (disconnect only after connect returned)")
			okS := Guarded(ci, eqConstGuard("Client.status", statusConnecting, true))
			c.Check("C08.R1", ci, "connect handler dominated by status == statusConnecting", okS, "the connect callback must not run for a closed or already connected client")
		}
		for _, st := range w.FieldStores("Client", "status") {
			if v, ok := constIntOf(st.Val); ok && v == statusConnected {
				after := false
				for _, ci := range calls {
					if Reaches(ci, st) && !Reaches(st, ci) {
						after = true
					}
				}
				c.Check("C08.R1", st, "statusConnected stored only after the connect handler returned", st.Parent() == trig && after && li.HeldAt(st).Holds("Client.mu", true), "close() decides whether to run the disconnect callback from this status")
			}
		}
		// timers armed only after triggerConnect in every caller
		for _, ci := range w.Callers(trig) {
			caller := ci.Parent()
			for _, s := range CallsIn(caller, false, w.calleeIs("Client.scheduleOnConnectTimers")) {
				c.Check("C08.R1", s, "timers (alive/refresh/expire) armed only after triggerConnect returned", Precedes(ci, s), "a presence tick or expiry could invoke alive/refresh callbacks before the connect callback finished")
			}
			n := len(CallsIn(caller, false, w.calleeIs("Client.scheduleOnConnectTimers")))
			c.Check("C08.R1", ci, "caller of triggerConnect arms the timers itself", n > 0, "timers armed elsewhere are not ordered after the connect callback")
		}
		schedFn := w.Func("centrifuge", "(*Client).scheduleOnConnectTimers")
		if schedFn != nil {
			for _, ci := range w.Callers(schedFn) {
				okCaller := len(CallsIn(ci.Parent(), false, w.calleeFn(trig))) > 0
				c.Check("C08.R1", ci, "scheduleOnConnectTimers called only next to triggerConnect", okCaller, "arming timers on another path bypasses the connect-first ordering")
			}
		}
	}
	// R2
	closeFn := c.Fn("C08.R2", "centrifuge", "(*Client).close")
	dcalls := handlerCalls("clientEventHub", "disconnectHandler")
	if c.Anchor("C08.R2", "call of the disconnect handler", len(dcalls) > 0) && closeFn != nil {
		for _, ci := range dcalls {
			c.Check("C08.R2", ci, "disconnect handler invoked only in Client.close", ci.Parent() == closeFn, "a second call site can run the disconnect callback twice")
			held := li.HeldAt(ci)
			c.Check("C08.R2", ci, "disconnect handler with connectMu and presenceMu held", held.Holds("Client.connectMu", true) && held.Holds("Client.presenceMu", true), "connectMu orders it after the connect callback; presenceMu after the last alive callback (held: "+held.String()+")")
			okPrev := Guarded(ci, eqConstGuard("Client.status", statusConnected, true))
			c.Check("C08.R2", ci, "disconnect handler only if the previous status was statusConnected", okPrev, "the disconnect callback must run only if the connect callback ran")
			// after the unsubscribe loop
			after := false
			for _, u := range CallsIn(closeFn, false, w.calleeIs("Client.unsubscribe")) {
				if Precedes(u, ci) || Reaches(u, ci) {
					after = true
				}
			}
			c.Check("C08.R2", ci, "disconnect handler after the unsubscribe loop", after, "unsubscribe callbacks must precede the disconnect callback")
		}
	}
	// R3
	acalls := handlerCalls("clientEventHub", "aliveHandler")
	if c.Anchor("C08.R3", "call of the alive handler", len(acalls) > 0) {
		for _, ci := range acalls {
			held := li.HeldAt(ci)
			c.Check("C08.R3", ci, "alive handler with presenceMu held", held.Holds("Client.presenceMu", true), "close() takes presenceMu before the disconnect callback; an alive call outside it can follow the disconnect callback")
			okS := Guarded(ci, eqConstGuard("Client.status", statusClosed, false))
			c.Check("C08.R3", ci, "alive handler after a not-closed test", okS, "alive must never run for a closed connection")
		}
	}
	// R4
	unsub := c.Fn("C08.R4", "centrifuge", "(*Client).unsubscribe")
	ucalls := handlerCalls("clientEventHub", "unsubscribeHandler")
	if c.Anchor("C08.R4", "call of the unsubscribe handler", len(ucalls) > 0) && unsub != nil {
		for _, ci := range ucalls {
			c.Check("C08.R4", ci, "unsubscribe handler invoked only in Client.unsubscribe", ci.Parent() == unsub, "another call site can fire it twice or for a subscription that was never established")
			c.Check("C08.R4", ci, "unsubscribe handler only for the owner (removedNow)", Guarded(ci, isRemovedNowGuard), "exactly once per established subscription")
			c.Check("C08.R4", ci, "unsubscribe handler only for flagSubscribed contexts", GuardedBy(ci, w.flagGuard("flagSubscribed", true, ".flags")), "reservations that never became subscriptions get no unsubscribe callback")
			after := false
			for _, r := range CallsIn(unsub, false, w.calleeIs("Node.removeSubscription")) {
				if Precedes(r, ci) {
					after = true
				}
			}
			c.Check("C08.R4", ci, "unsubscribe handler after the hub entry was removed", after, "the callback must observe a fully removed subscription")
		}
	}
	// R5
	connectCmd := c.Fn("C08.R5", "centrifuge", "(*Client).connectCmd")
	if connectCmd != nil {
		adds := CallsIn(connectCmd, false, w.calleeIs("Node.addClient"))
		if c.Anchor("C08.R5", "Node.addClient call in connectCmd", len(adds) > 0) {
			for _, a := range adds {
				consulted := false
				EachInstr(connectCmd, func(in ssa.Instruction) {
					if !Precedes(a, in) {
						return
					}
					switch x := in.(type) {
					case *ssa.Select:
						for _, st := range x.States {
							if strings.HasSuffix(D(st.Chan), ".shutdownCh") || strings.Contains(D(st.Chan), "NotifyShutdown(") {
								consulted = true
							}
						}
					case *ssa.UnOp:
						if x.Op == token.ARROW && strings.HasSuffix(D(x.X), ".shutdownCh") {
							consulted = true
						}
						if x.Op == token.MUL && strings.HasSuffix(D(x), "Node.shutdown") {
							consulted = true
						}
					}
				})
				c.Check("C08.R5", a, "node shutdown state consulted after hub registration", consulted, "Shutdown closes shutdownCh and then snapshots the hub: a connection registered after the snapshot (or a unidirectional request accepted after Shutdown returned) stays connected on a node that has shut down")
			}
		}
	}
	_ = fmt.Sprint
}

// channelDeleteSites: the instructions of fn that remove an entry from Client.channels — the delete
// itself, or the call of a same-package helper (an extracted critical section) that contains it.
func channelDeleteSites(w *World, fn *ssa.Function) []ssa.Instruction {
	var out []ssa.Instruction
	for _, d := range mapDeletesOf(fn, false, "Client", "channels") {
		out = append(out, d)
	}
	EachInstr(fn, func(in ssa.Instruction) {
		ci := asCall(in)
		if ci == nil {
			return
		}
		if _, isDefer := in.(*ssa.Defer); isDefer {
			return
		}
		cal := w.Callee(ci)
		if cal == nil || cal.Pkg != fn.Pkg || !w.inModule(cal) || cal == fn {
			return
		}
		if len(mapDeletesOf(cal, false, "Client", "channels")) > 0 {
			out = append(out, in)
		}
	})
	return out
}
