package main

import (
	"os"
	"path/filepath"
	"sort"
	"strconv"
	"strings"
)

// A small Lua lexer and block scanner, enough for the lints over the embedded Redis scripts:
// comments, short/long strings, names, numbers, punctuation; a stack of enclosing `if` conditions.

type luaTok struct {
	Kind string // name | string | number | op
	Text string
	Line int
}

func lexLua(src string) []luaTok {
	var toks []luaTok
	line := 1
	i := 0
	n := len(src)
	isNameStart := func(c byte) bool { return c == '_' || (c >= 'a' && c <= 'z') || (c >= 'A' && c <= 'Z') }
	isDigit := func(c byte) bool { return c >= '0' && c <= '9' }
	longBracket := func(j int) (int, bool) { // at '[' : returns level if long bracket opener
		k := j + 1
		lvl := 0
		for k < n && src[k] == '=' {
			lvl++
			k++
		}
		if k < n && src[k] == '[' {
			return lvl, true
		}
		return 0, false
	}
	for i < n {
		c := src[i]
		switch {
		case c == '\n':
			line++
			i++
		case c == ' ' || c == '\t' || c == '\r':
			i++
		case c == '-' && i+1 < n && src[i+1] == '-':
			// comment
			j := i + 2
			if j < n && src[j] == '[' {
				if lvl, ok := longBracket(j); ok {
					closer := "]" + strings.Repeat("=", lvl) + "]"
					end := strings.Index(src[j:], closer)
					if end < 0 {
						i = n
						break
					}
					line += strings.Count(src[j:j+end], "\n")
					i = j + end + len(closer)
					break
				}
			}
			for j < n && src[j] != '\n' {
				j++
			}
			i = j
		case c == '"' || c == '\'':
			j := i + 1
			var sb strings.Builder
			for j < n && src[j] != c {
				if src[j] == '\\' && j+1 < n {
					sb.WriteByte(src[j+1])
					j += 2
					continue
				}
				if src[j] == '\n' {
					line++
				}
				sb.WriteByte(src[j])
				j++
			}
			toks = append(toks, luaTok{"string", sb.String(), line})
			i = j + 1
		case c == '[':
			if lvl, ok := longBracket(i); ok {
				opener := 2 + lvl
				closer := "]" + strings.Repeat("=", lvl) + "]"
				end := strings.Index(src[i+opener:], closer)
				if end < 0 {
					i = n
					break
				}
				body := src[i+opener : i+opener+end]
				toks = append(toks, luaTok{"string", body, line})
				line += strings.Count(body, "\n")
				i = i + opener + end + len(closer)
				break
			}
			toks = append(toks, luaTok{"op", "[", line})
			i++
		case isNameStart(c):
			j := i
			for j < n && (isNameStart(src[j]) || isDigit(src[j])) {
				j++
			}
			toks = append(toks, luaTok{"name", src[i:j], line})
			i = j
		case isDigit(c):
			j := i
			for j < n && (isDigit(src[j]) || src[j] == '.' || src[j] == 'x' || src[j] == 'e' || (src[j] >= 'a' && src[j] <= 'f') || (src[j] >= 'A' && src[j] <= 'F')) {
				j++
			}
			toks = append(toks, luaTok{"number", src[i:j], line})
			i = j
		default:
			// multi-char operators
			for _, op := range []string{"...", "..", "==", "~=", "<=", ">=", "::"} {
				if strings.HasPrefix(src[i:], op) {
					toks = append(toks, luaTok{"op", op, line})
					i += len(op)
					goto next
				}
			}
			toks = append(toks, luaTok{"op", string(c), line})
			i++
		next:
		}
	}
	return toks
}

// luaEvent is a redis.call(...) or a return, with the enclosing if-conditions (innermost last).
type luaEvent struct {
	Kind  string // call | return
	Cmd   string // lower-case command, or "dyn:<var>"
	Args  []luaTok
	Conds []string
	Line  int
	Idx   int
	Ret   []luaTok // tokens of the return expression (until end of statement heuristics)
}

type luaScript struct {
	Name   string
	Src    string
	Toks   []luaTok
	Events []luaEvent
	Locals map[string]string // local name -> "ARGV[i]" / "KEYS[i]" when directly bound
}

func scanLua(name, src string) *luaScript {
	s := &luaScript{Name: name, Src: src, Toks: lexLua(src), Locals: map[string]string{}}
	t := s.Toks
	type blk struct {
		kind string
		cond string
	}
	var stack []blk
	conds := func() []string {
		var out []string
		for _, b := range stack {
			if b.kind == "if" {
				out = append(out, b.cond)
			}
		}
		return out
	}
	textUntil := func(i int, stop string) (string, int) {
		var parts []string
		j := i
		for j < len(t) && !(t[j].Kind == "name" && t[j].Text == stop) {
			if t[j].Kind == "string" {
				parts = append(parts, strconv.Quote(t[j].Text))
			} else {
				parts = append(parts, t[j].Text)
			}
			j++
		}
		return strings.Join(parts, " "), j
	}
	for i := 0; i < len(t); i++ {
		tk := t[i]
		if tk.Kind != "name" {
			continue
		}
		switch tk.Text {
		case "local":
			// local x = ARGV[n]
			if i+6 < len(t) && t[i+1].Kind == "name" && t[i+2].Text == "=" && t[i+3].Kind == "name" && (t[i+3].Text == "ARGV" || t[i+3].Text == "KEYS") && t[i+4].Text == "[" && t[i+5].Kind == "number" {
				s.Locals[t[i+1].Text] = t[i+3].Text + "[" + t[i+5].Text + "]"
			}
		case "if":
			c, j := textUntil(i+1, "then")
			stack = append(stack, blk{"if", c})
			i = j
		case "elseif":
			c, j := textUntil(i+1, "then")
			if len(stack) > 0 {
				prev := stack[len(stack)-1].cond
				stack[len(stack)-1] = blk{"if", "not ( " + prev + " ) and " + c}
			}
			i = j
		case "else":
			if len(stack) > 0 && stack[len(stack)-1].kind == "if" {
				stack[len(stack)-1] = blk{"if", "not ( " + stack[len(stack)-1].cond + " )"}
			}
		case "for", "while":
			_, j := textUntil(i+1, "do")
			stack = append(stack, blk{"loop", ""})
			i = j
		case "do":
			stack = append(stack, blk{"do", ""})
		case "function":
			stack = append(stack, blk{"function", ""})
		case "repeat":
			stack = append(stack, blk{"repeat", ""})
		case "until":
			if len(stack) > 0 {
				stack = stack[:len(stack)-1]
			}
		case "end":
			if len(stack) > 0 {
				stack = stack[:len(stack)-1]
			}
		case "return":
			ev := luaEvent{Kind: "return", Conds: conds(), Line: tk.Line, Idx: i}
			for j := i + 1; j < len(t) && j < i+40; j++ {
				if t[j].Kind == "name" && (t[j].Text == "end" || t[j].Text == "else" || t[j].Text == "elseif") {
					break
				}
				ev.Ret = append(ev.Ret, t[j])
			}
			s.Events = append(s.Events, ev)
		case "redis":
			if i+4 < len(t) && t[i+1].Text == "." && t[i+2].Kind == "name" && (t[i+2].Text == "call" || t[i+2].Text == "pcall") && t[i+3].Text == "(" {
				ev := luaEvent{Kind: "call", Conds: conds(), Line: tk.Line, Idx: i}
				if t[i+4].Kind == "string" {
					ev.Cmd = strings.ToLower(t[i+4].Text)
				} else {
					ev.Cmd = "dyn:" + t[i+4].Text
				}
				depth := 0
				for j := i + 3; j < len(t); j++ {
					if t[j].Text == "(" {
						depth++
					} else if t[j].Text == ")" {
						depth--
						if depth == 0 {
							break
						}
					}
					if j > i+4 && depth >= 1 && t[j].Text != "," {
						ev.Args = append(ev.Args, t[j])
					}
				}
				s.Events = append(s.Events, ev)
			}
		}
	}
	return s
}

// maxIndex returns the highest constant index used with tbl[...] (ARGV / KEYS).
func (s *luaScript) maxIndex(tbl string) int {
	max := 0
	t := s.Toks
	for i := 0; i+3 < len(t); i++ {
		if t[i].Kind == "name" && t[i].Text == tbl && t[i+1].Text == "[" && t[i+2].Kind == "number" && t[i+3].Text == "]" {
			if v, err := strconv.Atoi(t[i+2].Text); err == nil && v > max {
				max = v
			}
		}
	}
	return max
}

// usesDynamicIndex: tbl[<non-number>] or #tbl occurs (variadic scripts).
func (s *luaScript) usesDynamicIndex(tbl string) bool {
	t := s.Toks
	for i := 0; i+2 < len(t); i++ {
		if t[i].Kind == "name" && t[i].Text == tbl && t[i+1].Text == "[" && t[i+2].Kind != "number" {
			return true
		}
		if t[i].Text == "#" && t[i+1].Kind == "name" && t[i+1].Text == tbl {
			return true
		}
	}
	return false
}

func (s *luaScript) stringLiterals() []string {
	var out []string
	for _, t := range s.Toks {
		if t.Kind == "string" {
			out = append(out, t.Text)
		}
	}
	return out
}

// LuaScripts loads every *.lua under internal/redis_lua of the repository.
func (w *World) LuaScripts() map[string]*luaScript {
	if w.lua != nil {
		return w.lua
	}
	w.lua = map[string]*luaScript{}
	dir := filepath.Join(w.RepoDir, "internal", "redis_lua")
	ents, err := os.ReadDir(dir)
	if err != nil {
		return w.lua
	}
	var names []string
	for _, e := range ents {
		if strings.HasSuffix(e.Name(), ".lua") {
			names = append(names, e.Name())
		}
	}
	sort.Strings(names)
	for _, n := range names {
		b, err := os.ReadFile(filepath.Join(dir, n))
		if err != nil {
			continue
		}
		w.lua[n] = scanLua(n, string(b))
	}
	return w.lua
}

func condsContain(conds []string, sub string) bool {
	for _, c := range conds {
		if strings.Contains(c, sub) {
			return true
		}
	}
	return false
}
