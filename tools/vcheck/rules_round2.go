package main

import (
	"fmt"
	"go/token"
	"go/types"
	"sort"
	"strings"

	"golang.org/x/tools/go/ssa"
)

// Rules added after the second round of seeded defects. Each is hooked from the run function of the
// property it belongs to (hookRound2).

var round2Docs = map[string]map[string]string{
	"C17": {"C17.R5": "pairing: a popped queue item is pushed back or takes its index entry with it"},
	"C24": {"C24.R5": "pairing: popped stream-expiry item ⇔ index entry", "C24.R6": "pairing: state entry delete ⇒ deadline record delete"},
	"C15": {"C15.R6": "error discipline: a child's validation error is returned before the next child"},
	"C14": {"C14.R6": "K2: the medium's delta base does not depend on the publication's delta flag"},
	"C07": {"C07.R5": "K1: the subscribe wait gate is released only after presence was added and join published"},
	"C04": {"C04.R8": "K2: an asynchronous callback changes a hub routing entry only for the subscription generation it was started for"},
	"C09": {"C09.R5": "K4 who-may-write: the outstanding-ping marker (sign of Client.lastPing)"},
	"C01": {"C01.R7": "K1: a publication that reveals a gap never advances the stored position"},
	"C19": {"C19.R4": "Lua pairing: version field and version-epoch field are read, written and deleted together", "C19.R5": "Lua pairing: a script that consults the idempotency result key also stores and expires it"},
	"C18": {"C18.R4": "Lua: the history add scripts expire the data key they append to"},
	"C21": {"C21.R6": "sibling agreement: a channel created without its ordering flag is upgraded by the publish path"},
	"C41": {"C41.R4": "value flow: a survey response is addressed to the requesting node on every path"},
	"C23": {"C23.R6": "K6c: ARGV the script's leave branch uses are supplied by the Remove call site"},
	"C30": {"C30.R4": "typestate: a pooled (de)compressor is released at most once (reference cleared with the Put)"},
	"C32": {"C32.R4": "K1: the pooled data encoder is returned only after its buffer was written"},
	"C27": {"C27.R5": "K1: the control message is published before (and regardless of) the local hub operation"},
	"C38": {"C38.R4": "K2: the shared position-check time is stamped only when a real check is made"},
	"C31": {"C31.R3": "K9: base64 decode destination holds the decoded length of the source"},
	"C29": {"C29.R5": "K9: a caller-supplied frame reader holds a whole control frame payload"},
	"C22": {"C22.R4": "K4 who-may-call: the raw map channel options resolver"},
	"C02": {"C02.R7": "paired fields: (Offset, Epoch) copied from one source"},
	"C16": {"C16.R4": "K1: prepared data complete before it is copied into the caches; marker used whenever wasFiltered"},
}

// addRound2Docs is called from main before evidence is written (registry is complete by then).
func addRound2Docs() {
	for id, docs := range round2Docs {
		if m := registry[id]; m != nil {
			if m.Rules == nil {
				m.Rules = map[string]string{}
			}
			var ks []string
			for k := range docs {
				ks = append(ks, k)
			}
			sort.Strings(ks)
			var extra []string
			for _, k := range ks {
				m.Rules[k] = docs[k]
				extra = append(extra, "("+k[strings.Index(k, ".")+1:]+") "+docs[k])
			}
			if !strings.Contains(m.Explanation, "Clauses added after the seeded-defect rounds") {
				m.Explanation += " Clauses added after the seeded-defect rounds: " + strings.Join(extra, "; ") + "."
			}
		}
	}
}

func hookRound2(c *Ctx, prop string) {
	switch prop {
	case "C17":
		runQueueIndexPairing(c, "C17.R5", "historyHub", "(*historyHub).expireStreams", "expireQueue", "expires")
		runQueueIndexPairing(c, "C17.R5", "historyHub", "(*historyHub).removeStreams", "removeQueue", "removes")
	case "C24":
		runQueueIndexPairing(c, "C24.R5", "mapHub", "(*mapHub).expireStreams", "expireQueue", "expires")
		runPairedStateDelete(c)
	case "C15":
		runValidatePropagates(c)
	case "C14":
		runBaseFollowsEveryPublication(c)
	case "C16":
		runPreparedDataComplete(c)
	case "C07":
		runGateAfterSetup(c)
	case "C04":
		runAsyncRoutingWriteGenMatched(c)
	case "C09":
		runPingMarkerWriters(c)
	case "C01":
		runGapKeepsPosition(c)
	case "C19":
		runLuaPairs(c)
	case "C18":
		runLuaHistoryTTL(c)
	case "C21":
		runOrderedUpgrade(c)
	case "C41":
		runSurveyReplyAddressed(c)
	case "C23":
		runLeaveBranchArgs(c)
	case "C30":
		runPooledObjectReleased(c)
	case "C32":
		runEncoderPooledAfterWrite(c)
	case "C27":
		runControlBeforeLocal(c)
	case "C38":
		runThrottleStamp(c)
	case "C31":
		runBase64DecodeBuffer(c)
	case "C29":
		runReaderHoldsControlFrame(c)
	case "C22":
		runResolverOnlyThroughValidate(c)
	case "C02":
		runPositionPair(c)
	}
	hookRound3(c, prop)
}

// derivesFromPred: some value on the way to v (through loads, element addresses, slices, phis, appends,
// local cells and array literals) satisfies pred.
func derivesFromPred(v ssa.Value, pred func(ssa.Value) bool, depth int, seen map[ssa.Value]bool) bool {
	if v == nil || seen[v] || depth > 14 {
		return false
	}
	seen[v] = true
	if pred(v) {
		return true
	}
	rec := func(x ssa.Value) bool { return derivesFromPred(x, pred, depth+1, seen) }
	switch x := v.(type) {
	case *ssa.UnOp:
		if rec(x.X) {
			return true
		}
	case *ssa.IndexAddr:
		return rec(x.X)
	case *ssa.Index:
		return rec(x.X)
	case *ssa.Slice:
		return rec(x.X)
	case *ssa.Phi:
		for _, e := range x.Edges {
			if rec(e) {
				return true
			}
		}
	case *ssa.Extract:
		return rec(x.Tuple)
	case *ssa.Next:
		return rec(x.Iter)
	case *ssa.Range:
		return rec(x.X)
	case *ssa.Call:
		if b, ok := x.Call.Value.(*ssa.Builtin); ok && b.Name() == "append" {
			for _, a := range x.Call.Args {
				if rec(a) {
					return true
				}
			}
		}
	case *ssa.Alloc:
		for _, r := range *x.Referrers() {
			switch u := r.(type) {
			case *ssa.Store:
				if u.Addr == x && rec(u.Val) {
					return true
				}
			case *ssa.IndexAddr:
				for _, rr := range *u.Referrers() {
					if st, ok := rr.(*ssa.Store); ok && st.Addr == ssa.Value(u) && rec(st.Val) {
						return true
					}
				}
			}
		}
	}
	return false
}

// runGateAfterSetup (C07.R5, also C06): an unsubscribe that arrives while a subscribe is in flight parks
// on the reservation's wait gate (subscribingCh) and tears the subscription down as soon as the gate is
// closed. Everything the subscribe path still does after closing the gate can be overtaken: if presence
// is added or join published after it, the woken unsubscribe removes presence that is not there yet and
// publishes leave first — a stale presence entry and a join without a later leave remain. So: after a
// non-deferred close of a wait gate no presence add / join publish is reachable in that function, and a
// function that closes the gate at its return (defer) has no caller that does one after the call.
func runGateAfterSetup(c *Ctx) {
	w := c.W
	setup := w.calleeIs("Node.addPresence", "Client.setupMapPresenceAndJoin", "Client.publishJoinAndPresence", "Node.publishJoin", "Client.addMapClientPresence", "Client.addMapUserPresence")
	setupI := w.wrapMay(setup, 2)
	isGate := func(v ssa.Value) bool {
		ch, ok := v.Type().Underlying().(*types.Chan)
		if !ok {
			return false
		}
		if st, ok := ch.Elem().Underlying().(*types.Struct); !ok || st.NumFields() != 0 {
			return false
		}
		d := D(v)
		if strings.Contains(d, "subscribingCh") || strings.Contains(d, "commitSubscription(") || strings.Contains(d, "gateCh") {
			return true
		}
		// an element of a slice collected from reservations' subscribingCh fields
		return derivesFromPred(v, func(x ssa.Value) bool {
			if fa, ok := x.(*ssa.FieldAddr); ok {
				if st, ok := deref(fa.X.Type()).Underlying().(*types.Struct); ok && st.Field(fa.Field).Name() == "subscribingCh" {
					return true
				}
			}
			if fl, ok := x.(*ssa.Field); ok {
				if st, ok := fl.X.Type().Underlying().(*types.Struct); ok && st.Field(fl.Field).Name() == "subscribingCh" {
					return true
				}
			}
			return false
		}, 0, map[ssa.Value]bool{})
	}
	n := 0
	for _, f := range w.AllFuncs {
		if !w.inModule(f) || strings.HasSuffix(w.Pos(f.Pos()), "_test.go") {
			continue
		}
		EachInstr(f, func(in ssa.Instruction) {
			ci := asCall(in)
			if ci == nil {
				return
			}
			b, ok := ci.Common().Value.(*ssa.Builtin)
			if !ok || b.Name() != "close" || len(ci.Common().Args) != 1 || !isGate(ci.Common().Args[0]) {
				return
			}
			n++
			if _, deferred := in.(*ssa.Defer); deferred {
				// runs at return: no caller may go on to add presence / publish join
				root := f
				var bad ssa.Instruction
				for _, cs := range w.Callers(root) {
					if strings.HasSuffix(w.InstrPos(cs), "_test.go") {
						continue
					}
					if x := (PathQ{Goal: setupI}).From(cs); x != nil {
						bad = x
					}
				}
				c.Check("C07.R5", in, "wait gate released at return: no caller adds presence or publishes join afterwards", bad == nil,
					"the gate opens when this function returns, its caller still publishes join / adds presence after that"+instrAt(w, bad)+": a parked unsubscribe overtakes them (leave before join, stale presence)")
				return
			}
			bad := PathQ{Goal: setupI}.From(in)
			c.Check("C07.R5", in, "wait gate released only after presence was added and join published", bad == nil,
				"presence add / join publish is still ahead"+instrAt(w, bad)+": an unsubscribe parked on the gate wakes here, removes presence that is not there yet and publishes leave; the subscribe then adds presence and publishes join for a subscription that no longer exists")
		})
	}
	c.Anchor("C07.R5", "closes of subscribe wait gates", n >= 5)
}

// runAsyncRoutingWriteGenMatched (C04.R8): handlers answer asynchronously; between the request and the
// answer the channel may have been unsubscribed and subscribed again (a new generation). A callback
// that rewrites the connection's routing entry in the hub (its server tags filter) must do so only
// under the same generation test that guards its write to c.channels — otherwise a stale answer
// re-filters a fresh subscription, which then silently misses publications.
func runAsyncRoutingWriteGenMatched(c *Ctx) {
	w := c.W
	n := 0
	for _, f := range w.AllFuncs {
		if !w.inModule(f) || f.Parent() == nil || strings.HasSuffix(w.Pos(f.Pos()), "_test.go") {
			continue // closures (callbacks) only
		}
		for _, ci := range CallsIn(f, false, w.calleeIs("Hub.updateServerTagsFilter")) {
			n++
			c.Check("C04.R8", ci, "asynchronous routing-entry update guarded by the subscription generation", Guarded(ci, isGenEq),
				"the callback may answer after an unsubscribe + resubscribe: without the generation test a stale answer installs its filter on the new subscription's hub entry (guards: "+strings.Join(GuardStrings(ci), " && ")+")")
		}
	}
	c.Anchor("C04.R8", "hub routing-entry updates from asynchronous callbacks", n >= 1)
}

// runPingMarkerWriters (C09.R5): the sign of Client.lastPing says whether a ping is outstanding: the ping
// sender stores a positive clock reading, and the pong handler — only on the branch where the value is
// positive — negates it; a pong while it is ≤ 0 is a protocol violation. Nothing else may write the
// field: a checker that "normalises" it re-arms the marker, and an unsolicited pong is then accepted.
func runPingMarkerWriters(c *Ctx) {
	w := c.W
	n := 0
	for _, st := range w.FieldStores("Client", "lastPing") {
		f := st.Parent()
		if strings.HasSuffix(w.Pos(f.Pos()), "_test.go") {
			continue
		}
		n++
		d := D(st.Val)
		switch {
		case strings.Contains(d, "UnixNano(") || strings.Contains(d, "Now("):
			c.Check("C09.R5", st, "ping marker armed with a clock reading by the ping sender", true, "")
		default:
			// negation of the current value, on the positive branch
			neg := false
			if u, ok := st.Val.(*ssa.UnOp); ok && u.Op == token.SUB && loadsField(u.X, "Client", "lastPing") {
				neg = true
			}
			if b, ok := st.Val.(*ssa.BinOp); ok && b.Op == token.SUB && loadsField(b.Y, "Client", "lastPing") {
				if z, isZ := constIntOf(b.X); isZ && z == 0 {
					neg = true
				}
			}
			positive := Guarded(st, func(g Guard) bool {
				b, ok := g.Cond.(*ssa.BinOp)
				if !ok || !loadsField(b.X, "Client", "lastPing") {
					return false
				}
				z, isZ := constIntOf(b.Y)
				return isZ && z == 0 && ((b.Op == token.LEQ && !g.Pol) || (b.Op == token.GTR && g.Pol))
			})
			c.Check("C09.R5", st, "ping marker changed only by negating a positive value (the pong handler)", neg && positive,
				"value "+d+" in "+shortFuncName(f)+": any other write can turn an answered ping back into an outstanding one, so a second pong without a ping is accepted instead of closing the connection")
		}
	}
	c.Anchor("C09.R5", "writers of Client.lastPing", n >= 2)
}

// runGapKeepsPosition (C01.R7): the insufficient-state signal is asynchronous, so between the detection
// of a gap (lag, epoch mismatch, offset jump) and the unsubscribe that follows more publications arrive.
// They are withheld only because the stored position still shows the gap: the branches that start
// handleInsufficientState must neither follow nor precede a store of the position offset.
func runGapKeepsPosition(c *Ctx) {
	w := c.W
	fn := w.Func("centrifuge", "(*Client).writePublicationUpdatePosition")
	if fn == nil {
		return
	}
	var gaps []ssa.Instruction
	EachInstr(fn, func(in ssa.Instruction) {
		g, ok := in.(*ssa.Go)
		if !ok {
			return
		}
		if closureLeads(w, g.Call.Value, func(x ssa.Instruction) bool {
			ci := asCall(x)
			return ci != nil && w.calleeIs("Client.handleInsufficientState")(ci)
		}) {
			gaps = append(gaps, in)
		}
	})
	var offStores []*ssa.Store
	EachInstr(fn, func(in ssa.Instruction) {
		st, ok := in.(*ssa.Store)
		if !ok {
			return
		}
		fa, ok := st.Addr.(*ssa.FieldAddr)
		if !ok || !fieldAddrIs(fa, "StreamPosition", "Offset") {
			return
		}
		if strings.Contains(D(fa.X), "streamPosition") {
			offStores = append(offStores, st)
		}
	})
	if !c.Anchor("C01.R7", "insufficient-state branches of writePublicationUpdatePosition", len(gaps) >= 2) || !c.Anchor("C01.R7", "position offset store in writePublicationUpdatePosition", len(offStores) >= 1) {
		return
	}
	for _, g := range gaps {
		var bad ssa.Instruction
		for _, st := range offStores {
			if Reaches(st, g) || Reaches(g, st) {
				bad = st
			}
		}
		c.Check("C01.R7", g, "a gap-revealing publication leaves the stored position offset untouched", bad == nil,
			"with the position moved to the offset the gap was seen at, the next publication of the burst equals position+1 and is delivered before the asynchronous unsubscribe lands: the client sees 1, 2, 5, 6 and only then the insufficient-state signal"+instrAt(w, bad))
	}
}

// luaArgNames lists the name and string tokens of a redis.call's arguments.
func luaArgNames(ev luaEvent) (names map[string]bool, strs map[string]bool) {
	names, strs = map[string]bool{}, map[string]bool{}
	for _, t := range ev.Args {
		switch t.Kind {
		case "name":
			names[t.Text] = true
		case "string":
			strs[t.Text] = true
		}
	}
	return
}

// runLuaPairs: (C19.R4) in the Redis scripts the stored version and its epoch are one value: every
// redis.call that names the version field ("v" on the stream meta hash, version_field on the map
// state meta hash) names the epoch field ("ve" / version_epoch_field) in the same call — read with
// hmget, written with hset, deleted with hdel together. (C19.R5) a script that answers from the
// idempotency result key also stores the result there and gives it its TTL.
func runLuaPairs(c *Ctx) {
	scripts := c.W.LuaScripts()
	n := 0
	for _, name := range []string{"broker_history_add_stream.lua", "map_broker_add.lua", "map_broker_batch_remove.lua"} {
		s := scripts[name]
		if s == nil {
			continue
		}
		for _, ev := range s.Events {
			if ev.Kind != "call" || !(ev.Cmd == "hset" || ev.Cmd == "hmget" || ev.Cmd == "hdel" || ev.Cmd == "hget") {
				continue
			}
			names, strs := luaArgNames(ev)
			hasV := strs["v"] || names["version_field"]
			hasVE := strs["ve"] || names["version_epoch_field"]
			if !hasV && !hasVE {
				continue
			}
			n++
			c.CheckAt("C19.R4", fmt.Sprintf("%s:%d: %s names the version field and its epoch field together", name, ev.Line, ev.Cmd), luaPos(s, ev.Line), hasV && hasVE,
				"the version is only comparable within its epoch: storing, reading or deleting one without the other lets a stale publish through (or suppresses a fresh one) after the epoch changes or the key is re-created")
		}
	}
	c.CheckAt("C19.R4", "version/epoch field accesses found in the scripts", "internal/redis_lua", n >= 4, fmt.Sprint(n))
	// R5
	for _, name := range []string{"broker_history_add_stream.lua", "broker_history_add_list.lua", "broker_publish_idempotent.lua", "map_broker_add.lua"} {
		s := scripts[name]
		if s == nil {
			continue
		}
		reads, writes, expires := 0, 0, 0
		for _, ev := range s.Events {
			if ev.Kind != "call" {
				continue
			}
			names, _ := luaArgNames(ev)
			if !names["result_key"] {
				continue
			}
			switch ev.Cmd {
			case "hmget", "hget", "hgetall":
				reads++
			case "hset", "hmset":
				writes++
			case "expire", "pexpire":
				expires++
			}
		}
		if reads == 0 {
			continue
		}
		c.CheckAt("C19.R5", name+": the idempotency result is stored where it is consulted", "internal/redis_lua/"+name, writes >= 1,
			"the script answers a repeated idempotency key from result_key but never writes it: every repeat is a fresh publish (added to history and delivered again)")
		c.CheckAt("C19.R5", name+": the stored idempotency result gets its TTL", "internal/redis_lua/"+name, expires >= 1,
			"a result without expiry suppresses the key forever: after the TTL a repeat must be a fresh publish")
	}
}

// runLuaHistoryTTL (C18.R4): the memory broker drops a channel's history when its TTL elapses; the Redis
// add scripts get the same effect from an unconditional expire on the key they append to.
func runLuaHistoryTTL(c *Ctx) {
	scripts := c.W.LuaScripts()
	for name, key := range map[string]string{"broker_history_add_stream.lua": "stream_key", "broker_history_add_list.lua": "list_key"} {
		s := scripts[name]
		if s == nil {
			continue
		}
		appends, expires := 0, 0
		for _, ev := range s.Events {
			if ev.Kind != "call" {
				continue
			}
			names, _ := luaArgNames(ev)
			if !names[key] {
				continue
			}
			switch ev.Cmd {
			case "xadd", "lpush", "rpush":
				appends++
			case "expire", "pexpire":
				if len(ev.Conds) == 0 {
					expires++
				}
			}
		}
		c.CheckAt("C18.R4", name+": appends to "+key, "internal/redis_lua/"+name, appends >= 1, "")
		c.CheckAt("C18.R4", name+": "+key+" is given the history TTL on every publish", "internal/redis_lua/"+name, expires >= 1,
			"without the expire the Redis history never ages out while the memory broker's does: history reads and recovery diverge after the TTL")
	}
}

// runOrderedUpgrade (C21.R6): a map channel can be created by a read (createStreamPosition, to pin an
// epoch) before its first publish; such a channel carries no ordering flag. The publish path must then
// set mapChannel.ordered (and mark the sorted-key cache dirty) when the options say the channel is
// ordered, or every later state read sorts by key and ignores scores and direction.
func runOrderedUpgrade(c *Ctx) {
	w := c.W
	add := w.Func("centrifuge", "(*mapHub).add")
	if add == nil {
		return
	}
	// creators that do not set the flag
	var bare []string
	for _, f := range w.AllFuncs {
		if !w.inModule(f) || strings.HasSuffix(w.Pos(f.Pos()), "_test.go") {
			continue
		}
		EachInstr(f, func(in ssa.Instruction) {
			al, ok := in.(*ssa.Alloc)
			if !ok || typeShort(al.Type()) != "mapChannel" || !al.Heap {
				return
			}
			setsOrdered := false
			for _, r := range *al.Referrers() {
				if fa, ok := r.(*ssa.FieldAddr); ok && fieldAddrIs(fa, "mapChannel", "ordered") {
					setsOrdered = true
				}
			}
			if !setsOrdered {
				bare = append(bare, shortFuncName(f))
			}
		})
	}
	if len(bare) == 0 {
		c.CheckAt("C21.R6", "every creator of a map channel sets its ordering flag", w.Pos(add.Pos()), true, "")
		return
	}
	// the upgrade in add: a store ordered = true into an existing channel, with the cache marked dirty
	okUp := false
	for _, st := range storesToField(add, false, "mapChannel", "ordered") {
		fa := st.Addr.(*ssa.FieldAddr)
		if _, isAlloc := fa.X.(*ssa.Alloc); isAlloc {
			continue // part of the literal of a new channel
		}
		v, known := boolConst(st.Val)
		fromOpts := strings.HasSuffix(D(st.Val), ".ordered")
		guardedByOpts := Guarded(st, func(g Guard) bool { return g.Pol && strings.HasSuffix(D(g.Cond), "MapChannelOptions.ordered") })
		dirty := false
		for _, d := range storesToField(add, false, "mapChannel", "sortedKeysDirty") {
			if d.Block() == st.Block() {
				dirty = true
			}
		}
		if ((known && v && guardedByOpts) || fromOpts) && dirty {
			okUp = true
		}
	}
	c.CheckAt("C21.R6", "(*centrifuge.mapHub).add upgrades a channel created without its ordering flag ("+strings.Join(bare, ", ")+")", w.Pos(add.Pos()), okUp,
		"a channel first touched by a state or stream read exists unordered; without the upgrade an ordered channel read before its first publish is paginated by key, not by score")
}

// runSurveyReplyAddressed (C41.R4): survey ids are per-node counters, so different nodes routinely have
// surveys with the same id in flight, and a response is matched by id alone. The response must
// therefore be published to the requesting node only — on every path the node argument is the
// requester's id (never empty, which means broadcast).
func runSurveyReplyAddressed(c *Ctx) {
	w := c.W
	h := w.Func("centrifuge", "(*Node).handleSurveyRequest")
	if h == nil || len(h.Params) < 2 {
		return
	}
	from := h.Params[1]
	n := 0
	for _, f := range WithClosures(h) {
		for _, ci := range CallsIn(f, false, w.calleeIs("Node.publishControl")) {
			n++
			arg := ci.Common().Args[len(ci.Common().Args)-1]
			ok := everyPhiEdge(resolveCell(arg), func(v ssa.Value) bool {
				v = resolveCell(v)
				if v == ssa.Value(from) {
					return true
				}
				if fv, isFV := v.(*ssa.FreeVar); isFV {
					return fv.Name() == from.Name()
				}
				d := D(v)
				return d == "arg:"+from.Name() || d == "fv:"+from.Name()
			}, 0)
			c.Check("C41.R4", ci, "survey response is published to the requesting node on every path", ok,
				"node argument "+D(arg)+": an empty node id broadcasts the response; another node with a pending survey of the same numeric id takes it as this node's answer to its own survey")
		}
	}
	c.Anchor("C41.R4", "publishControl call answering a survey request", n >= 1)
}

// runLeaveBranchArgs (C23.R6): the add script's leave branch (is_leave == "1") deletes the key's state and
// its per-key version fields; it can only do so for the ARGV names it is given. Every ARGV local used in
// a redis.call under that condition must be supplied (not a constant empty string) by the call site
// that passes is_leave = "1".
func runLeaveBranchArgs(c *Ctx) {
	w := c.W
	sc := w.LuaScripts()["map_broker_add.lua"]
	if sc == nil {
		return
	}
	// ARGV index of is_leave
	leaveIdx := 0
	for name, bind := range sc.Locals {
		if name == "is_leave" && strings.HasPrefix(bind, "ARGV[") {
			fmt.Sscanf(bind, "ARGV[%d]", &leaveIdx)
		}
	}
	if !c.Anchor("C23.R6", "is_leave bound to an ARGV in map_broker_add.lua", leaveIdx > 0) {
		return
	}
	need := map[int]string{}
	for _, ev := range sc.Events {
		if ev.Kind != "call" || !condsContain(ev.Conds, "is_leave == \"1\"") {
			continue
		}
		// only deletions of per-key data from the channel's state keys: what must disappear with the key
		// (the cleanup-registration bookkeeping in the same branch is repaired lazily by the worker)
		if !(ev.Cmd == "hdel" || ev.Cmd == "zrem" || ev.Cmd == "del") || len(ev.Args) == 0 {
			continue
		}
		stateKey := false
		for _, t := range ev.Args {
			if t.Kind == "name" {
				stateKey = strings.HasPrefix(t.Text, "state_")
				break
			}
		}
		if !stateKey {
			continue
		}
		for _, t := range ev.Args {
			if t.Kind != "name" {
				continue
			}
			if bind, ok := sc.Locals[t.Text]; ok && strings.HasPrefix(bind, "ARGV[") {
				var i int
				fmt.Sscanf(bind, "ARGV[%d]", &i)
				if i > 0 && i != leaveIdx {
					need[i] = t.Text
				}
			}
		}
	}
	if !c.Anchor("C23.R6", "ARGV locals used by the leave branch", len(need) >= 2) {
		return
	}
	sites := 0
	for _, s := range w.scriptSites() {
		isAdd := false
		for _, n := range s.scripts {
			if n == "map_broker_add.lua" {
				isAdd = true
			}
		}
		if !isAdd || leaveIdx-1 >= len(s.args) || s.args[leaveIdx-1] != "\"1\"" {
			continue
		}
		sites++
		for i, name := range need {
			if i-1 >= len(s.args) {
				continue
			}
			a := s.args[i-1]
			c.Check("C23.R6", s.call, fmt.Sprintf("the removing call site supplies ARGV[%d] (%s), which the script's leave branch uses", i, name), a != "\"\"",
				"the leave branch skips what it is not given a name for: with an empty "+name+" the key's stored version survives the removal in Redis, while the memory broker drops it with the key; a later publish with a lower version is then suppressed by one broker and accepted by the other")
		}
	}
	c.Anchor("C23.R6", "add-script call site passing is_leave = \"1\"", sites >= 1)
}

// runPooledObjectReleased (C30.R4): a (de)compressor taken from a sync.Pool and kept in a struct field is
// returned with Put exactly once: the function that calls Put(x.f) clears x.f before it returns, so
// a later Close cannot put the same object again (two connections would then share one decompressor).
func runPooledObjectReleased(c *Ctx) {
	w := c.W
	n := 0
	for _, f := range w.AllFuncs {
		if !w.inModule(f) || !strings.Contains(FuncName(f), "internal/websocket") || strings.HasSuffix(w.Pos(f.Pos()), "_test.go") {
			continue
		}
		for _, put := range CallsIn(f, false, w.calleeIs("Pool.Put")) {
			arg := put.Common().Args[len(put.Common().Args)-1]
			for i := 0; i < 3; i++ {
				switch x := arg.(type) {
				case *ssa.MakeInterface:
					arg = x.X
				case *ssa.ChangeInterface:
					arg = x.X
				}
			}
			u, ok := arg.(*ssa.UnOp)
			if !ok {
				continue
			}
			fa, ok := u.X.(*ssa.FieldAddr)
			if !ok {
				continue
			}
			typ, fld, ok := FieldOf(fa)
			if !ok {
				continue
			}
			n++
			cleared := func(x ssa.Instruction) bool {
				st, ok := x.(*ssa.Store)
				if !ok {
					return false
				}
				fa2, ok := st.Addr.(*ssa.FieldAddr)
				return ok && fieldAddrIs(fa2, typ, fld) && isNilConst(st.Val)
			}
			bad := PathQ{Stop: cleared, Goal: isReturn}.From(put)
			c.Check("C30.R4", put, "a pooled object held in "+typ+"."+fld+" is forgotten by its owner in the function that returns it to the pool", bad == nil,
				"the owner keeps a reference to an object it already returned: the next Close puts it a second time, two connections draw the same (de)compressor and one resets it in the middle of the other's message")
		}
	}
	c.Anchor("C30.R4", "Pool.Put of a field-held object in the websocket package", n >= 1)
}

// runEncoderPooledAfterWrite (C32.R4): the HTTP-stream handler's Protobuf branch writes the output of a
// pooled data encoder; the encoder goes back to the pool only after that output was written (or the
// output is a copy). Returning it first lets another connection overwrite the bytes being written.
func runEncoderPooledAfterWrite(c *Ctx) {
	w := c.W
	hs := w.Func("centrifuge", "(*HTTPStreamHandler).ServeHTTP")
	if hs == nil {
		return
	}
	n := 0
	for _, f := range w.Deep(hs, 2).Funcs {
		var finishes, writes, puts []ssa.Instruction
		EachInstr(f, func(in ssa.Instruction) {
			ci := asCall(in)
			if ci == nil {
				return
			}
			switch {
			case ci.Common().IsInvoke() && strings.HasPrefix(ci.Common().Method.Name(), "Finish"):
				finishes = append(finishes, in)
			case ci.Common().IsInvoke() && ci.Common().Method.Name() == "Write":
				writes = append(writes, in)
			default:
				if cal := ci.Common().StaticCallee(); cal != nil && cal.Name() == "PutDataEncoder" {
					puts = append(puts, in)
				}
			}
		})
		for _, fin := range finishes {
			fv := fin.(ssa.Value)
			for _, wr := range writes {
				if asCall(wr).Common().Args[0] != fv {
					continue
				}
				n++
				noCopy := asCall(fin).Common().Method.Name() != "Finish"
				early := false
				for _, p := range puts {
					if Precedes(p, wr) || (Reaches(p, wr) && !Reaches(wr, p)) {
						early = true
					}
				}
				c.Check("C32.R4", wr, "encoder output is written before the encoder returns to the pool", !early,
					"the encoder (and, without a copying Finish, the very buffer being written) is shared through the pool: another connection encoding meanwhile overwrites the frame this connection is still writing")
				if noCopy {
					c.Check("C32.R4", wr, "a non-copying Finish is written while the encoder is still owned", !early, "FinishNoCopy aliases the encoder's buffer")
				}
			}
		}
	}
	c.Anchor("C32.R4", "write of the data encoder's output in the HTTP-stream handler", n >= 1)
}

// runControlBeforeLocal (C27.R5): a node-level operation publishes its control message before it
// touches the local hub, so the outcome on the calling node (an error from one local connection, for
// example "already subscribed") can never decide whether the other nodes hear about the operation.
func runControlBeforeLocal(c *Ctx) {
	w := c.W
	n := 0
	for _, name := range []string{"(*Node).Subscribe", "(*Node).Unsubscribe", "(*Node).Disconnect", "(*Node).Refresh"} {
		fn := w.Func("centrifuge", name)
		if fn == nil {
			continue
		}
		isPub := func(in ssa.Instruction) bool {
			ci := asCall(in)
			if ci == nil {
				return false
			}
			cal := w.Callee(ci)
			return cal != nil && cal.Signature.Recv() != nil && typeShort(cal.Signature.Recv().Type()) == "Node" && strings.HasPrefix(cal.Name(), "pub")
		}
		var hubCalls []ssa.CallInstruction
		EachInstr(fn, func(in ssa.Instruction) {
			ci := asCall(in)
			if ci == nil {
				return
			}
			cal := w.Callee(ci)
			if cal != nil && cal.Signature.Recv() != nil && typeShort(cal.Signature.Recv().Type()) == "Hub" {
				hubCalls = append(hubCalls, ci)
			}
		})
		pubs := 0
		EachInstr(fn, func(in ssa.Instruction) {
			if isPub(in) {
				pubs++
			}
		})
		if !c.Anchor("C27.R5", name+": control publish and local hub call", pubs >= 1 && len(hubCalls) >= 1) {
			continue
		}
		for _, h := range hubCalls {
			n++
			target := ssa.Instruction(h)
			bad := PathQ{Stop: isPub, Goal: func(x ssa.Instruction) bool { return x == target }}.FromEntry(fn)
			c.Check("C27.R5", h, "the control message is published before the local hub operation", bad == nil,
				"the local operation reports the first error of any local connection; if it runs first and that error returns, the other nodes are never told, so the same call has a different effect depending on which node a connection lives on")
		}
	}
	c.Anchor("C27.R5", "node-level operations with a local hub call", n >= 3)
}

// runThrottleStamp (C38.R4): CheckPosition throttles real position checks to one per check delay by
// stamping positionCheckTime when it decides to check. Stamping on a throttled call turns the throttle
// into a debounce: with several subscribers asking at staggered times the broker is never asked again
// and a lost publication is never detected.
func runThrottleStamp(c *Ctx) {
	w := c.W
	cp := w.Func("centrifuge", "(*channelMedium).CheckPosition")
	if cp == nil {
		return
	}
	stores := storesToField(cp, false, "channelMedium", "positionCheckTime")
	if !c.Anchor("C38.R4", "store to positionCheckTime in CheckPosition", len(stores) >= 1) {
		return
	}
	for _, st := range stores {
		ok := Guarded(st, func(g Guard) bool {
			b, isB := g.Cond.(*ssa.BinOp)
			if !isB || !g.Pol {
				return false
			}
			return (b.Op == token.GEQ || b.Op == token.GTR) && strings.Contains(D(b.X), "positionCheckTime")
		})
		c.Check("C38.R4", st, "shared position-check time stamped only when the elapsed-time test decided to check", ok,
			"an unconditional stamp postpones the next real check on every throttled call: subscribers checking at staggered times keep pushing it out, the broker is never queried and a position loss is never detected")
	}
}

// runBase64DecodeBuffer (C31.R3): (*base64.Encoding).Decode panics when dst is shorter than what it
// writes — up to DecodedLen(len(src)) bytes. In the websocket package every Decode destination must be
// allocated with that length (or a constant at least as large as DecodedLen of the source length the
// surrounding guard fixes). The handshake key comes straight from the request header.
func runBase64DecodeBuffer(c *Ctx) {
	w := c.W
	n := 0
	for _, f := range w.AllFuncs {
		if !w.inModule(f) || !strings.Contains(FuncName(f), "internal/websocket") || strings.HasSuffix(w.Pos(f.Pos()), "_test.go") {
			continue
		}
		EachInstr(f, func(in ssa.Instruction) {
			call, ok := in.(*ssa.Call)
			if !ok {
				return
			}
			cal := call.Call.StaticCallee()
			if cal == nil || cal.Name() != "Decode" || cal.Pkg == nil || cal.Pkg.Pkg.Path() != "encoding/base64" || len(call.Call.Args) != 3 {
				return
			}
			n++
			dst, src := call.Call.Args[1], call.Call.Args[2]
			okLen, detail := false, "destination "+D(dst)
			if ms, isMS := dst.(*ssa.MakeSlice); isMS {
				// make([]byte, enc.DecodedLen(len(x))) with x the decoded source
				if lc, isCall := ms.Len.(*ssa.Call); isCall {
					if lf := lc.Call.StaticCallee(); lf != nil && lf.Name() == "DecodedLen" && len(lc.Call.Args) == 2 {
						if strings.Contains(D(src), strings.TrimSuffix(strings.TrimPrefix(D(lc.Call.Args[1]), "len("), ")")) {
							okLen = true
						}
					}
				}
				if L, isC := constIntOf(ms.Len); isC {
					// constant destination: the source length must be fixed by an equality guard
					srcLen := int64(-1)
					for _, g := range Guards(in) {
						b, ok := g.Cond.(*ssa.BinOp)
						if !ok || !strings.HasPrefix(D(b.X), "len(") {
							continue
						}
						k, isK := constIntOf(b.Y)
						if isK && ((b.Op == token.EQL && g.Pol) || (b.Op == token.NEQ && !g.Pol)) {
							srcLen = k
						}
					}
					need := int64(-1)
					if srcLen >= 0 {
						need = srcLen / 4 * 3 // StdEncoding.DecodedLen for padded encodings
						if srcLen%4 != 0 {
							need = srcLen*6/8 + 3
						}
					}
					okLen = need >= 0 && L >= need
					detail = fmt.Sprintf("destination has %d bytes, a source of %d characters can decode to %d", L, srcLen, need)
				}
			}
			c.Check("C31.R3", call, "base64 Decode destination is as long as the source can decode to", okLen,
				detail+": Decode panics on a short destination; a Sec-WebSocket-Key of 24 characters without padding decodes to 18 bytes, so the handshake panics instead of answering 400")
		})
	}
	c.Anchor("C31.R3", "base64 Decode calls in the websocket package", n >= 1)
}

// runReaderHoldsControlFrame (C29.R5): Conn.read is Peek(n) + Discard, and Peek needs a buffer of at
// least n bytes; the largest read is a control frame payload (maxControlFramePayloadSize). newConn
// enforces that minimum for the reader it allocates; a reader handed in by an upgrader must satisfy it
// too: created with a constant size ≥ that minimum, or accepted only behind a size test.
func runReaderHoldsControlFrame(c *Ctx) {
	w := c.W
	nc := w.Func("internal/websocket", "newConn")
	minSize, okC := w.ConstInt("internal/websocket", "maxControlFramePayloadSize")
	if nc == nil || !c.Anchor("C29.R5", "websocket.maxControlFramePayloadSize", okC) {
		return
	}
	// Conn.read really is Peek-based (otherwise the rule is moot)
	rd := w.Func("internal/websocket", "(*Conn).read")
	peek := false
	if rd != nil {
		EachInstr(rd, func(in ssa.Instruction) {
			if ci := asCall(in); ci != nil {
				if cal := ci.Common().StaticCallee(); cal != nil && cal.Name() == "Peek" {
					peek = true
				}
			}
		})
	}
	if !peek {
		c.CheckAt("C29.R5", "(*websocket.Conn).read no longer peeks: reader size is not constrained", "internal/websocket/conn.go", true, "")
		return
	}
	n := 0
	for _, ci := range w.Callers(nc) {
		args := ci.Common().Args
		if len(args) < 6 || strings.HasSuffix(w.InstrPos(ci), "_test.go") {
			continue
		}
		br := args[5]
		if isNilConst(br) {
			continue // newConn allocates the reader itself with the enforced minimum
		}
		n++
		var sizes []string
		ok := true
		var visit func(v ssa.Value, depth int)
		seen := map[ssa.Value]bool{}
		visit = func(v ssa.Value, depth int) {
			if v == nil || seen[v] || depth > 6 {
				return
			}
			seen[v] = true
			switch x := v.(type) {
			case *ssa.Const:
				// nil edge of a phi: newConn allocates
			case *ssa.Phi:
				for _, e := range x.Edges {
					visit(e, depth+1)
				}
			case *ssa.Call:
				cal := x.Call.StaticCallee()
				if cal != nil && cal.Name() == "NewReaderSize" && len(x.Call.Args) == 2 {
					k, isK := constIntOf(x.Call.Args[1])
					sizes = append(sizes, fmt.Sprintf("NewReaderSize(%d)", k))
					if !isK || k < minSize {
						ok = false
					}
					return
				}
				ok = false
				sizes = append(sizes, "call "+D(x))
			case *ssa.UnOp:
				// a reader taken from elsewhere (the hijacked connection's): must be behind a Size() test
				// (the load itself sits in the branch that decided to reuse the reader)
				guarded := Guarded(x, func(g Guard) bool {
					b, ok := g.Cond.(*ssa.BinOp)
					if !ok || !g.Pol || (b.Op != token.GTR && b.Op != token.GEQ) || !strings.Contains(D(b.X), "Size(") {
						return false
					}
					k, isK := constIntOf(b.Y)
					return isK && k >= minSize
				})
				sizes = append(sizes, "existing reader behind a Size() test")
				if !guarded {
					ok = false
				}
			default:
				ok = false
				sizes = append(sizes, D(v))
			}
		}
		visit(br, 0)
		c.Check("C29.R5", ci, "frame reader passed to newConn holds a whole control frame payload", ok,
			fmt.Sprintf("reader from %v, minimum %d: Conn.read uses Peek(n), which fails with \"bufio: buffer full\" for n above the buffer size — a close, ping or pong with a longer payload kills the connection although RFC 6455 allows 125 bytes", sizes, minSize))
	}
	c.Anchor("C29.R5", "newConn call sites with a caller-supplied reader", n >= 2)
}

// heapOp: in is heap.<op>(&recv.<queue>, …).
func heapOp(in ssa.Instruction, op, typ, queue string) bool {
	call, ok := in.(*ssa.Call)
	if !ok {
		return false
	}
	cal := call.Call.StaticCallee()
	if cal == nil || cal.Pkg == nil || cal.Pkg.Pkg.Path() != "container/heap" || cal.Name() != op || len(call.Call.Args) == 0 {
		return false
	}
	var found bool
	var walk func(v ssa.Value, d int)
	walk = func(v ssa.Value, d int) {
		if v == nil || d > 4 || found {
			return
		}
		switch x := v.(type) {
		case *ssa.MakeInterface:
			walk(x.X, d+1)
		case *ssa.FieldAddr:
			if fieldAddrIs(x, typ, queue) {
				found = true
			}
		case *ssa.ChangeType:
			walk(x.X, d+1)
		}
	}
	walk(call.Call.Args[0], 0)
	return found
}

// runQueueIndexPairing: a hub keeps, per channel, one item in a priority queue and one entry in an index
// map ("is an item scheduled?"); add() schedules only when the index has no entry. So an item that is
// popped and not pushed back must take its index entry with it — on every path from the Pop to the
// next iteration or the exit there is a Push back into the queue, a delete of the index entry, or the
// branch on which the index lookup found nothing. Otherwise a stale index entry survives with no item
// and nothing is ever scheduled for that channel again (history TTL silently stops working).
func runQueueIndexPairing(c *Ctx, rule, typ, fnName, queue, index string) {
	w := c.W
	fn := w.Func("centrifuge", fnName)
	if fn == nil {
		return // sibling hubs do not all have every worker
	}
	n := 0
	for _, f := range WithClosures(fn) {
		EachInstr(f, func(in ssa.Instruction) {
			if !heapOp(in, "Pop", typ, queue) {
				return
			}
			n++
			pop := in
			settled := func(x ssa.Instruction) bool {
				if heapOp(x, "Push", typ, queue) {
					return true
				}
				if call, ok := x.(*ssa.Call); ok {
					if b, ok := call.Call.Value.(*ssa.Builtin); ok && b.Name() == "delete" && len(call.Call.Args) == 2 && loadsField(call.Call.Args[0], typ, index) {
						return true
					}
				}
				return false
			}
			bad := PathQ{
				Stop: settled,
				Goal: func(x ssa.Instruction) bool { return (x == pop) || isReturn(x) || isUnlockOf(x, typ) },
				EdgeCond: func(cond ssa.Value, outcome bool) bool {
					// the edge on which the index lookup found no entry needs no delete
					if ex, ok := cond.(*ssa.Extract); ok && ex.Index == 1 && !outcome {
						if lk, ok := ex.Tuple.(*ssa.Lookup); ok && loadsField(lk.X, typ, index) {
							return false
						}
					}
					return true
				},
			}.From(pop)
			c.Check(rule, pop, "an item popped from "+typ+"."+queue+" is pushed back or takes its "+index+" entry with it on every path", bad == nil,
				"a popped item that leaves its "+typ+"."+index+" entry behind makes every later add() believe an item is still scheduled: nothing is ever scheduled for that channel again"+instrAt(w, bad))
		})
	}
	c.CheckAt(rule, fnName+": pops of "+queue+" found", w.Pos(fn.Pos()), n >= 1, "")
}

func isUnlockOf(in ssa.Instruction, typ string) bool {
	ci := asCall(in)
	if ci == nil {
		return false
	}
	if _, d := in.(*ssa.Defer); d {
		return false
	}
	k, l := lockEvent(ci)
	return k == "Unlock" && strings.HasPrefix(l, typ)
}

// runPairedStateDelete (C24.R6): every path that deletes a key's state entry also deletes its deadline
// record (mapHub.keyExpires) — the sweep pops a key's heap item before it takes the publish lock, so a
// record that outlives its state entry has no heap item any more, and a later re-publish (which
// schedules only keys without a record) is never swept.
func runPairedStateDelete(c *Ctx) {
	w := c.W
	n := 0
	for _, f := range w.AllFuncs {
		if !w.inModule(f) || strings.HasSuffix(w.Pos(f.Pos()), "_test.go") {
			continue
		}
		for _, del := range mapDeletesOf(f, false, "mapChannel", "state") {
			n++
			isRecDel := func(x ssa.Instruction) bool {
				call, ok := x.(*ssa.Call)
				if !ok {
					return false
				}
				b, ok := call.Call.Value.(*ssa.Builtin)
				return ok && b.Name() == "delete" && len(call.Call.Args) == 2 && loadsField(call.Call.Args[0], "mapHub", "keyExpires")
			}
			target := ssa.Instruction(del)
			before := PathQ{Stop: isRecDel, Goal: func(x ssa.Instruction) bool { return x == target }}.FromEntry(f) != nil
			after := PathQ{Stop: isRecDel, Goal: func(x ssa.Instruction) bool { return isReturn(x) || isUnlockOf(x, "mapHub") }}.From(del) != nil
			c.Check("C24.R6", del, "deleting a key's state entry also deletes its deadline record (keyExpires) in the same critical section", !(before && after),
				"a deadline record without a state entry has lost its heap item to the sweep; a re-publish of the key finds the record, schedules nothing, and the key is never expired")
		}
	}
	c.Anchor("C24.R6", "deletes of map state entries", n >= 2)
}

// runValidatePropagates (C15.R6): the error of a recursive Validate call is returned before the next
// child is looked at — otherwise only the verdict of the last child survives and a malformed tree is
// accepted (and Match then errors on a validated tree).
func runValidatePropagates(c *Ctx) {
	w := c.W
	validate := w.Func("internal/filter", "Validate")
	if validate == nil {
		return
	}
	dv := w.Deep(validate, 2)
	calls := dv.Calls(w.calleeFn(validate))
	if !c.Anchor("C15.R6", "recursive Validate calls", len(calls) >= 1) {
		return
	}
	isRec := func(x ssa.Instruction) bool {
		ci := asCall(x)
		return ci != nil && w.calleeFn(validate)(ci)
	}
	for _, ci := range calls {
		v := ci.Value()
		ok := false
		detail := "the result of the recursive call is not tested"
		if v != nil {
			// direct `return Validate(child)` is propagation too
			for _, r := range *v.Referrers() {
				if ret, isRet := r.(*ssa.Return); isRet {
					_ = ret
					ok = true
				}
			}
			for _, r := range *v.Referrers() {
				b, isB := r.(*ssa.BinOp)
				if !isB || !isNilConst(b.Y) || (b.Op != token.NEQ && b.Op != token.EQL) {
					continue
				}
				for _, ifi := range ifsOn(b) {
					errEdge := ifi.Block().Succs[0]
					if b.Op == token.EQL {
						errEdge = ifi.Block().Succs[1]
					}
					// from the error edge: a return must come before any further recursive call / loop turn
					bad := PathQ{Stop: isReturn, Goal: func(x ssa.Instruction) bool { return isRec(x) }}.FromBlock(errEdge)
					// and that return carries a non-nil error
					nilRet := PathQ{Goal: func(x ssa.Instruction) bool {
						ret, isRet := x.(*ssa.Return)
						if !isRet {
							return false
						}
						vals := retVals(ret)
						return len(vals) == 1 && isNilConst(vals[0])
					}, Stop: isRec}.FromBlock(errEdge)
					if bad == nil && nilRet == nil {
						ok = true
					} else {
						detail = "on the error edge the function goes on to the next child (or returns nil) instead of returning the error"
					}
				}
			}
		}
		c.Check("C15.R6", ci, "error of a child's validation is returned before the next child is validated", ok, detail+": Validate would accept a tree whose malformed node is not the last child, and Match errors on it later")
	}
}

// runBaseFollowsEveryPublication (C14.R6): with KeepLatestPublication the medium's local delta base is
// the last non-keyed publication it broadcast — delta or not, because subscribers replace their own
// base with every full payload they receive. The store to latestPublication therefore must not depend
// on the publication's delta flag.
func runBaseFollowsEveryPublication(c *Ctx) {
	w := c.W
	bc := w.Func("centrifuge", "(*channelMedium).broadcast")
	if bc == nil {
		return
	}
	stores := storesToField(bc, false, "channelMedium", "latestPublication")
	if !c.Anchor("C14.R6", "store to channelMedium.latestPublication", len(stores) >= 1) {
		return
	}
	for _, st := range stores {
		onDelta := ""
		for _, g := range Guards(st) {
			if strings.Contains(D(g.Cond), "queuedPub.delta") {
				onDelta = g.String()
			}
		}
		c.Check("C14.R6", st, "the medium's delta base follows every non-keyed publication it broadcasts (not only delta ones)", onDelta == "",
			"guard "+onDelta+": a publication sent without the delta option still replaces the subscribers' base (they receive it in full); if the medium keeps the older one, the next delta is computed against a payload the client no longer holds")
	}
}

// runPreparedDataComplete (C16.R4): the per-publication prepared data is copied *by value* into the
// per-broadcast caches; every field (in particular the filtered-publication marker) has to be set
// before the first copy, or later subscribers sharing the prepared key get an incomplete copy — a
// filtered publication then enters their sync buffer in full.
func runPreparedDataComplete(c *Ctx) {
	w := c.W
	fn := w.Func("centrifuge", "(*subShard).broadcastPublication")
	if fn == nil {
		return
	}
	n := 0
	EachInstr(fn, func(in ssa.Instruction) {
		al, ok := in.(*ssa.Alloc)
		if !ok || typeShort(al.Type()) != "preparedData" {
			return
		}
		var fieldStores []*ssa.Store
		var wholeLoads []ssa.Instruction
		for _, r := range *al.Referrers() {
			switch x := r.(type) {
			case *ssa.FieldAddr:
				for _, rr := range *x.Referrers() {
					if st, ok := rr.(*ssa.Store); ok && st.Addr == x {
						fieldStores = append(fieldStores, st)
					}
				}
			case *ssa.UnOp:
				if x.Op == token.MUL && x.X == al {
					wholeLoads = append(wholeLoads, x)
				}
			}
		}
		if len(wholeLoads) == 0 {
			return
		}
		for _, st := range fieldStores {
			n++
			var early ssa.Instruction
			for _, l := range wholeLoads {
				if Precedes(l, st) {
					early = l
				}
			}
			fld := "?"
			if _, f, ok := FieldOf(st.Addr.(*ssa.FieldAddr)); ok {
				fld = f
			}
			c.Check("C16.R4", st, "prepared data field "+fld+" is set before the value is copied into the broadcast caches", early == nil,
				"the caches hold copies: a field set after the copy is missing for every later subscriber with the same prepared key"+instrAt(w, early))
		}
	})
	c.Anchor("C16.R4", "field stores into the prepared data of broadcastPublication", n >= 3)
	// and the consumer trusts the flag alone: a filtered publication is replaced by its marker whenever wasFiltered is set
	wp := w.Func("centrifuge", "(*Client).writePublication")
	if wp != nil {
		k := 0
		EachInstr(wp, func(in ssa.Instruction) {
			ci := asCall(in)
			if ci == nil || !w.calleeIs("PubSubSync.SyncPublication")(ci) {
				return
			}
			k++
			arg := ci.Common().Args[2]
			ph, isPhi := arg.(*ssa.Phi)
			okMarker := false
			if isPhi {
				for i, e := range ph.Edges {
					if strings.HasSuffix(D(e), "preparedData.filteredPub") {
						// the edge carrying the marker is taken exactly on wasFiltered
						pred := ph.Block().Preds[i]
						gs := GuardsOfBlock(pred)
						only := true
						has := false
						for _, g := range gs {
							d := D(g.Cond)
							if strings.HasSuffix(d, "preparedData.wasFiltered") && g.Pol {
								has = true
							} else if strings.Contains(d, "preparedData.filteredPub") {
								only = false
							}
						}
						okMarker = has && only
					}
				}
			}
			c.Check("C16.R4", ci, "a filtered publication enters the sync buffer as its marker whenever wasFiltered is set", okMarker, "an extra condition on the marker lets the full (excluded) publication into the subscribe-time buffer, from where it reaches the recovery reply unfiltered")
		})
		c.Anchor("C16.R4", "SyncPublication call in writePublication", k >= 1)
	}
}

// runResolverOnlyThroughValidate (C22.R4): map channel options reach the brokers only through
// ResolveAndValidateMapChannelOptions, which applies the defaults (StreamSize 0 → 100, TTLs, page sizes)
// and the mode validation. A direct call of the resolver function value sees the raw, un-defaulted
// options: e.g. the key-TTL worker would treat a default-sized stream as "no stream" and drop the
// removal entry a recovering client needs.
func runResolverOnlyThroughValidate(c *Ctx) {
	w := c.W
	n := 0
	for _, f := range w.AllFuncs {
		if !w.inModule(f) || strings.HasSuffix(w.Pos(f.Pos()), "_test.go") {
			continue
		}
		EachInstr(f, func(in ssa.Instruction) {
			ci := asCall(in)
			if ci == nil || ci.Common().IsInvoke() || ci.Common().StaticCallee() != nil {
				return
			}
			sig := ci.Common().Signature()
			if sig == nil || sig.Params().Len() != 1 || sig.Results().Len() != 1 || typeShort(sig.Results().At(0).Type()) != "MapChannelOptions" {
				return
			}
			n++
			root := f
			for root.Parent() != nil {
				root = root.Parent()
			}
			c.Check("C22.R4", ci, "map channel options resolver invoked only inside ResolveAndValidateMapChannelOptions", root.Name() == "ResolveAndValidateMapChannelOptions",
				"a direct call sees the raw options without defaults (StreamSize 0 instead of 100, unset TTLs): code that decides on them behaves as if the channel had no stream")
		})
	}
	c.Anchor("C22.R4", "invocations of the map channel options resolver", n >= 1)
}

// runPositionPair (C02.R7): a stream position is the pair (offset, epoch). Wherever an Offset field is
// copied from another object's Offset into a struct that also has an Epoch field, the Epoch is copied
// from the same source object in the same function — an empty epoch is a wildcard for both epoch guards
// of recovery, so a dropped epoch turns "different stream" into "recovered".
func runPositionPair(c *Ctx) {
	w := c.W
	hasField := func(t types.Type, name string) bool {
		st, ok := deref(t).Underlying().(*types.Struct)
		if !ok {
			return false
		}
		for i := 0; i < st.NumFields(); i++ {
			if st.Field(i).Name() == name {
				return true
			}
		}
		return false
	}
	// source of a value: (base object, field name) of a field read
	srcOf := func(v ssa.Value) (ssa.Value, string, bool) {
		switch x := v.(type) {
		case *ssa.UnOp:
			if fa, ok := x.X.(*ssa.FieldAddr); ok {
				if st, ok := deref(fa.X.Type()).Underlying().(*types.Struct); ok {
					return fa.X, st.Field(fa.Field).Name(), true
				}
			}
		case *ssa.Field:
			if st, ok := x.X.Type().Underlying().(*types.Struct); ok {
				return x.X, st.Field(x.Field).Name(), true
			}
		}
		return nil, "", false
	}
	n := 0
	for _, f := range w.AllFuncs {
		if !w.inModule(f) || strings.HasSuffix(w.Pos(f.Pos()), "_test.go") || strings.Contains(FuncName(f), "controlpb") || strings.Contains(FuncName(f), "/internal/") {
			continue
		}
		EachInstr(f, func(in ssa.Instruction) {
			st, ok := in.(*ssa.Store)
			if !ok {
				return
			}
			fa, ok := st.Addr.(*ssa.FieldAddr)
			if !ok {
				return
			}
			tt, isS := deref(fa.X.Type()).Underlying().(*types.Struct)
			if !isS || tt.Field(fa.Field).Name() != "Offset" || !hasField(fa.X.Type(), "Epoch") {
				return
			}
			sb, sf, ok := srcOf(st.Val)
			if !ok || sf != "Offset" || !hasField(sb.Type(), "Epoch") {
				return
			}
			// only position carriers rebuilt from another instance of the same type (a request forwarded as
			// a new request, a position copied as a position); per-publication offsets are a different thing
			tn := typeShort(fa.X.Type())
			if tn != typeShort(sb.Type()) || !(strings.HasSuffix(tn, "Request") || tn == "StreamPosition") {
				return
			}
			n++
			// an Epoch store into the same target from the same source
			found := false
			EachInstr(f, func(x ssa.Instruction) {
				s2, ok := x.(*ssa.Store)
				if !ok {
					return
				}
				fa2, ok := s2.Addr.(*ssa.FieldAddr)
				if !ok || fa2.X != fa.X {
					return
				}
				if t2, ok := deref(fa2.X.Type()).Underlying().(*types.Struct); !ok || t2.Field(fa2.Field).Name() != "Epoch" {
					return
				}
				if b2, f2, ok := srcOf(s2.Val); ok && f2 == "Epoch" && D(b2) == D(sb) {
					found = true
				}
			})
			c.Check("C02.R7", st, "an offset copied from "+typeShort(sb.Type())+" travels with that object's epoch", found,
				"the target "+typeShort(fa.X.Type())+" gets its Offset from "+D(sb)+" but not its Epoch: recovery compares epochs only when both are non-empty, so the lost epoch makes a position in a different stream look recoverable")
		})
	}
	c.Anchor("C02.R7", "offset copies between position-carrying objects", n >= 1)
}
