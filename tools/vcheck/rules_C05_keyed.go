package main

import (
	"go/types"
	"strings"

	"golang.org/x/tools/go/ssa"
)

// runC05Keyed (C05.R8): per-connection keyed state (tracked keys, per-channel delta state) is created or
// extended only in the c.mu critical section that tested the live subscription: the test of
// c.channels[channel] (present and subscribed; generation-matched when the writer runs from an async
// callback) and the write must not be separated by an unlock. Otherwise close()/unsubscribe, which
// clean keyed state only for channels still in c.channels, can run in between and the state — together
// with its hub and poll-manager registrations — survives the connection.
func runC05Keyed(c *Ctx) {
	w := c.W
	li := w.Locks()
	isKeyedMap := func(v ssa.Value) bool {
		m, ok := v.Type().Underlying().(*types.Map)
		if !ok {
			return false
		}
		et := typeShort(m.Elem())
		if et == "keyedKeyState" || et == "keyedChannelDeltaState" {
			return true
		}
		if inner, ok := m.Elem().Underlying().(*types.Map); ok && typeShort(inner.Elem()) == "keyedKeyState" {
			return true
		}
		return false
	}
	n := 0
	for _, f := range w.AllFuncs {
		if !w.inModule(f) || strings.HasSuffix(w.Pos(f.Pos()), "_test.go") {
			continue
		}
		EachInstr(f, func(in ssa.Instruction) {
			mu, ok := in.(*ssa.MapUpdate)
			if !ok || !isKeyedMap(mu.Map) {
				return
			}
			n++
			held := li.HeldAt(mu).Holds("Client.mu", true)
			// a lookup of c.channels whose result guards this write, in the same critical section
			var lk *ssa.Lookup
			EachInstr(f, func(x ssa.Instruction) {
				l, ok := x.(*ssa.Lookup)
				if !ok || !loadsField(l.X, "Client", "channels") || !Reaches(l, mu) {
					return
				}
				// some guard of the write is computed from this lookup
				dep := false
				for _, g := range Guards(mu) {
					if derivesFromValue(g.Cond, l, 0, map[ssa.Value]bool{}) {
						dep = true
					}
				}
				if dep && unlockBetween(f, l, mu, "Client.mu") == nil {
					lk = l
				}
			})
			c.Check("C05.R8", mu, "keyed state written under c.mu in the critical section of a c.channels[channel] test", held && lk != nil,
				"the subscription can be unsubscribed or the connection closed between a test made earlier (or under a different lock acquisition) and this write; close() cleans keyed state only for channels still in c.channels, so the state and its registrations would outlive the connection (held: "+li.HeldAt(mu).String()+")")
			if held && lk != nil && f.Parent() != nil {
				// asynchronous writer (callback closure): the test must include the generation
				c.Check("C05.R8", mu, "asynchronous keyed-state writer matches the subscription generation", Guarded(mu, isGenEq), "an unsubscribe + resubscribe while the callback was pending installs a fresh generation; the stale callback must not write into it")
			}
		})
	}
	c.Anchor("C05.R8", "writes to per-connection keyed state", n >= 2)
}

// derivesFromValue: v is computed from src through extracts, field reads, calls, binops, phis.
func derivesFromValue(v, src ssa.Value, depth int, seen map[ssa.Value]bool) bool {
	if v == nil || depth > 10 || seen[v] {
		return false
	}
	seen[v] = true
	if v == src {
		return true
	}
	switch x := v.(type) {
	case *ssa.Extract:
		return derivesFromValue(x.Tuple, src, depth+1, seen)
	case *ssa.Field:
		return derivesFromValue(x.X, src, depth+1, seen)
	case *ssa.FieldAddr:
		return derivesFromValue(x.X, src, depth+1, seen)
	case *ssa.UnOp:
		if al, ok := x.X.(*ssa.Alloc); ok {
			for _, r := range *al.Referrers() {
				if st, ok := r.(*ssa.Store); ok && st.Addr == al && derivesFromValue(st.Val, src, depth+1, seen) {
					return true
				}
			}
		}
		return derivesFromValue(x.X, src, depth+1, seen)
	case *ssa.BinOp:
		return derivesFromValue(x.X, src, depth+1, seen) || derivesFromValue(x.Y, src, depth+1, seen)
	case *ssa.Phi:
		for _, e := range x.Edges {
			if derivesFromValue(e, src, depth+1, seen) {
				return true
			}
		}
	case *ssa.Call:
		for _, a := range x.Call.Args {
			if derivesFromValue(a, src, depth+1, seen) {
				return true
			}
		}
	case *ssa.Convert:
		return derivesFromValue(x.X, src, depth+1, seen)
	case *ssa.ChangeType:
		return derivesFromValue(x.X, src, depth+1, seen)
	}
	return false
}
