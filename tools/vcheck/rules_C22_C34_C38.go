package main

import (
	"fmt"
	"go/ast"
	"go/token"
	"go/types"
	"sort"
	"strconv"
	"strings"

	"golang.org/x/tools/go/ssa"
)

func init() {
	register(&PropMeta{
		ID:    "C22",
		Level: "other",
		Explanation: "(R1) in the map live transition the buffer is opened before the hub entry is added, and on the positioned branch every path to the buffer lock passes the stream catch-up read (Node.MapStreamRead since the state position), whose result is merged with the buffered publications; a failed merge, an epoch mismatch and an over-limit catch-up each roll back and return an unrecoverable/insufficient error, and Recovered=true is stored only past them; " +
			"(R2) client code reads map streams only through Node.MapStreamRead (which detects trimmed streams), never through the broker directly; (R3) the state phase freezes the stream offset on the first page only and applies the offset filter on later pages.",
		NotDecided: "convergence of the client's map to the broker state (values, interleavings).",
		Rules: map[string]string{"C22.R1": "K1 order/must-pass in handleMapTransitionToLive", "C22.R2": "K4 who-may-call MapBroker.ReadStream", "C22.R3": "K2 guards in handleMapStatePhase"},
		Run: runC22,
	})
	register(&PropMeta{
		ID:    "C34",
		Level: "other",
		Explanation: "(R1) every Redis key / PUB/SUB channel builder of the stream broker is abstracted, path by path, to a template (sequence of literals and symbolic operands) with its path condition; under each cluster configuration (sharded PUB/SUB or not) the first brace segment of all builders is the same operand (the partition tag, or the channel), so all keys and the channel of one script call share a hash slot; (R2) extractChannel inverts the channel template of each configuration; (R3) the brace segment's source cannot produce an empty hash tag.",
		NotDecided: "slot numbers; the map and presence key builders beyond their brace segment.",
		Rules: map[string]string{"C34.R1": "K11 string-builder templates: same hash-tag operand across builders", "C34.R2": "K11: extractChannel inverts messageChannelID", "C34.R3": "taint: hash tag cannot be empty"},
		Run: runC34,
	})
	register(&PropMeta{
		ID:    "C38",
		Level: "other",
		Explanation: "(R1) channelMedium.broadcast (which also updates latestPublication) runs only with broadcastMu held or from the single queue-writer goroutine; (R2) the insufficient-state sentinel is produced with Offset = MaxUint64 and the non-positioned consumer branch drops it before any write; (R3) an invalid position found by CheckPosition ends in broadcastInsufficientState.",
		NotDecided: "ordering through the queue (values), broadcast delay coalescing results.",
		Rules: map[string]string{"C38.R1": "K3/K4: single writer of the medium's broadcast", "C38.R2": "value flow of the sentinel", "C38.R3": "K2: invalid position ⇒ insufficient state"},
		Run: runC38,
	})
}

func runC22(c *Ctx) {
	w := c.W
	ml := c.Fn("C22.R1", "centrifuge", "(*Client).handleMapTransitionToLive")
	if ml != nil {
		start := w.calleeIs("PubSubSync.StartBuffering")
		addSub := w.calleeIs("Node.addSubscription")
		read := w.calleeIs("Node.MapStreamRead")
		lockBuf := w.calleeIs("PubSubSync.LockBufferAndReadBuffered")
		merge := w.calleeIs("recovery.MergePublications")
		c.RequireOrder("C22.R1", ml, "StartBuffering", start, "Node.addSubscription", addSub, "buffer before hub add")
		c.RequireOrder("C22.R1", ml, "Node.addSubscription", addSub, "Node.MapStreamRead", read, "the catch-up read must follow the hub add: a change between the read and the hub add would be neither read nor buffered")
		// the positioned merge: the LockBuffer call whose result feeds MergePublications
		for _, m := range CallsIn(ml, false, merge) {
			args := m.Common().Args
			var lk ssa.CallInstruction
			for _, l := range CallsIn(ml, false, lockBuf) {
				if len(args) == 2 && args[1] == l.Value() {
					lk = l
				}
			}
			if !c.Anchor("C22.R1", "buffered publications feeding the positioned merge", lk != nil) {
				continue
			}
			target := lk.(ssa.Instruction)
			bad := PathQ{Stop: instrPred(read), Goal: func(in ssa.Instruction) bool { return in == target }}.FromEntry(ml)
			c.Check("C22.R1", lk, "every path to the positioned buffer lock passes the stream catch-up read", bad == nil, "skipping the catch-up read (even when the state was read at the stream top) loses every change that lands between the top probe and the hub registration: the client is told it is live while a change after its position was never delivered")
			// the read starts at the position the state was read at
			for _, r := range CallsIn(ml, false, read) {
				okSince := 0
				for _, fld := range []string{"Offset", "Epoch"} {
					for _, st := range storesToField(ml, false, "StreamPosition", fld) {
						fa := st.Addr.(*ssa.FieldAddr)
						if _, isAlloc := fa.X.(*ssa.Alloc); !isAlloc {
							continue
						}
						intoSince := false
						for _, ss := range storesToField(ml, false, "StreamFilter", "Since") {
							if ss.Val == fa.X {
								intoSince = true
							}
						}
						if intoSince && strings.HasSuffix(D(st.Val), "sincePosition."+fld) {
							okSince++
						}
					}
				}
				c.Check("C22.R1", r, "catch-up read starts at the position the state was read at", okSince == 2, "Filter.Since must be {params.sincePosition.Offset, params.sincePosition.Epoch}")
			}
			// merged first argument derives from the read result
			c.Check("C22.R1", m, "merge combines the catch-up read with the buffered publications", derivesFromCall(args[0], read, 0, map[ssa.Value]bool{}), "first merge argument: "+D(args[0]))
		}
		// epoch mismatch and over-limit edges return ErrorUnrecoverablePosition after rollback
		n := 0
		EachInstr(ml, func(in ssa.Instruction) {
			r, ok := in.(*ssa.Return)
			if !ok {
				return
			}
			vals := retVals(r)
			if len(vals) != 1 || !strings.Contains(D(vals[0]), "ErrorUnrecoverablePosition") {
				return
			}
			n++
			target := ssa.Instruction(r)
			// only returns after the hub add need the rollback
			after := false
			for _, a := range CallsIn(ml, false, addSub) {
				if Reaches(a, r) {
					after = true
				}
			}
			if !after {
				return
			}
			var bad ssa.Instruction
			for _, a := range CallsIn(ml, false, addSub) {
				if x := (PathQ{Stop: w.wrapMust(w.calleeIs("Node.removeSubscription"), 2), Goal: func(x ssa.Instruction) bool { return x == target }}).From(a); x != nil {
					bad = x
				}
			}
			c.Check("C22.R1", r, "unrecoverable-position exit rolls the hub entry back", bad == nil, "a refused transition must leave no routing entry")
		})
		c.Anchor("C22.R1", "unrecoverable-position exits of the live transition", n >= 2)
		// Recovered = true only after the merge
		for _, st := range storesToField(ml, false, "SubscribeResult", "Recovered") {
			if v, known := boolConst(st.Val); !known || !v {
				continue
			}
			okG := GuardedBy(st, func(g Guard) bool { return g.Pol && strings.HasSuffix(D(g.Cond), "isRecovery") })
			c.Check("C22.R1", st, "Recovered=true only for a recovery join", okG, "it is never told recovery succeeded while some change after its position was not delivered")
		}
	}
	// R2
	n := 0
	for _, f := range w.AllFuncs {
		for _, ci := range CallsIn(f, false, func(ci ssa.CallInstruction) bool {
			return ci.Common().IsInvoke() && ci.Common().Method.Name() == "ReadStream" && typeShort(ci.Common().Value.Type()) == "MapBroker"
		}) {
			n++
			root := f
			for root.Parent() != nil {
				root = root.Parent()
			}
			name := shortFuncName(root)
			ok := name == "Node.MapStreamRead" || name == "Node.mapStreamPosition" || name == "Node.mapStreamTop" || strings.HasPrefix(name, "Node.")
			c.Check("C22.R2", ci, "MapBroker.ReadStream is called only by the node layer", ok, "client code must go through Node.MapStreamRead, which detects a trimmed stream (first returned offset beyond since+1)")
		}
	}
	c.Anchor("C22.R2", "MapBroker.ReadStream call sites", n >= 1)
	msr := c.Fn("C22.R2", "centrifuge", "(*Node).MapStreamRead")
	if msr != nil {
		okTrim := false
		EachInstr(msr, func(in ssa.Instruction) {
			r, ok := in.(*ssa.Return)
			if !ok {
				return
			}
			vals := retVals(r)
			if len(vals) == 2 && strings.Contains(D(vals[1]), "ErrorUnrecoverablePosition") {
				if Guarded(r, func(g Guard) bool {
					b, ok := g.Cond.(*ssa.BinOp)
					return ok && g.Pol && b.Op == token.GTR && strings.HasSuffix(D(b.X), ".Offset") && strings.Contains(D(b.Y), "Since.Offset + 1")
				}) {
					okTrim = true
				}
			}
		})
		c.CheckAt("C22.R2", "(*centrifuge.Node).MapStreamRead: trimmed stream ⇒ ErrorUnrecoverablePosition", w.Pos(msr.Pos()), okTrim, "a read that starts beyond since+1 means entries were trimmed: the position is unrecoverable")
		// {offset 0, epoch E} is the position of a client that subscribed to an empty channel: entries start
		// at 1, so a trimmed head is a loss there too. Some trimmed-head return must be reachable with
		// Since.Offset == 0, i.e. not every one of them sits under a dominating `Since.Offset > 0`.
		trimReturns, trimReturnsFromZero := 0, 0
		EachInstr(msr, func(in ssa.Instruction) {
			r, ok := in.(*ssa.Return)
			if !ok {
				return
			}
			vals := retVals(r)
			if len(vals) != 2 || !strings.Contains(D(vals[1]), "ErrorUnrecoverablePosition") {
				return
			}
			if !Guarded(r, func(g Guard) bool {
				b, ok := g.Cond.(*ssa.BinOp)
				return ok && g.Pol && b.Op == token.GTR && strings.HasSuffix(D(b.X), ".Offset") && strings.Contains(D(b.Y), "Since.Offset + 1")
			}) {
				return
			}
			trimReturns++
			if !Guarded(r, func(g Guard) bool {
				b, ok := g.Cond.(*ssa.BinOp)
				if !ok || !strings.HasSuffix(D(b.X), "Since.Offset") {
					return false
				}
				z, isZ := constIntOf(b.Y)
				return isZ && z == 0 && ((b.Op == token.GTR && g.Pol) || (b.Op == token.NEQ && g.Pol) || (b.Op == token.EQL && !g.Pol))
			}) {
				trimReturnsFromZero++
			}
		})
		if trimReturns > 0 {
			c.CheckAt("C22.R2", "(*centrifuge.Node).MapStreamRead: a trimmed head is also detected from the position {offset 0, known epoch}", w.Pos(msr.Pos()), trimReturnsFromZero > 0,
				"every trimmed-entries test is skipped when Since.Offset == 0: a client that subscribed to an empty channel (position {0, epoch}) and catches up after more publications than the stream keeps gets the surviving tail and a successful result although offsets 1..k were never delivered")
		}
		// the same loss with nothing left to return: no publications although the top is ahead of since
		okEmpty := false
		EachInstr(msr, func(in ssa.Instruction) {
			r, ok := in.(*ssa.Return)
			if !ok {
				return
			}
			vals := retVals(r)
			if len(vals) != 2 || !strings.Contains(D(vals[1]), "ErrorUnrecoverablePosition") {
				return
			}
			ahead := Guarded(r, func(g Guard) bool {
				b, ok := g.Cond.(*ssa.BinOp)
				return ok && g.Pol && b.Op == token.GTR && strings.HasSuffix(D(b.X), "Position.Offset") && strings.HasSuffix(D(b.Y), "Since.Offset")
			})
			empty := Guarded(r, func(g Guard) bool {
				b, ok := g.Cond.(*ssa.BinOp)
				if !ok || !strings.HasPrefix(D(b.X), "len(") || !strings.Contains(D(b.X), "Publications") {
					return false
				}
				z, isZ := constIntOf(b.Y)
				return isZ && z == 0 && ((b.Op == token.EQL && g.Pol) || (b.Op == token.GTR && !g.Pol) || (b.Op == token.NEQ && !g.Pol))
			})
			if ahead && empty {
				okEmpty = true
			}
		})
		c.CheckAt("C22.R2", "(*centrifuge.Node).MapStreamRead: nothing returned while the stream top is ahead of the known offset ⇒ ErrorUnrecoverablePosition", w.Pos(msr.Pos()), okEmpty,
			"a stream whose entries all expired or were trimmed keeps its top offset: a catch-up read then returns no publications and, without this test, the live transition tells the client it is up to date although every change after its position was lost")
	}
	// R3
	sp := c.Fn("C22.R3", "centrifuge", "(*Client).handleMapStatePhase")
	if sp != nil {
		k := 0
		for _, f := range WithClosures(sp) {
			for _, st := range storesToFieldAny(f, "mapSubscribeState", []string{"frozenOffset", "stateOffset", "offset", "frozenPosition", "position", "streamPosition", "statePosition"}) {
				k++
				okG := Guarded(st, func(g Guard) bool {
					b, ok := g.Cond.(*ssa.BinOp)
					if !ok {
						return false
					}
					s, isS := constStrOf(b.Y)
					return isS && s == "" && strings.HasSuffix(D(b.X), "SubscribeRequest.Cursor") && ((b.Op == token.EQL && g.Pol) || (b.Op == token.NEQ && !g.Pol))
				})
				c.Check("C22.R3", st, "stream position frozen on the first state page only", okG, "re-freezing on later pages moves the catch-up start past changes made during pagination")
			}
		}
		c.Anchor("C22.R3", "frozen position store in handleMapStatePhase", k >= 1)
	}
}

// storesToFieldAny lists stores to any of the named fields of typ.
func storesToFieldAny(fn *ssa.Function, typ string, fields []string) []*ssa.Store {
	var out []*ssa.Store
	EachInstr(fn, func(in ssa.Instruction) {
		st, ok := in.(*ssa.Store)
		if !ok {
			return
		}
		fa, ok := st.Addr.(*ssa.FieldAddr)
		if !ok {
			return
		}
		for _, f := range fields {
			if fieldAddrIs(fa, typ, f) {
				out = append(out, st)
			}
		}
	})
	return out
}

// ---- C34 templates ------------------------------------------------------------------------------

type keyTemplate struct {
	Parts []string // literals as quoted strings, operands as ⟨descriptor⟩
	Conds []string
}

// builderTemplates enumerates the paths of a small builder function and collects the sequence of
// strings.Builder writes (and string concatenations returned) with the branch outcomes taken.
func builderTemplates(fn *ssa.Function) []keyTemplate {
	return builderTemplatesDepth(fn, 0)
}

// substituteParams rewrites the ⟨strparam#k⟩ operands of a helper's template with the actual arguments of
// the delegating call (literals become literals, the caller's own parameters keep their caller-side role).
func substituteParams(t keyTemplate, helper *ssa.Function, args []ssa.Value, resolve func(ssa.Value) ssa.Value) keyTemplate {
	// helper's string parameters in order
	var strArgs []ssa.Value
	for i, p := range helper.Params {
		if b, isB := p.Type().Underlying().(*types.Basic); isB && b.Kind() == types.String && i < len(args) {
			strArgs = append(strArgs, args[i])
		}
	}
	out := keyTemplate{Conds: append([]string{}, t.Conds...)}
	for _, part := range t.Parts {
		repl := part
		for k, a := range strArgs {
			if part == fmt.Sprintf("⟨strparam#%d⟩", k) {
				a = resolve(a)
				if s, ok := constStrOf(a); ok {
					repl = fmt.Sprintf("%q", s)
				} else {
					repl = "⟨" + operandName(a) + "⟩"
				}
			}
		}
		out.Parts = append(out.Parts, repl)
	}
	return out
}

func builderTemplatesDepth(fn *ssa.Function, depth int) []keyTemplate {
	var out []keyTemplate
	// phiEnv: value of the φ-nodes of the blocks entered so far on this path
	type phiEnv map[*ssa.Phi]ssa.Value
	var walk func(b, prev *ssa.BasicBlock, parts, conds []string, seen map[*ssa.BasicBlock]bool, env phiEnv)
	walk = func(b, prev *ssa.BasicBlock, parts, conds []string, seen map[*ssa.BasicBlock]bool, env phiEnv) {
		if seen[b] || len(out) > 64 {
			return
		}
		seen = copySeen(seen)
		seen[b] = true
		if prev != nil {
			ne := phiEnv{}
			for k, v := range env {
				ne[k] = v
			}
			env = ne
			for idx, p := range b.Preds {
				if p != prev {
					continue
				}
				for _, in := range b.Instrs {
					if ph, ok := in.(*ssa.Phi); ok && idx < len(ph.Edges) {
						env[ph] = ph.Edges[idx]
					}
				}
			}
		}
		resolve := func(v ssa.Value) ssa.Value {
			for i := 0; i < 4; i++ {
				ph, ok := v.(*ssa.Phi)
				if !ok {
					break
				}
				nv, ok := env[ph]
				if !ok {
					break
				}
				v = nv
			}
			return v
		}
		for _, in := range b.Instrs {
			if r, ok := in.(*ssa.Return); ok && len(parts) == 0 && depth < 2 {
				// a builder that delegates to a shared helper: its templates are the helper's, with the
				// arguments substituted
				vals := retVals(r)
				if len(vals) == 1 {
					if call, ok := vals[0].(*ssa.Call); ok {
						if h := call.Call.StaticCallee(); h != nil && len(h.Blocks) > 0 && h.Pkg == fn.Pkg && h != fn {
							for _, ht := range builderTemplatesDepth(h, depth+1) {
								st := substituteParams(ht, h, call.Call.Args, resolve)
								st.Conds = append(append([]string{}, conds...), st.Conds...)
								out = append(out, st)
							}
							return
						}
					}
				}
			}
			if call, ok := in.(*ssa.Call); ok {
				if f := call.Call.StaticCallee(); f != nil && f.Signature.Recv() != nil && typeShort(f.Signature.Recv().Type()) == "Builder" {
					switch f.Name() {
					case "WriteString":
						a := call.Call.Args[1]
						if s, ok := constStrOf(a); ok {
							parts = append(parts, fmt.Sprintf("%q", s))
						} else {
							parts = append(parts, "⟨"+operandName(a)+"⟩")
						}
					case "WriteByte":
						if v, ok := constIntOf(call.Call.Args[1]); ok {
							parts = append(parts, fmt.Sprintf("%q", string(rune(v))))
						}
					}
				}
			}
			if r, ok := in.(*ssa.Return); ok {
				if len(parts) == 0 {
					for _, v := range retVals(r) {
						parts = append(parts, concatParts(v, 0)...)
					}
				}
				out = append(out, keyTemplate{Parts: append([]string{}, parts...), Conds: append([]string{}, conds...)})
				return
			}
		}
		if len(b.Instrs) > 0 {
			if ifi, ok := b.Instrs[len(b.Instrs)-1].(*ssa.If); ok && len(b.Succs) == 2 {
				d := D(ifi.Cond)
				walk(b.Succs[0], b, append([]string{}, parts...), append(append([]string{}, conds...), d), seen, env)
				walk(b.Succs[1], b, append([]string{}, parts...), append(append([]string{}, conds...), "!"+d), seen, env)
				return
			}
		}
		for _, s := range b.Succs {
			walk(s, b, append([]string{}, parts...), append([]string{}, conds...), seen, env)
		}
	}
	if len(fn.Blocks) > 0 {
		walk(fn.Blocks[0], nil, nil, nil, map[*ssa.BasicBlock]bool{}, phiEnv{})
	}
	return out
}

func copySeen(m map[*ssa.BasicBlock]bool) map[*ssa.BasicBlock]bool {
	o := make(map[*ssa.BasicBlock]bool, len(m))
	for k, v := range m {
		o[k] = v
	}
	return o
}

// braceSegment returns the operand between the first "{" and the following "}" of a template.
func (t keyTemplate) braceSegment() (string, bool) {
	flat := strings.Join(t.Parts, "")
	// literals are quoted: normalise by removing quotes around literal parts
	var sb strings.Builder
	for _, p := range t.Parts {
		if strings.HasPrefix(p, "\"") {
			var s string
			fmt.Sscanf(p, "%q", &s)
			sb.WriteString(s)
		} else {
			sb.WriteString(p)
		}
	}
	flat = sb.String()
	i := strings.Index(flat, "{")
	if i < 0 {
		return "", false
	}
	j := strings.Index(flat[i+1:], "}")
	if j < 0 {
		return "", false
	}
	return flat[i+1 : i+1+j], true
}

// config classifies a path condition list: "plain", "cluster", "sharded".
func (t keyTemplate) config() string {
	cluster, sharded := "?", "?"
	for _, cnd := range t.Conds {
		neg := strings.HasPrefix(cnd, "!")
		d := strings.TrimPrefix(cnd, "!")
		switch {
		case strings.HasSuffix(d, ".isCluster"):
			if neg {
				cluster = "no"
			} else {
				cluster = "yes"
			}
		case strings.Contains(d, "NumShardedPubSubPartitions > 0"):
			if neg {
				sharded = "no"
			} else {
				sharded = "yes"
			}
		case strings.Contains(d, "useShardedPubSub("):
			if neg {
				sharded = "no"
			} else {
				sharded = "yes"
				cluster = "yes"
			}
		}
	}
	switch {
	case cluster == "no":
		return "plain"
	case sharded == "yes":
		return "sharded"
	case cluster == "yes":
		return "cluster"
	}
	return "unknown(" + strings.Join(t.Conds, ",") + ")"
}

type keyGroup struct {
	name     string
	typ      string
	builders []string
	// clusterImpliesSharded: the constructor rejects cluster shards without partitions
	clusterImpliesSharded bool
	ctor                  string
}

func runC34(c *Ctx) {
	w := c.W
	groups := []keyGroup{
		{name: "stream broker", typ: "RedisBroker", ctor: "NewRedisBroker", builders: []string{"messageChannelID", "historyStreamKey", "historyListKey", "historyMetaKey", "resultCacheKey"}},
		{name: "map broker", typ: "RedisMapBroker", ctor: "NewRedisMapBroker", clusterImpliesSharded: true, builders: []string{"messageChannelID", "buildKey", "resultCacheKey", "cleanupRegistrationKeyForChannel"}},
		{name: "presence manager", typ: "RedisPresenceManager", ctor: "NewRedisPresenceManager", builders: []string{"presenceHashKey", "presenceSetKey", "userSetKey", "userHashKey"}},
	}
	for _, g := range groups {
		if g.clusterImpliesSharded {
			// the constructor must reject isCluster && partitions == 0
			ctor := c.Fn("C34.R1", "centrifuge", g.ctor)
			ok := false
			if ctor != nil {
				EachInstr(ctor, func(in ssa.Instruction) {
					r, isR := in.(*ssa.Return)
					if !isR {
						return
					}
					vals := retVals(r)
					if len(vals) != 2 || isNilConst(vals[1]) {
						return
					}
					cl := Guarded(r, func(gd Guard) bool { return gd.Pol && strings.HasSuffix(D(gd.Cond), ".isCluster") })
					np := Guarded(r, func(gd Guard) bool {
						d := D(gd.Cond)
						return (gd.Pol && strings.Contains(d, "NumShardedPubSubPartitions == 0")) || (!gd.Pol && strings.Contains(d, "NumShardedPubSubPartitions > 0")) || (gd.Pol && strings.Contains(d, "NumShardedPubSubPartitions <= 0"))
					})
					if cl && np {
						ok = true
					}
				})
				c.CheckAt("C34.R1", g.ctor+": a cluster shard without PUB/SUB partitions is rejected", w.Pos(ctor.Pos()), ok, "the "+g.name+"'s cluster keys are tagged with the partition of the channel; consistentIndex(ch, 0) is undefined")
			}
		}
		segs := map[string]map[string]string{} // config -> builder -> segment
		for _, bn := range g.builders {
			name := "(*" + g.typ + ")." + bn
			fn := c.Fn("C34.R1", "centrifuge", name)
			if fn == nil {
				continue
			}
			ts := builderTemplates(fn)
			if !c.Anchor("C34.R1", "templates of "+name, len(ts) >= 2) {
				continue
			}
			seenT := map[string]bool{}
			for _, t := range ts {
				cfg := t.config()
				if k := cfg + "|" + strings.Join(t.Parts, " "); seenT[k] {
					continue
				} else {
					seenT[k] = true
				}
				if g.clusterImpliesSharded && cfg == "cluster" {
					cfg = "sharded"
				}
				seg, has := t.braceSegment()
				if cfg == "plain" {
					continue
				}
				if strings.HasPrefix(cfg, "unknown") {
					// the map broker's messageChannelID non-sharded branch is the non-cluster one
					if g.clusterImpliesSharded && !has {
						continue
					}
					c.CheckAt("C34.R1", name+": path condition classified", w.Pos(fn.Pos()), false, "cannot classify "+cfg)
					continue
				}
				c.CheckAt("C34.R1", name+" ["+cfg+"]: key has a hash tag", w.Pos(fn.Pos()), has, "in cluster mode every key needs a {hash tag}: template "+strings.Join(t.Parts, " "))
				if segs[cfg] == nil {
					segs[cfg] = map[string]string{}
				}
				norm := seg
				switch {
				case strings.Contains(seg, "pubSubPartitionHashTag("):
					// the partition is a function of the channel: name the index function, so that two
					// builders hashing the channel differently do not count as the same tag
					norm = "⟨partition tag of the channel⟩"
					if i := strings.Index(seg, "pubSubPartitionHashTag("); i >= 0 {
						rest := seg[i+len("pubSubPartitionHashTag("):]
						if j := strings.Index(rest, ", "); j >= 0 {
							rest = rest[j+2:]
							if k := strings.Index(rest, "("); k > 0 && rest[:k] != "consistentIndex" {
								norm = "⟨partition tag of the channel via " + rest[:k] + "⟩"
							}
						}
					}
				case seg == "⟨strparam#0⟩":
					norm = "⟨channel⟩"
				}
				// the first brace of the key is the template's own: nothing but the prefix precedes it
				okParam := func(k int) bool { return k >= 1 && strParamIsBraceFreeConst(w, fn, k) }
				c.CheckAt("C34.R1", name+" ["+cfg+"]: only the configured prefix and literals precede the hash tag", w.Pos(fn.Pos()), t.prefixOnlyBeforeBrace(okParam), strings.Join(t.Parts, " "))
				segs[cfg][name] = norm
			}
		}
		cfgs := []string{"cluster", "sharded"}
		if g.clusterImpliesSharded {
			cfgs = []string{"sharded"}
		}
		if g.name == "presence manager" {
			cfgs = []string{"cluster"}
		}
		for _, cfg := range cfgs {
			m := segs[cfg]
			distinct := map[string][]string{}
			for b, sg := range m {
				distinct[sg] = append(distinct[sg], b)
			}
			var desc []string
			for sg, bs := range distinct {
				sort.Strings(bs)
				desc = append(desc, sg+" ← "+strings.Join(bs, ","))
			}
			sort.Strings(desc)
			c.CheckAt("C34.R1", g.name+" ["+cfg+"]: all keys and the PUB/SUB channel of one script call share the hash-tag operand", "", len(distinct) == 1 && len(m) == len(g.builders),
				"keys with different hash tags land in different slots: the script fails with CROSSSLOT ("+strings.Join(desc, " ; ")+")")
			for sg := range distinct {
				if sg == "⟨channel⟩" {
					// R3: raw channel as hash tag
					guarded := false
					c.CheckAt("C34.R3", g.name+" ["+cfg+"]: the raw channel used as hash tag cannot start with '}'", "", guarded,
						"Redis takes the text between the first '{' and the next '}' as the hash tag and hashes the whole key when that text is empty: for a channel that starts with '}' the tag is empty, the keys of one script call hash to different slots and the script fails with CROSSSLOT")
				} else if strings.HasPrefix(sg, "⟨partition tag of the channel") {
					c.CheckAt("C34.R3", g.name+" ["+cfg+"]: the partition tag is never empty and holds no '{', '}' or '.'", "", partitionTagsClean(c), "strconv.Itoa of an index, or a precomputed tag")
				} else {
					c.CheckAt("C34.R3", g.name+" ["+cfg+"]: hash tag operand recognised", "", false, sg)
				}
			}
		}
		// R3: a prefix with '{' would move the first brace before the template's
		ctor := w.Func("centrifuge", g.ctor)
		if ctor != nil {
			validated := false
			for _, f := range WithClosures(ctor) {
				EachInstr(f, func(in ssa.Instruction) {
					if call, ok := in.(*ssa.Call); ok {
						if f := call.Call.StaticCallee(); f != nil && f.Pkg != nil && f.Pkg.Pkg.Path() == "strings" && len(call.Call.Args) == 2 && strings.HasSuffix(D(call.Call.Args[0]), ".Prefix") {
							if sv, isS := constStrOf(call.Call.Args[1]); isS && strings.Contains(sv, "{") {
								validated = true
							}
							if bv, isB := constIntOf(call.Call.Args[1]); isB && bv == '{' {
								validated = true
							}
						}
					}
				})
			}
			c.CheckAt("C34.R3", g.ctor+": a key prefix containing '{' is rejected", w.Pos(ctor.Pos()), validated,
				"with a '{' in the prefix Redis takes the hash tag from the prefix and the literal infix (\".stream.\", \".client.\", …) instead of the template's {tag}: the keys of one script call hash to different slots")
		}
	}
	// R2 extractChannel inverts messageChannelID
	for _, typ := range []string{"RedisBroker", "RedisMapBroker"} {
		ec := w.Func("centrifuge", "(*"+typ+").extractChannel")
		if typ == "RedisBroker" && !c.Anchor("C34.R2", "(*RedisBroker).extractChannel", ec != nil) {
			continue
		}
		if ec == nil {
			continue
		}
		okPrefix := len(CallsIn(ec, false, w.calleeIs("strings.TrimPrefix"))) > 0
		okDot, okBrace := false, false
		EachInstr(ec, func(in ssa.Instruction) {
			if call, ok := in.(*ssa.Call); ok {
				// first dot: strings.Index(ch, ".") / strings.IndexByte(ch, '.') / strings.Cut(ch, ".")
				if f := call.Call.StaticCallee(); f != nil && len(call.Call.Args) == 2 && (f.Name() == "Index" || f.Name() == "IndexByte" || f.Name() == "IndexRune" || f.Name() == "Cut") {
					if sv, isS := constStrOf(call.Call.Args[1]); isS && sv == "." {
						okDot = true
					}
					if bv, isB := constIntOf(call.Call.Args[1]); isB && bv == '.' {
						okDot = true
					}
				}
			}
			if b, ok := in.(*ssa.BinOp); ok && (b.Op == token.NEQ || b.Op == token.EQL) {
				if v, isC := constIntOf(b.Y); isC && (v == '{' || v == '}') {
					okBrace = true
				}
			}
		})
		pre := "(*centrifuge." + typ + ").extractChannel: "
		c.CheckAt("C34.R2", pre+"strips the message prefix", w.Pos(ec.Pos()), okPrefix, "messageChannelID prepends messagePrefix")
		c.CheckAt("C34.R2", pre+"sharded form {tag}.channel is split at the first dot", w.Pos(ec.Pos()), okDot, "messageChannelID writes \"{tag}.\" before the channel; the tag holds no dot")
		if typ == "RedisBroker" {
			c.CheckAt("C34.R2", pre+"cluster form {channel} is unwrapped by its braces", w.Pos(ec.Pos()), okBrace, "messageChannelID wraps the channel in braces")
		}
	}
}

// prefixOnlyBeforeBrace: every part before the first literal containing '{' is the configured prefix
// (a field named Prefix / messagePrefix) or a literal.
func (t keyTemplate) prefixOnlyBeforeBrace(okParam func(k int) bool) bool {
	for _, p := range t.Parts {
		if strings.HasPrefix(p, "\"") {
			if strings.Contains(p, "{") {
				return true
			}
			continue
		}
		if strings.HasSuffix(p, "refix⟩") {
			continue
		}
		var k int
		if n, _ := fmt.Sscanf(p, "⟨strparam#%d⟩", &k); n == 1 && okParam(k) {
			continue // e.g. the literal infix every caller of buildKey passes
		}
		if strings.HasPrefix(p, "⟨φ(\"") && !strings.Contains(p, "{") && !strings.Contains(p, "arg:") && !strings.Contains(p, "(*") {
			continue // a choice between brace-free literals
		}
		return false
	}
	return false
}

// partitionTagsClean: pubSubPartitionHashTag returns strconv.Itoa(idx) or an element of the
// precomputed table, whose literals hold none of '{', '}', '.' and are non-empty.
func partitionTagsClean(c *Ctx) bool {
	w := c.W
	for _, typ := range []string{"RedisBroker", "RedisMapBroker"} {
		fn := w.Func("centrifuge", "(*"+typ+").pubSubPartitionHashTag")
		if fn == nil {
			return false
		}
		ok := true
		EachInstr(fn, func(in ssa.Instruction) {
			r, isR := in.(*ssa.Return)
			if !isR {
				return
			}
			for _, v := range retVals(r) {
				d := D(v)
				if !(strings.Contains(d, "Itoa(") || strings.Contains(d, "partitionTags[")) {
					ok = false
				}
			}
		})
		if !ok {
			return false
		}
	}
	f := w.File("internal/redispartition/precomputed.go")
	if f == nil {
		return false
	}
	n, bad := 0, 0
	ast.Inspect(f, func(nd ast.Node) bool {
		if bl, ok := nd.(*ast.BasicLit); ok && bl.Kind == token.STRING {
			sv, err := strconv.Unquote(bl.Value)
			n++
			if err != nil || sv == "" || strings.ContainsAny(sv, "{}.") {
				bad++
			}
		}
		return true
	})
	return n >= 16 && bad == 0
}

func runC38(c *Ctx) {
	w := c.W
	li := w.Locks()
	bc := c.Fn("C38.R1", "centrifuge", "(*channelMedium).broadcast")
	if bc != nil {
		n := 0
		for _, ci := range w.Callers(bc) {
			n++
			held := li.HeldAt(ci)
			caller := shortFuncName(ci.Parent())
			ok := held.Holds("channelMedium.broadcastMu", true) || caller == "channelMedium.waitSendPub"
			c.Check("C38.R1", ci, "channelMedium.broadcast under broadcastMu or from the queue writer", ok, "two concurrent broadcasts reorder a channel's publications and race latestPublication (held: "+held.String()+")")
		}
		c.Floor("C38.R1", 3)
		// the queue writer is a single goroutine started once
		nm := c.Fn("C38.R1", "centrifuge", "newChannelMedium")
		if nm != nil {
			gos := 0
			EachInstr(nm, func(in ssa.Instruction) {
				if g, ok := in.(*ssa.Go); ok && calleeName(g.Common()) == "channelMedium.writer" {
					gos++
					c.Check("C38.R1", g, "queue writer started only when the queue is enabled", GuardedBy(g, func(gd Guard) bool { return gd.Pol && strings.HasSuffix(D(gd.Cond), "enableQueue") }), "without a queue, broadcasts are direct under broadcastMu")
				}
			})
			c.CheckAt("C38.R1", "newChannelMedium: exactly one queue writer goroutine", w.Pos(nm.Pos()), gos == 1, fmt.Sprintf("%d go statements", gos))
		}
		for _, f := range w.AllFuncs {
			for _, a := range FieldAccesses(f, "channelMedium", "latestPublication") {
				c.Check("C38.R1", a.In, "latestPublication touched only inside broadcast", shortFuncName(f) == "channelMedium.broadcast", "the latest publication is the delta base of the next broadcast; it must change only in broadcast order")
			}
		}
		// R2 sentinel
		okSent := false
		EachInstr(bc, func(in ssa.Instruction) {
			st, ok := in.(*ssa.Store)
			if !ok {
				return
			}
			if fa, ok := st.Addr.(*ssa.FieldAddr); ok && fieldAddrIs(fa, "Publication", "Offset") {
				if cv, isC := st.Val.(*ssa.Const); isC && cv.Value != nil && cv.Value.ExactString() == "18446744073709551615" {
					if GuardedBy(st, func(g Guard) bool { return g.Pol && strings.HasSuffix(D(g.Cond), "isInsufficientState") }) {
						okSent = true
					}
				}
			}
		})
		c.CheckAt("C38.R2", "(*centrifuge.channelMedium).broadcast: insufficient-state sentinel has Offset = MaxUint64", w.Pos(bc.Pos()), okSent, "positioned subscribers treat it as a gap and end with insufficient state")
	}
	wp := w.Func("centrifuge", "(*Client).writePublicationUpdatePosition")
	if wp != nil {
		okDrop := false
		EachInstr(wp, func(in ssa.Instruction) {
			ifi, ok := in.(*ssa.If)
			if !ok {
				return
			}
			b, ok := ifi.Cond.(*ssa.BinOp)
			if !ok || b.Op != token.EQL || !strings.HasSuffix(D(b.X), "Publication.Offset") {
				return
			}
			if cv, isC := b.Y.(*ssa.Const); !isC || cv.Value == nil || cv.Value.ExactString() != "18446744073709551615" {
				return
			}
			bad := PathQ{Goal: instrPred(w.calleeIs("Client.writeEncodedPushData"))}.FromBlock(ifi.Block().Succs[0])
			okDrop = bad == nil
		})
		c.CheckAt("C38.R2", "(*centrifuge.Client).writePublicationUpdatePosition: the sentinel is never written to a non-positioned subscriber", w.Pos(wp.Pos()), okDrop, "the sentinel is not a publication")
	}
	// R3: the insufficient-state marker is never dropped: every path through
	// broadcastInsufficientState (callees inlined) hands it to the queue or broadcasts it.
	if bis := c.Fn("C38.R3", "centrifuge", "(*channelMedium).broadcastInsufficientState"); bis != nil {
		deliver := w.wrapMust(orPred(w.calleeIs("channelMedium.broadcast"), w.calleeIs("publicationQueue.Add")), 3)
		bad := PathQ{Stop: deliver, Goal: isReturn}.FromEntry(bis)
		c.CheckAt("C38.R3", "(*centrifuge.channelMedium).broadcastInsufficientState: the marker is enqueued or broadcast on every path", w.Pos(bis.Pos()), bad == nil,
			"publications may be dropped when the queue is over its byte limit, the insufficient-state marker may not: a detected position loss that is dropped leaves the positioned subscribers on a stale position (and the check time was refreshed, so it is not re-detected soon)"+instrAt(w, bad))
	}
	cp := c.Fn("C38.R3", "centrifuge", "(*channelMedium).CheckPosition")
	if cp != nil {
		calls := CallsIn(cp, true, w.calleeIs("channelMedium.broadcastInsufficientState"))
		if c.Anchor("C38.R3", "broadcastInsufficientState call in CheckPosition", len(calls) >= 1) {
			for _, ci := range calls {
				okG := Guarded(ci, func(g Guard) bool {
					d := D(g.Cond)
					return (strings.Contains(d, "checkPositionWithRetry(") || strings.Contains(d, "checkPositionOnce(") || strings.Contains(d, "validPosition") || strings.Contains(d, "#1")) && !g.Pol
				})
				c.Check("C38.R3", ci, "insufficient state broadcast exactly for an invalid position", okG, "a detected position loss ends the affected positioned subscriptions; guards: "+strings.Join(GuardStrings(ci), " && "))
			}
		}
	}
}

// derivesFromCall: v is computed (through phis, appends, slices, extracts, field reads and
// conversions by module functions) from the result of a call matching pred.
func derivesFromCall(v ssa.Value, pred CallPred, depth int, seen map[ssa.Value]bool) bool {
	if v == nil || seen[v] || depth > 12 {
		return false
	}
	seen[v] = true
	switch x := v.(type) {
	case *ssa.Call:
		if pred(x) {
			return true
		}
		for _, a := range x.Call.Args {
			if derivesFromCall(a, pred, depth+1, seen) {
				return true
			}
		}
	case *ssa.Phi:
		for _, e := range x.Edges {
			if derivesFromCall(e, pred, depth+1, seen) {
				return true
			}
		}
	case *ssa.Extract:
		return derivesFromCall(x.Tuple, pred, depth+1, seen)
	case *ssa.Field:
		return derivesFromCall(x.X, pred, depth+1, seen)
	case *ssa.FieldAddr:
		return derivesFromCall(x.X, pred, depth+1, seen)
	case *ssa.Slice:
		return derivesFromCall(x.X, pred, depth+1, seen)
	case *ssa.Index:
		return derivesFromCall(x.X, pred, depth+1, seen)
	case *ssa.IndexAddr:
		return derivesFromCall(x.X, pred, depth+1, seen)
	case *ssa.Next:
		return derivesFromCall(x.Iter, pred, depth+1, seen)
	case *ssa.Range:
		return derivesFromCall(x.X, pred, depth+1, seen)
	case *ssa.ChangeType:
		return derivesFromCall(x.X, pred, depth+1, seen)
	case *ssa.Alloc:
		for _, r := range *x.Referrers() {
			switch u := r.(type) {
			case *ssa.Store:
				if u.Addr == x && derivesFromCall(u.Val, pred, depth+1, seen) {
					return true
				}
			case *ssa.IndexAddr, *ssa.FieldAddr:
				for _, rr := range *u.(ssa.Value).Referrers() {
					if st, ok := rr.(*ssa.Store); ok && st.Addr == u.(ssa.Value) && derivesFromCall(st.Val, pred, depth+1, seen) {
						return true
					}
				}
			}
		}
	case *ssa.UnOp:
		if x.Op == token.MUL {
			if sv := singleStore(x.X); sv != nil {
				return derivesFromCall(sv, pred, depth+1, seen)
			}
			if al, ok := x.X.(*ssa.Alloc); ok {
				for _, r := range *al.Referrers() {
					if st, ok := r.(*ssa.Store); ok && st.Addr == al && derivesFromCall(st.Val, pred, depth+1, seen) {
						return true
					}
				}
			}
		}
		return derivesFromCall(x.X, pred, depth+1, seen)
	}
	return false
}

// concatParts flattens a string concatenation into template parts.
func concatParts(v ssa.Value, depth int) []string {
	if depth > 16 {
		return []string{"⟨" + D(v) + "⟩"}
	}
	switch x := v.(type) {
	case *ssa.BinOp:
		if x.Op == token.ADD {
			return append(concatParts(x.X, depth+1), concatParts(x.Y, depth+1)...)
		}
	case *ssa.ChangeType:
		return concatParts(x.X, depth+1)
	case *ssa.Convert:
		return concatParts(x.X, depth+1)
	}
	if sv, ok := constStrOf(v); ok {
		return []string{fmt.Sprintf("%q", sv)}
	}
	return []string{"⟨" + operandName(v) + "⟩"}
}

// operandName renders a template operand. String parameters are named by their role — their position
// among the function's string-typed parameters — so that renaming a parameter changes nothing.
func operandName(v ssa.Value) string {
	if p, ok := v.(*ssa.Parameter); ok && p.Parent() != nil {
		k := 0
		for _, fp := range p.Parent().Params {
			if b, isB := fp.Type().Underlying().(*types.Basic); isB && b.Kind() == types.String {
				if fp == p {
					return fmt.Sprintf("strparam#%d", k)
				}
				k++
			}
		}
	}
	d := D(v)
	// a parameter seen through its single-store cell
	return d
}

// strParamIsBraceFreeConst: every caller passes a brace-free string constant for the k-th string parameter.
func strParamIsBraceFreeConst(w *World, fn *ssa.Function, k int) bool {
	idx, n := -1, 0
	for i, fp := range fn.Params {
		if b, isB := fp.Type().Underlying().(*types.Basic); isB && b.Kind() == types.String {
			if n == k {
				idx = i
			}
			n++
		}
	}
	callers := w.Callers(fn)
	if idx < 0 || len(callers) == 0 {
		return false
	}
	for _, ci := range callers {
		args := ci.Common().Args
		if idx >= len(args) {
			return false
		}
		s, ok := constStrOf(args[idx])
		if !ok || strings.ContainsAny(s, "{}") {
			return false
		}
	}
	return true
}
