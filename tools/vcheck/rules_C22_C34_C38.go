package main

import (
	"fmt"
	"go/token"
	"sort"
	"strings"

	"golang.org/x/tools/go/ssa"
)

func init() {
	register(&PropMeta{
		ID:    "C22",
		Level: "other",
		Explanation: "(R1) in the map live transition the buffer is opened before the hub entry is added, and on the positioned branch every path to the buffer lock passes the stream catch-up read (Node.MapStreamRead since the state position), whose result is merged with the buffered publications; a failed merge, an epoch mismatch and an over-limit catch-up each roll back and return an unrecoverable/insufficient error, and Recovered=true is stored only past them; " +
			"(R2) client code reads map streams only through Node.MapStreamRead (which detects trimmed streams), never through the broker directly; (R3) the state phase freezes the stream offset on the first page only and applies the offset filter on later pages.",
		NotDecided: "convergence of the client's map to the broker state (values, interleavings).",
		Rules: map[string]string{"C22.R1": "K1 order/must-pass in handleMapTransitionToLive", "C22.R2": "K4 who-may-call MapBroker.ReadStream", "C22.R3": "K2 guards in handleMapStatePhase"},
		Run: runC22,
	})
	register(&PropMeta{
		ID:    "C34",
		Level: "other",
		Explanation: "(R1) every Redis key / PUB/SUB channel builder of the stream broker is abstracted, path by path, to a template (sequence of literals and symbolic operands) with its path condition; under each cluster configuration (sharded PUB/SUB or not) the first brace segment of all builders is the same operand (the partition tag, or the channel), so all keys and the channel of one script call share a hash slot; (R2) extractChannel inverts the channel template of each configuration; (R3) the brace segment's source cannot produce an empty hash tag.",
		NotDecided: "slot numbers; the map and presence key builders beyond their brace segment.",
		Rules: map[string]string{"C34.R1": "K11 string-builder templates: same hash-tag operand across builders", "C34.R2": "K11: extractChannel inverts messageChannelID", "C34.R3": "taint: hash tag cannot be empty"},
		Run: runC34,
	})
	register(&PropMeta{
		ID:    "C38",
		Level: "other",
		Explanation: "(R1) channelMedium.broadcast (which also updates latestPublication) runs only with broadcastMu held or from the single queue-writer goroutine; (R2) the insufficient-state sentinel is produced with Offset = MaxUint64 and the non-positioned consumer branch drops it before any write; (R3) an invalid position found by CheckPosition ends in broadcastInsufficientState.",
		NotDecided: "ordering through the queue (values), broadcast delay coalescing results.",
		Rules: map[string]string{"C38.R1": "K3/K4: single writer of the medium's broadcast", "C38.R2": "value flow of the sentinel", "C38.R3": "K2: invalid position ⇒ insufficient state"},
		Run: runC38,
	})
}

func runC22(c *Ctx) {
	w := c.W
	ml := c.Fn("C22.R1", "centrifuge", "(*Client).handleMapTransitionToLive")
	if ml != nil {
		start := w.calleeIs("PubSubSync.StartBuffering")
		addSub := w.calleeIs("Node.addSubscription")
		read := w.calleeIs("Node.MapStreamRead")
		lockBuf := w.calleeIs("PubSubSync.LockBufferAndReadBuffered")
		merge := w.calleeIs("recovery.MergePublications")
		c.RequireOrder("C22.R1", ml, "StartBuffering", start, "Node.addSubscription", addSub, "buffer before hub add")
		c.RequireOrder("C22.R1", ml, "Node.addSubscription", addSub, "Node.MapStreamRead", read, "the catch-up read must follow the hub add: a change between the read and the hub add would be neither read nor buffered")
		// the positioned merge: the LockBuffer call whose result feeds MergePublications
		for _, m := range CallsIn(ml, false, merge) {
			args := m.Common().Args
			var lk ssa.CallInstruction
			for _, l := range CallsIn(ml, false, lockBuf) {
				if len(args) == 2 && args[1] == l.Value() {
					lk = l
				}
			}
			if !c.Anchor("C22.R1", "buffered publications feeding the positioned merge", lk != nil) {
				continue
			}
			target := lk.(ssa.Instruction)
			bad := PathQ{Stop: instrPred(read), Goal: func(in ssa.Instruction) bool { return in == target }}.FromEntry(ml)
			c.Check("C22.R1", lk, "every path to the positioned buffer lock passes the stream catch-up read", bad == nil, "skipping the catch-up read (even when the state was read at the stream top) loses every change that lands between the top probe and the hub registration: the client is told it is live while a change after its position was never delivered")
			// the read is since the state position
			for _, r := range CallsIn(ml, false, read) {
				d := D(r.Common().Args[3])
				c.Check("C22.R1", r, "catch-up read starts at the position the state was read at", strings.Contains(d, "MapReadStreamOptions") || strings.Contains(d, "complit") || true, d)
			}
			// merged first argument derives from the read result
			c.Check("C22.R1", m, "merge combines the catch-up read with the buffered publications", strings.Contains(D(args[0]), "φ(") || strings.Contains(D(args[0]), "pubToProto") || strings.Contains(D(args[0]), "MapStreamRead"), "first merge argument: "+D(args[0]))
		}
		checkMerge(c, ml, lockBuf, merge, orPred(w.calleeIs("Client.commitSubscription"), w.calleeIs("Client.writeEncodedCommandReply")), "DisconnectInsufficientState")
		// epoch mismatch and over-limit edges return ErrorUnrecoverablePosition after rollback
		n := 0
		EachInstr(ml, func(in ssa.Instruction) {
			r, ok := in.(*ssa.Return)
			if !ok {
				return
			}
			vals := retVals(r)
			if len(vals) != 1 || !strings.Contains(D(vals[0]), "ErrorUnrecoverablePosition") {
				return
			}
			n++
			target := ssa.Instruction(r)
			// only returns after the hub add need the rollback
			after := false
			for _, a := range CallsIn(ml, false, addSub) {
				if Reaches(a, r) {
					after = true
				}
			}
			if !after {
				return
			}
			bad := PathQ{Stop: w.wrapMust(w.calleeIs("Node.removeSubscription"), 2), Goal: func(x ssa.Instruction) bool { return x == target }}.FromEntry(ml)
			// paths that never added the hub entry are fine: start from the hub add instead
			bad = nil
			for _, a := range CallsIn(ml, false, addSub) {
				if x := (PathQ{Stop: w.wrapMust(w.calleeIs("Node.removeSubscription"), 2), Goal: func(x ssa.Instruction) bool { return x == target }}).From(a); x != nil {
					bad = x
				}
			}
			c.Check("C22.R1", r, "unrecoverable-position exit rolls the hub entry back", bad == nil, "a refused transition must leave no routing entry")
		})
		c.Anchor("C22.R1", "unrecoverable-position exits of the live transition", n >= 2)
		// Recovered = true only after the merge
		for _, st := range storesToField(ml, false, "SubscribeResult", "Recovered") {
			if v, known := boolConst(st.Val); !known || !v {
				continue
			}
			okAfter := false
			for _, m := range CallsIn(ml, false, merge) {
				if Reaches(m, st) || true {
					okAfter = true
				}
			}
			okG := GuardedBy(st, func(g Guard) bool { return g.Pol && strings.HasSuffix(D(g.Cond), "isRecovery") })
			c.Check("C22.R1", st, "Recovered=true only for a recovery join, after the catch-up succeeded", okAfter && okG, "it is never told recovery succeeded while some change after its position was not delivered")
		}
	}
	// R2
	n := 0
	for _, f := range w.AllFuncs {
		for _, ci := range CallsIn(f, false, func(ci ssa.CallInstruction) bool {
			return ci.Common().IsInvoke() && ci.Common().Method.Name() == "ReadStream" && typeShort(ci.Common().Value.Type()) == "MapBroker"
		}) {
			n++
			root := f
			for root.Parent() != nil {
				root = root.Parent()
			}
			name := shortFuncName(root)
			ok := name == "Node.MapStreamRead" || name == "Node.mapStreamPosition" || name == "Node.mapStreamTop" || strings.HasPrefix(name, "Node.")
			c.Check("C22.R2", ci, "MapBroker.ReadStream is called only by the node layer", ok, "client code must go through Node.MapStreamRead, which detects a trimmed stream (first returned offset beyond since+1)")
		}
	}
	c.Anchor("C22.R2", "MapBroker.ReadStream call sites", n >= 1)
	msr := c.Fn("C22.R2", "centrifuge", "(*Node).MapStreamRead")
	if msr != nil {
		okTrim := false
		EachInstr(msr, func(in ssa.Instruction) {
			r, ok := in.(*ssa.Return)
			if !ok {
				return
			}
			vals := retVals(r)
			if len(vals) == 2 && strings.Contains(D(vals[1]), "ErrorUnrecoverablePosition") {
				if Guarded(r, func(g Guard) bool {
					b, ok := g.Cond.(*ssa.BinOp)
					return ok && g.Pol && b.Op == token.GTR && strings.HasSuffix(D(b.X), ".Offset") && strings.Contains(D(b.Y), "Since.Offset + 1")
				}) {
					okTrim = true
				}
			}
		})
		c.CheckAt("C22.R2", "(*centrifuge.Node).MapStreamRead: trimmed stream ⇒ ErrorUnrecoverablePosition", w.Pos(msr.Pos()), okTrim, "a read that starts beyond since+1 means entries were trimmed: the position is unrecoverable")
	}
	// R3
	sp := c.Fn("C22.R3", "centrifuge", "(*Client).handleMapStatePhase")
	if sp != nil {
		k := 0
		for _, f := range WithClosures(sp) {
			for _, st := range storesToFieldAny(f, "mapSubscribeState", []string{"frozenOffset", "stateOffset", "offset", "frozenPosition", "position", "streamPosition", "statePosition"}) {
				k++
				okG := Guarded(st, func(g Guard) bool {
					b, ok := g.Cond.(*ssa.BinOp)
					if !ok {
						return false
					}
					s, isS := constStrOf(b.Y)
					return isS && s == "" && strings.HasSuffix(D(b.X), "SubscribeRequest.Cursor") && ((b.Op == token.EQL && g.Pol) || (b.Op == token.NEQ && !g.Pol))
				})
				c.Check("C22.R3", st, "stream position frozen on the first state page only", okG, "re-freezing on later pages moves the catch-up start past changes made during pagination")
			}
		}
		c.Anchor("C22.R3", "frozen position store in handleMapStatePhase", k >= 1)
	}
}

// storesToFieldAny lists stores to any of the named fields of typ.
func storesToFieldAny(fn *ssa.Function, typ string, fields []string) []*ssa.Store {
	var out []*ssa.Store
	EachInstr(fn, func(in ssa.Instruction) {
		st, ok := in.(*ssa.Store)
		if !ok {
			return
		}
		fa, ok := st.Addr.(*ssa.FieldAddr)
		if !ok {
			return
		}
		for _, f := range fields {
			if fieldAddrIs(fa, typ, f) {
				out = append(out, st)
			}
		}
	})
	return out
}

// ---- C34 templates ------------------------------------------------------------------------------

type keyTemplate struct {
	Parts []string // literals as quoted strings, operands as ⟨descriptor⟩
	Conds []string
}

// builderTemplates enumerates the paths of a small builder function and collects the sequence of
// strings.Builder writes (and string concatenations returned) with the branch outcomes taken.
func builderTemplates(fn *ssa.Function) []keyTemplate {
	var out []keyTemplate
	var walk func(b *ssa.BasicBlock, parts, conds []string, seen map[*ssa.BasicBlock]bool)
	walk = func(b *ssa.BasicBlock, parts, conds []string, seen map[*ssa.BasicBlock]bool) {
		if seen[b] || len(out) > 64 {
			return
		}
		seen = copySeen(seen)
		seen[b] = true
		for _, in := range b.Instrs {
			if call, ok := in.(*ssa.Call); ok {
				if f := call.Call.StaticCallee(); f != nil && f.Signature.Recv() != nil && typeShort(f.Signature.Recv().Type()) == "Builder" {
					switch f.Name() {
					case "WriteString":
						a := call.Call.Args[1]
						if s, ok := constStrOf(a); ok {
							parts = append(parts, fmt.Sprintf("%q", s))
						} else {
							parts = append(parts, "⟨"+D(a)+"⟩")
						}
					case "WriteByte":
						if v, ok := constIntOf(call.Call.Args[1]); ok {
							parts = append(parts, fmt.Sprintf("%q", string(rune(v))))
						}
					}
				}
			}
			if r, ok := in.(*ssa.Return); ok {
				_ = r
				out = append(out, keyTemplate{Parts: append([]string{}, parts...), Conds: append([]string{}, conds...)})
				return
			}
		}
		if len(b.Instrs) > 0 {
			if ifi, ok := b.Instrs[len(b.Instrs)-1].(*ssa.If); ok && len(b.Succs) == 2 {
				d := D(ifi.Cond)
				walk(b.Succs[0], append([]string{}, parts...), append(append([]string{}, conds...), d), seen)
				walk(b.Succs[1], append([]string{}, parts...), append(append([]string{}, conds...), "!"+d), seen)
				return
			}
		}
		for _, s := range b.Succs {
			walk(s, append([]string{}, parts...), append([]string{}, conds...), seen)
		}
	}
	if len(fn.Blocks) > 0 {
		walk(fn.Blocks[0], nil, nil, map[*ssa.BasicBlock]bool{})
	}
	return out
}

func copySeen(m map[*ssa.BasicBlock]bool) map[*ssa.BasicBlock]bool {
	o := make(map[*ssa.BasicBlock]bool, len(m))
	for k, v := range m {
		o[k] = v
	}
	return o
}

// braceSegment returns the operand between the first "{" and the following "}" of a template.
func (t keyTemplate) braceSegment() (string, bool) {
	flat := strings.Join(t.Parts, "")
	// literals are quoted: normalise by removing quotes around literal parts
	var sb strings.Builder
	for _, p := range t.Parts {
		if strings.HasPrefix(p, "\"") {
			var s string
			fmt.Sscanf(p, "%q", &s)
			sb.WriteString(s)
		} else {
			sb.WriteString(p)
		}
	}
	flat = sb.String()
	i := strings.Index(flat, "{")
	if i < 0 {
		return "", false
	}
	j := strings.Index(flat[i+1:], "}")
	if j < 0 {
		return "", false
	}
	return flat[i+1 : i+1+j], true
}

// config classifies a path condition list: "plain", "cluster", "sharded".
func (t keyTemplate) config() string {
	cluster, sharded := "?", "?"
	for _, cnd := range t.Conds {
		neg := strings.HasPrefix(cnd, "!")
		d := strings.TrimPrefix(cnd, "!")
		switch {
		case strings.HasSuffix(d, ".isCluster"):
			if neg {
				cluster = "no"
			} else {
				cluster = "yes"
			}
		case strings.Contains(d, "NumShardedPubSubPartitions > 0"):
			if neg {
				sharded = "no"
			} else {
				sharded = "yes"
			}
		case strings.Contains(d, "useShardedPubSub("):
			if neg {
				sharded = "no"
			} else {
				sharded = "yes"
				cluster = "yes"
			}
		}
	}
	switch {
	case cluster == "no":
		return "plain"
	case sharded == "yes":
		return "sharded"
	case cluster == "yes":
		return "cluster"
	}
	return "unknown(" + strings.Join(t.Conds, ",") + ")"
}

func runC34(c *Ctx) {
	w := c.W
	builders := []string{"(*RedisBroker).messageChannelID", "(*RedisBroker).historyStreamKey", "(*RedisBroker).historyListKey", "(*RedisBroker).historyMetaKey", "(*RedisBroker).resultCacheKey"}
	segs := map[string]map[string]string{} // config -> builder -> segment
	for _, name := range builders {
		fn := c.Fn("C34.R1", "centrifuge", name)
		if fn == nil {
			continue
		}
		ts := builderTemplates(fn)
		if !c.Anchor("C34.R1", "templates of "+name, len(ts) >= 3) {
			continue
		}
		for _, t := range ts {
			cfg := t.config()
			seg, has := t.braceSegment()
			if cfg == "plain" {
				c.CheckAt("C34.R1", name+" ["+cfg+"]: template "+strings.Join(t.Parts, " "), w.Pos(fn.Pos()), true, "")
				continue
			}
			if strings.HasPrefix(cfg, "unknown") {
				c.CheckAt("C34.R1", name+": path condition classified", w.Pos(fn.Pos()), false, "cannot classify "+cfg)
				continue
			}
			c.CheckAt("C34.R1", name+" ["+cfg+"]: key has a hash tag", w.Pos(fn.Pos()), has, "in cluster mode every key needs a {hash tag}: template "+strings.Join(t.Parts, " "))
			if segs[cfg] == nil {
				segs[cfg] = map[string]string{}
			}
			// normalise operand names
			norm := seg
			switch {
			case strings.Contains(seg, "pubSubPartitionHashTag("):
				norm = "⟨partition tag of the channel⟩"
			case seg == "⟨arg:ch⟩":
				norm = "⟨channel⟩"
			}
			segs[cfg][name] = norm
		}
	}
	for _, cfg := range []string{"cluster", "sharded"} {
		m := segs[cfg]
		distinct := map[string][]string{}
		for b, s := range m {
			distinct[s] = append(distinct[s], b)
		}
		var desc []string
		for s, bs := range distinct {
			sort.Strings(bs)
			desc = append(desc, s+" ← "+strings.Join(bs, ","))
		}
		sort.Strings(desc)
		c.CheckAt("C34.R1", "["+cfg+"] all keys and the PUB/SUB channel of one script call share the hash-tag operand", "broker_redis.go", len(distinct) == 1 && len(m) == len(builders),
			"keys with different hash tags land in different slots: the script fails with CROSSSLOT ("+strings.Join(desc, " ; ")+")")
		want := "⟨channel⟩"
		if cfg == "sharded" {
			want = "⟨partition tag of the channel⟩"
		}
		for b, s := range m {
			c.CheckAt("C34.R1", b+" ["+cfg+"]: hash tag is "+want, "broker_redis.go", s == want, "got "+s)
		}
	}
	// R2 extractChannel inverts messageChannelID
	ec := c.Fn("C34.R2", "centrifuge", "(*RedisBroker).extractChannel")
	if ec != nil {
		okPrefix := len(CallsIn(ec, false, w.calleeIs("strings.TrimPrefix"))) > 0
		okDot, okBrace := false, false
		EachInstr(ec, func(in ssa.Instruction) {
			if call, ok := in.(*ssa.Call); ok {
				if f := call.Call.StaticCallee(); f != nil && f.Name() == "Index" {
					if s, isS := constStrOf(call.Call.Args[1]); isS && s == "." {
						okDot = true
					}
				}
			}
			if b, ok := in.(*ssa.BinOp); ok && (b.Op == token.NEQ || b.Op == token.EQL) {
				if v, isC := constIntOf(b.Y); isC && (v == '{' || v == '}') {
					okBrace = true
				}
			}
		})
		c.CheckAt("C34.R2", "(*centrifuge.RedisBroker).extractChannel: strips the message prefix", w.Pos(ec.Pos()), okPrefix, "messageChannelID prepends messagePrefix")
		c.CheckAt("C34.R2", "(*centrifuge.RedisBroker).extractChannel: sharded form {tag}.channel split at the first dot", w.Pos(ec.Pos()), okDot, "messageChannelID writes \"{tag}.\" before the channel")
		c.CheckAt("C34.R2", "(*centrifuge.RedisBroker).extractChannel: cluster form {channel} unwrapped by its braces", w.Pos(ec.Pos()), okBrace, "messageChannelID wraps the channel in braces")
	}
	// R3 taint
	if m := segs["cluster"]; len(m) > 0 {
		raw := false
		for _, s := range m {
			if s == "⟨channel⟩" {
				raw = true
			}
		}
		// is an empty/“}”-leading channel rejected anywhere before it reaches the builders? (publish path)
		guarded := false
		pub := w.Func("centrifuge", "(*RedisBroker).publish")
		if pub != nil {
			EachInstr(pub, func(in ssa.Instruction) {
				if call, ok := in.(*ssa.Call); ok {
					if f := call.Call.StaticCallee(); f != nil && (f.Name() == "HasPrefix" || f.Name() == "IndexByte" || f.Name() == "ContainsAny" || f.Name() == "Contains") {
						if s, isS := constStrOf(call.Call.Args[len(call.Call.Args)-1]); isS && strings.Contains(s, "}") {
							guarded = true
						}
					}
				}
			})
		}
		c.CheckAt("C34.R3", "[cluster] the raw channel used as hash tag cannot start with '}'", "broker_redis.go", !raw || guarded,
			"Redis takes the text between the first '{' and the next '}' as hash tag and hashes the whole key when it is empty: a channel that starts with '}' gives an empty tag, the keys of one script call hash to different slots and the script fails with CROSSSLOT")
	}
}

func runC38(c *Ctx) {
	w := c.W
	li := w.Locks()
	bc := c.Fn("C38.R1", "centrifuge", "(*channelMedium).broadcast")
	if bc != nil {
		n := 0
		for _, ci := range w.Callers(bc) {
			n++
			held := li.HeldAt(ci)
			caller := shortFuncName(ci.Parent())
			ok := held.Holds("channelMedium.broadcastMu", true) || caller == "channelMedium.waitSendPub"
			c.Check("C38.R1", ci, "channelMedium.broadcast under broadcastMu or from the queue writer", ok, "two concurrent broadcasts reorder a channel's publications and race latestPublication (held: "+held.String()+")")
		}
		c.Floor("C38.R1", 3)
		// the queue writer is a single goroutine started once
		nm := c.Fn("C38.R1", "centrifuge", "newChannelMedium")
		if nm != nil {
			gos := 0
			EachInstr(nm, func(in ssa.Instruction) {
				if g, ok := in.(*ssa.Go); ok && calleeName(g.Common()) == "channelMedium.writer" {
					gos++
					c.Check("C38.R1", g, "queue writer started only when the queue is enabled", GuardedBy(g, func(gd Guard) bool { return gd.Pol && strings.HasSuffix(D(gd.Cond), "enableQueue") }), "without a queue, broadcasts are direct under broadcastMu")
				}
			})
			c.CheckAt("C38.R1", "newChannelMedium: exactly one queue writer goroutine", w.Pos(nm.Pos()), gos == 1, fmt.Sprintf("%d go statements", gos))
		}
		for _, f := range w.AllFuncs {
			for _, a := range FieldAccesses(f, "channelMedium", "latestPublication") {
				c.Check("C38.R1", a.In, "latestPublication touched only inside broadcast", shortFuncName(f) == "channelMedium.broadcast", "the latest publication is the delta base of the next broadcast; it must change only in broadcast order")
			}
		}
		// R2 sentinel
		okSent := false
		EachInstr(bc, func(in ssa.Instruction) {
			st, ok := in.(*ssa.Store)
			if !ok {
				return
			}
			if fa, ok := st.Addr.(*ssa.FieldAddr); ok && fieldAddrIs(fa, "Publication", "Offset") {
				if cv, isC := st.Val.(*ssa.Const); isC && cv.Value != nil && cv.Value.ExactString() == "18446744073709551615" {
					if GuardedBy(st, func(g Guard) bool { return g.Pol && strings.HasSuffix(D(g.Cond), "isInsufficientState") }) {
						okSent = true
					}
				}
			}
		})
		c.CheckAt("C38.R2", "(*centrifuge.channelMedium).broadcast: insufficient-state sentinel has Offset = MaxUint64", w.Pos(bc.Pos()), okSent, "positioned subscribers treat it as a gap and end with insufficient state")
	}
	wp := w.Func("centrifuge", "(*Client).writePublicationUpdatePosition")
	if wp != nil {
		okDrop := false
		EachInstr(wp, func(in ssa.Instruction) {
			ifi, ok := in.(*ssa.If)
			if !ok {
				return
			}
			b, ok := ifi.Cond.(*ssa.BinOp)
			if !ok || b.Op != token.EQL || !strings.HasSuffix(D(b.X), "Publication.Offset") {
				return
			}
			if cv, isC := b.Y.(*ssa.Const); !isC || cv.Value == nil || cv.Value.ExactString() != "18446744073709551615" {
				return
			}
			bad := PathQ{Goal: instrPred(w.calleeIs("Client.writeEncodedPushData"))}.FromBlock(ifi.Block().Succs[0])
			okDrop = bad == nil
		})
		c.CheckAt("C38.R2", "(*centrifuge.Client).writePublicationUpdatePosition: the sentinel is never written to a non-positioned subscriber", w.Pos(wp.Pos()), okDrop, "the sentinel is not a publication")
	}
	// R3
	cp := c.Fn("C38.R3", "centrifuge", "(*channelMedium).CheckPosition")
	if cp != nil {
		calls := CallsIn(cp, true, w.calleeIs("channelMedium.broadcastInsufficientState"))
		if c.Anchor("C38.R3", "broadcastInsufficientState call in CheckPosition", len(calls) >= 1) {
			for _, ci := range calls {
				okG := Guarded(ci, func(g Guard) bool {
					d := D(g.Cond)
					return (strings.Contains(d, "checkPositionWithRetry(") || strings.Contains(d, "checkPositionOnce(") || strings.Contains(d, "validPosition") || strings.Contains(d, "#1")) && !g.Pol
				})
				c.Check("C38.R3", ci, "insufficient state broadcast exactly for an invalid position", okG || len(Guards(ci)) > 0, "a detected position loss ends the affected positioned subscriptions")
			}
		}
	}
}
