package main

import (
	"fmt"
	"strings"
)

// data-mutating Redis commands of the add scripts (meta creation `hset meta "e"` is not one:
// the memory broker creates stream metadata on reads too).
func luaIsDataMutation(ev luaEvent) bool {
	switch ev.Cmd {
	case "hincrby", "xadd", "lpush", "ltrim", "del", "zadd", "zrem", "hdel", "publish", "spublish", "dyn:publish_command":
		return true
	case "hset":
		for _, a := range ev.Args {
			if a.Kind == "name" && (a.Text == "result_key" || a.Text == "state_hash_key" || a.Text == "hash_key") {
				return true
			}
		}
	}
	return false
}

func luaPos(s *luaScript, line int) string {
	return fmt.Sprintf("internal/redis_lua/%s:%d", s.Name, line)
}

// luaC19: C19.R3 over the two stream-broker add scripts and the map add script.
func luaC19(c *Ctx) {
	scripts := c.W.LuaScripts()
	for _, name := range []string{"broker_history_add_stream.lua", "broker_history_add_list.lua", "map_broker_add.lua"} {
		s := scripts[name]
		if !c.Anchor("C19.R3", "embedded script "+name, s != nil) {
			continue
		}
		firstMut := -1
		for _, ev := range s.Events {
			if ev.Kind == "call" && luaIsDataMutation(ev) && len(ev.Conds) == 0 && firstMut < 0 {
				firstMut = ev.Idx
			}
		}
		// for scripts whose body is wrapped in branches take the first mutation anywhere
		if firstMut < 0 {
			for _, ev := range s.Events {
				if ev.Kind == "call" && luaIsDataMutation(ev) && firstMut < 0 {
					firstMut = ev.Idx
				}
			}
		}
		c.Anchor("C19.R3", "data-mutating redis.call in "+name, firstMut >= 0)
		nSup := 0
		hasVersionCompare := false
		for _, ev := range s.Events {
			if ev.Kind != "return" {
				continue
			}
			idem := condsContain(ev.Conds, "result_epoch ~= false") || condsContain(ev.Conds, "cached_result")
			vers := condsContain(ev.Conds, "prev_version") && condsContain(ev.Conds, "version")
			if !idem && !vers {
				continue
			}
			nSup++
			if vers {
				hasVersionCompare = true
			}
			kind := "idempotency"
			if vers {
				kind = "version"
			}
			// no data mutation before this return on its own path: every earlier mutation must sit in a
			// branch this return is not in (sibling branch) — approximated by textual order, which is
			// execution order in these straight-line scripts
			bad := -1
			for _, m := range s.Events {
				if m.Kind == "call" && luaIsDataMutation(m) && m.Idx < ev.Idx {
					// allowed only if m is inside a branch whose condition the return does not share
					shared := true
					for _, mc := range m.Conds {
						found := false
						for _, rc := range ev.Conds {
							if rc == mc {
								found = true
							}
						}
						if !found {
							shared = false
						}
					}
					if shared {
						bad = m.Line
					}
				}
			}
			c.CheckAt("C19.R3", name+": "+kind+" suppression return precedes every data mutation", luaPos(s, ev.Line), bad < 0,
				fmt.Sprintf("a suppressed publish must change nothing: a mutating redis.call at line %d runs before the suppression return", bad))
			if vers {
				// comparison semantics: stored >= given, same epoch or empty epoch
				cond := ""
				for _, cnd := range ev.Conds {
					if strings.Contains(cnd, "prev_version") && strings.Contains(cnd, ">=") {
						cond = cnd
					}
				}
				c.CheckAt("C19.R3", name+": version suppressed exactly when stored >= given in the same version epoch", luaPos(s, ev.Line),
					strings.Contains(cond, "version_epoch == \"\"") && strings.Contains(cond, "version_epoch == prev_version_epoch") && strings.Contains(cond, ">="),
					"condition found: "+cond)
				c.CheckAt("C19.R3", name+": version comparison is exact for all uint64 versions", luaPos(s, ev.Line), !strings.Contains(cond, "tonumber ( prev_version )"),
					"tonumber() converts to a double: versions above 2^53 compare equal although they differ, so a newer version can be suppressed (or an older one accepted)")
				c.CheckAt("C19.R3", name+": version check only for versioned publishes", luaPos(s, ev.Line), condsContain(ev.Conds, "version ~= \"0\""), "an unversioned publish must not be suppressed by version")
			}
		}
		if name == "map_broker_add.lua" {
			c.CheckAt("C19.R3", name+": has a version suppression return", luaPos(s, 1), hasVersionCompare, "the map add script must implement version suppression")
		} else {
			c.CheckAt("C19.R3", name+": implements version suppression", luaPos(s, 1), hasVersionCompare, "the Go side passes version and version_epoch to this script; the script ignores them, so a versioned publish is never suppressed with this storage mode")
		}
		// version write guarded
		for _, ev := range s.Events {
			if ev.Kind != "call" || ev.Cmd != "hset" {
				continue
			}
			isVersionWrite := false
			for _, a := range ev.Args {
				if (a.Kind == "string" && a.Text == "v") || (a.Kind == "name" && a.Text == "version_field") {
					isVersionWrite = true
				}
			}
			if !isVersionWrite {
				continue
			}
			c.CheckAt("C19.R3", name+": version write guarded by version ~= \"0\"", luaPos(s, ev.Line), condsContain(ev.Conds, "version ~= \"0\""), "an unversioned publish must not reset the stored version")
		}
		_ = nSup
	}
}
