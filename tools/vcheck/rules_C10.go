package main

import (
	"fmt"
	"strings"

	"golang.org/x/tools/go/ssa"
)

const protocolPkg = "github.com/centrifugal/protocol"

// frameTypeArg returns the constant frame type passed to writeEncodedPushData (receiver, data, ch, key, frameType, batch).
func frameTypeArg(ci ssa.CallInstruction) (int64, bool) {
	args := ci.Common().Args
	if len(args) < 5 {
		return 0, false
	}
	return constIntOf(args[4])
}

func (w *World) frameType(name string) int64 {
	v, ok := w.ConstInt(protocolPkg, name)
	if !ok {
		return -1
	}
	return v
}

func init() {
	register(&PropMeta{
		ID:    "C10",
		Level: "other",
		Explanation: "(R1) every enqueue of a publication, join or leave push (writeEncodedPushData with that constant frame type) is dominated by a subscribed test of the channel: flagSubscribed of Client.channels[ch], or, for keyed pushes, membership of the key in the connection's tracked keys; " +
			"(R2) client-side the subscribe reply is written before the commit that makes the subscription visible to pushes, and in connectCmd no connect reply/push write can follow the finalize stores; " +
			"(R3) every unsubscribe reply or push is written after Client.unsubscribe returned, and the per-channel writer is dropped in the critical section that deletes the channel; " +
			"(R4) for positioned server-side and map subscriptions the buffer is not released before the subscribe push / live reply is written: commitSubscription releases the buffer only on its rollback exits, Client.Subscribe has no direct StopBuffering ahead of the subscribe push, and handleMapTransitionToLive has none between commit and reply.",
		NotDecided: "the window between the guard and the enqueue on every push path (c.mu is released before the write, so an unsubscribe reply can overtake a publication that already passed the guard); join/leave pushes between a server-side commit and the subscribe push; pushes buffered inside the transport.",
		Rules: map[string]string{
			"C10.R1": "K2 guard: channel-push enqueues are dominated by a subscribed test",
			"C10.R2": "K1 order: reply before commit/finalize",
			"C10.R3": "K1+K3: unsubscribe before its reply/push; delWriter in the delete's critical section",
			"C10.R4": "K1: subscribe push / live reply before buffer release (interprocedural via commitSubscription's exits)",
		},
		Run: runC10,
	})
}

func runC10(c *Ctx) {
	w := c.W
	enqFn := c.Fn("C10.R1", "centrifuge", "(*Client).writeEncodedPushData")
	if enqFn == nil {
		return
	}
	ftPub, ftJoin, ftLeave := w.frameType("FrameTypePushPublication"), w.frameType("FrameTypePushJoin"), w.frameType("FrameTypePushLeave")
	ftSub, ftUnsub, ftConnect := w.frameType("FrameTypePushSubscribe"), w.frameType("FrameTypePushUnsubscribe"), w.frameType("FrameTypePushConnect")
	if !c.Anchor("C10.R1", "protocol.FrameTypePush{Publication,Join,Leave,Subscribe,Unsubscribe,Connect} constants", ftPub >= 0 && ftJoin >= 0 && ftLeave >= 0 && ftSub >= 0 && ftUnsub >= 0 && ftConnect >= 0) {
		return
	}
	names := map[int64]string{ftPub: "publication", ftJoin: "join", ftLeave: "leave"}
	subscribed := w.flagGuard("flagSubscribed", true, "Client.channels[")
	keyedMember := func(g Guard) bool {
		d := D(g.Cond)
		return g.Pol && strings.HasPrefix(d, "ok(") && strings.Contains(d, "trackedKeys[")
	}
	n := 0
	for _, ci := range w.Callers(enqFn) {
		ft, ok := frameTypeArg(ci)
		if !ok {
			c.Check("C10.R1", ci, "enqueue with non-constant frame type", false, "the frame type of an enqueue must be a constant so that channel pushes can be told apart")
			continue
		}
		kind, isChannelPush := names[ft]
		if !isChannelPush {
			continue
		}
		n++
		okG := GuardedBy(ci, subscribed) || GuardedBy(ci, keyedMember)
		if !okG {
			// the gate may be a boolean helper of the same package: every `return true` of the helper is
			// dominated by the subscribed test
			okG = GuardedBy(ci, func(g Guard) bool {
				call, ok := g.Cond.(*ssa.Call)
				if !ok || !g.Pol {
					return false
				}
				h := call.Call.StaticCallee()
				if h == nil || len(h.Blocks) == 0 || h.Pkg != ci.Parent().Pkg {
					return false
				}
				nTrue, okAll := 0, true
				EachInstr(h, func(in ssa.Instruction) {
					r, isRet := in.(*ssa.Return)
					if !isRet {
						return
					}
					vals := retVals(r)
					if len(vals) != 1 {
						okAll = false
						return
					}
					if k, known := boolConst(vals[0]); known {
						if k {
							nTrue++
							if !GuardedBy(r, subscribed) {
								okAll = false
							}
						}
						return
					}
					// a computed result (a && b): it must itself be the flag test or be dominated by it
					nTrue++
					if !GuardedBy(r, subscribed) && !flagGuardValue(w, vals[0]) {
						okAll = false
					}
				})
				return okAll && nTrue > 0
			})
		}
		d := "a " + kind + " push can be queued for a channel whose subscription is not (or no longer) established: it can precede the subscribe reply/push or follow the unsubscribe reply/push"
		if !okG {
			d += fmt.Sprintf(" (dominating guards: %v)", GuardStrings(ci))
		}
		c.Check("C10.R1", ci, kind+" push enqueue dominated by a subscribed test", okG, d)
	}
	c.Floor("C10.R1", 9)

	// ---- R2
	subscribeCmd := c.Fn("C10.R2", "centrifuge", "(*Client).subscribeCmd")
	connectCmd := c.Fn("C10.R2", "centrifuge", "(*Client).connectCmd")
	commit := w.calleeIs("Client.commitSubscription")
	replyWrite := w.calleeIs("Client.writeEncodedCommandReply")
	stopB := w.calleeIs("PubSubSync.StopBuffering")
	if subscribeCmd != nil {
		c.RequireOrderOn("C10.R2", subscribeCmd, "writeEncodedCommandReply", replyWrite, "commitSubscription", commit, assumeBool(paramNamed(subscribeCmd, "serverSide"), false),
			"the subscribed flag would become visible before the subscribe reply is queued: a push passing the guard overtakes the reply")
	}
	if connectCmd != nil {
		isConnectWrite := func(ci ssa.CallInstruction) bool {
			if replyWrite(ci) {
				return true
			}
			if w.calleeFn(enqFn)(ci) {
				ft, ok := frameTypeArg(ci)
				return ok && ft == ftConnect
			}
			return false
		}
		writes := CallsIn(connectCmd, false, isConnectWrite)
		c.Anchor("C10.R2", "connect reply/push write in connectCmd", len(writes) >= 2)
		k := 0
		for _, mu := range mapUpdatesOf(connectCmd, false, "Client", "channels") {
			if !strings.Contains(D(mu.Value), "channelContext") {
				continue
			}
			k++
			var bad ssa.Instruction
			for _, wr := range writes {
				if Reaches(mu, wr) {
					bad = wr
				}
			}
			d := "connect-time subscriptions become visible to pushes before the connect reply is queued"
			if bad != nil {
				d += " (write at " + w.InstrPos(bad) + " follows the finalize store)"
			}
			c.Check("C10.R2", mu, "no connect reply write after the finalize store", bad == nil, d)
			// and every path to the finalize store passed a write or the disabled-push test
			disabled := func(in ssa.Instruction) bool {
				ci := asCall(in)
				if ci == nil {
					return false
				}
				if isConnectWrite(ci) {
					return true
				}
				return strings.Contains(D(valueOf(in)), "DisabledPushFlags()") || w.calleeIs("Client.spawnCloseUnlessClosing")(ci)
			}
			target := ssa.Instruction(mu)
			miss := PathQ{Stop: func(in ssa.Instruction) bool {
				if disabled(in) {
					return true
				}
				if g, ok := in.(*ssa.Go); ok && w.MayReach(w.Callee(g), w.calleeIs("Client.close"), 2) {
					return true
				}
				return false
			}, Goal: func(in ssa.Instruction) bool { return in == target }}.FromEntry(connectCmd)
			c.Check("C10.R2", mu, "every path to the finalize store passed the connect reply write", miss == nil, "the finalize store is reachable without the connect reply having been queued")
		}
		c.Anchor("C10.R2", "finalize store of subCtx.channelContext in connectCmd", k > 0)
	}

	// ---- R3
	unsub := c.Fn("C10.R3", "centrifuge", "(*Client).unsubscribe")
	if unsub != nil {
		unsubCall := w.calleeFn(unsub)
		type site struct {
			fn    string
			write CallPred
			name  string
		}
		sendUnsub := w.calleeIs("Client.sendUnsubscribe")
		for _, s := range []site{
			{"(*Client).handleUnsubscribe", replyWrite, "unsubscribe reply write"},
			{"(*Client).Unsubscribe", sendUnsub, "unsubscribe push"},
			{"(*Client).handleAsyncUnsubscribe", sendUnsub, "unsubscribe push"},
		} {
			fn := c.Fn("C10.R3", "centrifuge", s.fn)
			if fn == nil {
				continue
			}
			c.RequireOrder("C10.R3", fn, "Client.unsubscribe", unsubCall, s.name, s.write,
				"the unsubscribe reply/push would be written while the channel is still subscribed: pushes passing the guard afterwards reach the client after the end of the subscription")
		}
		// every writer of an unsubscribe push frame is sendUnsubscribe
		for _, ci := range w.Callers(enqFn) {
			if ft, ok := frameTypeArg(ci); ok && ft == ftUnsub {
				c.Check("C10.R3", ci, "unsubscribe push frames are written only by sendUnsubscribe", shortFuncName(ci.Parent()) == "Client.sendUnsubscribe", "an unsubscribe push written elsewhere is not ordered after Client.unsubscribe")
			}
		}
		// delWriter in the delete's critical section
		li := w.Locks()
		dels := mapDeletesOf(unsub, false, "Client", "channels")
		for _, dw := range CallsIn(unsub, false, w.calleeIs("perChannelWriter.delWriter")) {
			held := li.HeldAt(dw).Holds("Client.mu", true)
			sameSection := false
			for _, d := range dels {
				if !Reaches(d, dw) {
					continue
				}
				clean := true
				EachInstr(unsub, func(u ssa.Instruction) {
					if ci := asCall(u); ci != nil {
						if k, l := lockEvent(ci); k == "Unlock" && strings.HasSuffix(l, "Client.mu") && Reaches(d, u) && Reaches(u, dw) {
							clean = false
						}
					}
				})
				if clean {
					sameSection = true
				}
			}
			c.Check("C10.R3", dw, "per-channel writer dropped in the critical section of the channel delete", held && sameSection, "buffered per-channel pushes could be flushed after the unsubscribe reply")
			if len(dw.Common().Args) >= 3 {
				fl, isC := boolConst(dw.Common().Args[2])
				c.Check("C10.R3", dw, "per-channel writer dropped without flushing", isC && !fl, "flushing the channel's batch on unsubscribe delivers pushes after the subscription ended")
			}
		}
		c.Floor("C10.R3", 5)
	}

	// ---- R4
	commitFn := c.Fn("C10.R4", "centrifuge", "(*Client).commitSubscription")
	if commitFn != nil {
		// the rollback may sit in a helper called from commitSubscription: judge the path from the
		// instruction of commitSubscription through which the release is reached
		dv := w.Deep(commitFn, 2)
		var stops []ssa.CallInstruction
		seenRep := map[ssa.Instruction]bool{}
		for _, s := range dv.Calls(stopB) {
			for _, r := range dv.Reps(s) {
				if !seenRep[r] {
					seenRep[r] = true
					if rc := asCall(r); rc != nil {
						stops = append(stops, rc)
					}
				}
			}
		}
		c.Anchor("C10.R4", "StopBuffering calls in commitSubscription rollback paths", len(stops) >= 1)
		for _, s := range stops {
			bad := PathQ{Goal: func(in ssa.Instruction) bool {
				r, ok := in.(*ssa.Return)
				if !ok || len(r.Results) < 2 {
					return false
				}
				v, known := boolConst(r.Results[1])
				return !known || v
			}}.From(s)
			c.Check("C10.R4", s, "commitSubscription releases the buffer only on rollback exits", bad == nil, "a successful commit that releases the buffer lets buffered publications out before the caller wrote the subscribe push / live reply")
		}
	}
	clientSubscribe := c.Fn("C10.R4", "centrifuge", "(*Client).Subscribe")
	if clientSubscribe != nil {
		pushes := CallsIn(clientSubscribe, false, func(ci ssa.CallInstruction) bool {
			if !w.calleeFn(enqFn)(ci) {
				return false
			}
			ft, ok := frameTypeArg(ci)
			return ok && ft == ftSub
		})
		if c.Anchor("C10.R4", "subscribe push write in Client.Subscribe", len(pushes) > 0) {
			for _, p := range pushes {
				var bad ssa.Instruction
				for _, s := range CallsIn(clientSubscribe, false, stopB) {
					if _, isDefer := s.(*ssa.Defer); isDefer {
						continue
					}
					if Reaches(s, p) {
						bad = s
					}
				}
				d := "releasing the buffer before the subscribe push lets a buffered/live publication reach the client first"
				if bad != nil {
					d += " (StopBuffering at " + w.InstrPos(bad) + ")"
				}
				c.Check("C10.R4", p, "no direct StopBuffering ahead of the subscribe push", bad == nil, d)
			}
		}
	}
	mapLive := c.Fn("C10.R4", "centrifuge", "(*Client).handleMapTransitionToLive")
	if mapLive != nil {
		for _, cm := range CallsIn(mapLive, false, commit) {
			for _, rw := range CallsIn(mapLive, false, replyWrite) {
				var bad ssa.Instruction
				for _, s := range CallsIn(mapLive, false, stopB) {
					if Reaches(cm, s) && Reaches(s, rw) {
						bad = s
					}
				}
				c.Check("C10.R4", rw, "map: no StopBuffering between commit and the live reply", bad == nil, "buffered publications could reach the client before the live reply")
			}
		}
	}
}

// valueOf returns the instruction as a value when it is one.
func valueOf(in ssa.Instruction) ssa.Value {
	v, _ := in.(ssa.Value)
	return v
}
