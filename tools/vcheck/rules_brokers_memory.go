package main

import (
	"fmt"
	"go/token"
	"go/types"
	"strings"

	"golang.org/x/tools/go/ssa"
)

func init() {
	register(&PropMeta{
		ID:    "C17",
		Level: "other",
		Explanation: "(R1) memstream.Stream.top is written only by Add (one increment by exactly 1 on every call) and Reset, epoch only by New and Reset, and Clear writes neither; " +
			"(R2) historyHub.remove and the TTL sweeper (expireStreams) only Clear streams (top and epoch survive) and only the meta-TTL sweeper (removeStreams) deletes a stream; sweepers re-validate the per-channel deadline before acting on a popped heap item; " +
			"(R3) every historyHub field access holds the hub lock and MemoryBroker.Publish holds the channel's pubLock across historyHub.add and HandlePublication.",
		NotDecided: "since/limit/reverse results of Stream.Get (value level), TTL timing.",
		Rules: map[string]string{"C17.R1": "K4 who-may-write Stream.top/epoch", "C17.R2": "K4/K2: Clear vs Reset vs delete; stale-heap-item revalidation", "C17.R3": "K3 locksets", "C17.R4": "K2 pairing: heap push gated by absence in its deadline map"},
		Run:   runC17,
	})
	register(&PropMeta{
		ID:    "C19",
		Level: "other",
		Explanation: "(R1) every store to memstream.Stream.version is dominated by version > 0 (an unversioned append cannot reset the protection); " +
			"(R2) in MemoryBroker.Publish / historyHub.add and the map broker every return that reports a suppressed publish is not preceded on any path by a stream append, a HandlePublication call or a result-cache save, and HandlePublication is dominated by the not-skipped edge; " +
			"(R3) both Redis add scripts return their suppression before any mutating call, guard the version write with version ~= \"0\", and compare the stored version with the given one; " +
			"(R5) the result cache answers a key only while its own deadline is in the future and the sweeper deletes an entry only after re-checking that entry's deadline (heap items can be stale after a key was renewed).",
		NotDecided: "TTL expiry timing of the result cache; Lua number precision for versions beyond 2^53 (recorded as a known finding).",
		Rules: map[string]string{"C19.R1": "K2 guard on Stream.version stores", "C19.R2": "K1/K2: suppressed changes nothing", "C19.R3": "K10 Lua statement order and guards", "C19.R5": "K2: stale heap item revalidation, hit only before the deadline"},
		Run:   runC19,
	})
	register(&PropMeta{
		ID:    "C20",
		Level: "other",
		Explanation: "(R1) mapHub.add decides version before key mode before compare-and-swap; (R2) no return of mapHub.add / mapHub.remove with a non-empty suppress reason is preceded by a stream append or a state/score mutation (the RefreshTTLOnSuppress deadline refresh is the enumerated exception); " +
			"(R3) the unsuppressed path appends at most once and only for stream-backed modes, and MemoryMapBroker.Publish/Remove broadcast and cache the result only when the reason is empty, with the position add/remove returned; (R4) add/remove/clear run under the channel's pubLock and then the hub lock.",
		NotDecided: "fold semantics of the state (values), ordering of sorted keys (C21).",
		Rules: map[string]string{"C20.R1": "K1 order of checks", "C20.R2": "K1: suppressed changes nothing", "C20.R3": "K2/K4: one append, broadcast only unsuppressed", "C20.R4": "K3 lock nesting", "C20.R5": "paired fields: (Version, VersionEpoch) from one source"},
		Run:   runC20,
	})
	register(&PropMeta{
		ID:    "C24",
		Level: "other",
		Explanation: "(R1) every delete of a state entry and every stream append in the memory map broker runs under the channel's pubLock (so phase 1 of the key-expiry sweep cannot mutate state); " +
			"(R2) the phase-2 delete, stream append and dispatch flag are dominated by `exists && entry.ExpireAt == event.expireAt`, HandlePublication by the dispatch flag, and a refreshed entry is re-queued; " +
			"(R3) every store of a state entry's ExpireAt is accompanied by a keyExpires update and a heap push in the same critical section; " +
			"(R4) every iteration of the phase-2 loop re-validates the entry under the locks (no path skips a popped key without deleting, re-queueing or finding it gone).",
		NotDecided: "clock behaviour; that the heap compaction preserves every deadline (value level).",
		Rules: map[string]string{"C24.R1": "K3 lockset (pubLock, nil-table idiom)", "C24.R2": "K2 guards in phase 2", "C24.R3": "K4 pairing of deadline stores", "C24.R4": "K1 must-pass in the sweep loop"},
		Run:   runC24,
	})
}

// isCmp: a comparison BinOp.
func isCmp(op token.Token) bool {
	switch op {
	case token.LSS, token.GTR, token.LEQ, token.GEQ, token.EQL, token.NEQ:
		return true
	}
	return false
}

// loopHeaderOf returns the innermost loop header dominating blk (a dominator with a back edge from a
// block it dominates and from which blk is reachable inside the loop).
func loopHeaderOf(blk *ssa.BasicBlock) *ssa.BasicBlock {
	for d := blk; d != nil; d = d.Idom() {
		for _, p := range d.Preds {
			if d.Dominates(p) && (p == blk || blockReaches(blk, p, d)) {
				return d
			}
		}
	}
	return nil
}

// blockReaches: from reaches to without passing through `avoid` (other than as start).
func blockReaches(from, to, avoid *ssa.BasicBlock) bool {
	seen := map[*ssa.BasicBlock]bool{}
	var dfs func(b *ssa.BasicBlock) bool
	dfs = func(b *ssa.BasicBlock) bool {
		if b == to {
			return true
		}
		if seen[b] {
			return false
		}
		seen[b] = true
		for _, s := range b.Succs {
			if s == avoid && s != to {
				continue
			}
			if dfs(s) {
				return true
			}
		}
		return false
	}
	return dfs(from)
}

func streamAddCall(w *World) CallPred { return w.calleeIs("Stream.Add") }

func runC17(c *Ctx) {
	w := c.W
	li := w.Locks()
	for _, st := range w.FieldStores("Stream", "top") {
		fn := shortFuncName(st.Parent())
		ok := fn == "Stream.Add" || fn == "Stream.Reset"
		c.Check("C17.R1", st, "Stream.top written only by Add and Reset", ok, "offsets must only move by appends; any other writer breaks the +1 sequence or the 'removed stream keeps its top' rule")
		if fn == "Stream.Add" {
			b, isBin := st.Val.(*ssa.BinOp)
			one := false
			if isBin && b.Op == token.ADD {
				if v, ok := constIntOf(b.Y); ok && v == 1 && strings.HasSuffix(D(b.X), "Stream.top") {
					one = true
				}
			}
			c.Check("C17.R1", st, "Add increments top by exactly one", one, "offsets start at 1 and increase by one per stored publication")
			bad := PathQ{Stop: func(in ssa.Instruction) bool { return in == ssa.Instruction(st) }, Goal: isReturn}.FromEntry(st.Parent())
			c.Check("C17.R1", st, "Add increments top on every path", bad == nil, "an append that does not advance the top reuses an offset")
		}
	}
	for _, st := range w.FieldStores("Stream", "epoch") {
		fn := shortFuncName(st.Parent())
		c.Check("C17.R1", st, "Stream.epoch written only by New and Reset", fn == "memstream.New" || fn == "New" || fn == "Stream.Reset", "the epoch changes only when the stream's metadata is discarded")
	}
	c.Floor("C17.R1", 5)
	// R2
	hh := "historyHub"
	for _, fname := range []string{"(*historyHub).remove", "(*historyHub).expireStreams"} {
		fn := c.Fn("C17.R2", "centrifuge", fname)
		if fn == nil {
			continue
		}
		c.CheckAt("C17.R2", FuncName(fn)+": clears, never resets or deletes", w.Pos(fn.Pos()),
			len(CallsIn(fn, false, w.calleeIs("Stream.Clear"))) > 0 && len(CallsIn(fn, false, w.calleeIs("Stream.Reset"))) == 0 && len(mapDeletesOf(fn, false, hh, "streams")) == 0,
			"a removed or expired stream must keep its top offset and epoch (Clear), only meta expiry discards it")
	}
	for _, f := range w.AllFuncs {
		for _, d := range mapDeletesOf(f, false, hh, "streams") {
			c.Check("C17.R2", d, "a stream is deleted only by the meta-TTL sweeper", shortFuncName(f) == "historyHub.removeStreams", "deleting the stream elsewhere changes the epoch while clients hold positions in it")
		}
	}
	// stale heap item revalidation in sweepers
	for _, fname := range []string{"(*historyHub).removeStreams", "(*historyHub).expireStreams"} {
		fn := c.Fn("C17.R2", "centrifuge", fname)
		if fn == nil {
			continue
		}
		checkHeapRevalidation(c, "C17.R2", fn)
	}
	// R4: a deadline map and its heap move together: outside the sweepers a heap push for a channel is
	// conditional only on the absence of that channel in the *paired* deadline map (the sweeper deletes the
	// map entry when it consumes the heap item; any other condition lets a live deadline go untracked)
	pairs := map[string]string{"expireQueue": "expires", "removeQueue": "removes"}
	for _, fname := range []string{"(*historyHub).add", "(*historyHub).getLocked"} {
		root := c.Fn("C17.R4", "centrifuge", fname)
		if root == nil {
			continue
		}
		// (the scheduling block may be shared through a helper; it is then judged there, once per caller)
		for _, fn := range w.Deep(root, 1).Funcs {
			if fn != root && (fn.Signature.Recv() == nil || typeShort(fn.Signature.Recv().Type()) != "historyHub") {
				continue
			}
			if fn != root && (FuncName(fn) == "(*centrifuge.historyHub).add" || FuncName(fn) == "(*centrifuge.historyHub).getLocked") {
				continue
			}
		for _, p := range CallsIn(fn, false, w.calleeIs("heap.Push")) {
			qd := D(p.Common().Args[0])
			for q, m := range pairs {
				if !strings.HasSuffix(qd, "historyHub."+q) {
					continue
				}
				gs := Guards(p)
				okG := false
				for _, g := range gs {
					d := D(g.Cond)
					if !g.Pol && strings.HasPrefix(d, "ok(historyHub."+m+"[") {
						okG = true
					}
				}
				// no other non-trivial condition may gate the push
				extra := ""
				for _, g := range gs {
					d := D(g.Cond)
					if strings.HasPrefix(d, "ok(") && !strings.HasPrefix(d, "ok(historyHub."+m+"[") {
						extra = d
					}
				}
				c.Check("C17.R4", p, "push to "+q+" gated exactly by absence from "+m, okG && extra == "", "the TTL sweeper deletes the "+m+" entry when it consumes the heap item (the stream object survives a Clear); gating the re-push on anything else leaves later publications without an expiry ("+extra+")")
				// and the map entry is written on every path (deadline refreshed)
				wrote := false
				for _, mu := range mapUpdatesOf(fn, false, "historyHub", m) {
					if Reaches(p, mu) || Reaches(mu, p) || mu.Block() == p.Block() {
						wrote = true
					}
				}
				c.Check("C17.R4", p, m+" deadline stored next to the push", wrote, "heap item without a deadline entry is dropped by the sweeper")
			}
		}
		}
	}
	c.Floor("C17.R4", 6)
	// R3
	n := 0
	for _, f := range w.AllFuncs {
		if f.Name() == "newHistoryHub" {
			continue
		}
		for _, fld := range []string{"streams", "expires", "removes", "expireQueue", "removeQueue", "nextExpireCheck", "nextRemoveCheck"} {
			for _, a := range FieldAccesses(f, hh, fld) {
				if a.Kind == "addr" {
					// &h.expireQueue handed to heap.Push/Pop: treated as a write
					a.Write = true
				}
				n++
				held := li.HeldAt(a.In)
				c.Check("C17.R3", a.In, hh+"."+fld+" "+a.Kind+" under the hub lock", held.Holds("historyHub.RWMutex", a.Write), "unsynchronised history hub access (held: "+held.String()+")")
			}
		}
	}
	c.Floor("C17.R3", 40)
	pub := c.Fn("C17.R3", "centrifuge", "(*MemoryBroker).Publish")
	if pub != nil {
		for _, ci := range CallsIn(pub, false, func(ci ssa.CallInstruction) bool {
			return w.calleeIs("historyHub.add")(ci) || (ci.Common().IsInvoke() && ci.Common().Method.Name() == "HandlePublication")
		}) {
			held := li.HeldAt(ci)
			c.Check("C17.R3", ci, calleeName(ci.Common())+" under the channel's pubLock", holdsContaining(held, "pubLock("), "append and broadcast of one publish must not interleave with another publish to the channel (offset order = delivery order)")
		}
	}
}

// checkHeapRevalidation: in a sweeper that pops a priority queue, every destructive action (map delete,
// Stream.Clear) is dominated by a comparison one of whose operands is read from a map entry of the
// receiver (the authoritative deadline), not only from the popped item.
func checkHeapRevalidation(c *Ctx, rule string, fn *ssa.Function) {
	w := c.W
	pops := CallsIn(fn, false, w.calleeIs("heap.Pop"))
	if !c.Anchor(rule, "heap.Pop in "+FuncName(fn), len(pops) > 0) {
		return
	}
	var sites []ssa.Instruction
	EachInstr(fn, func(in ssa.Instruction) {
		if call, ok := in.(*ssa.Call); ok {
			if b, ok := call.Call.Value.(*ssa.Builtin); ok && b.Name() == "delete" {
				sites = append(sites, in)
			}
			if w.calleeIs("Stream.Clear")(call) {
				sites = append(sites, in)
			}
		}
	})
	for _, s := range sites {
		after := false
		for _, p := range pops {
			if Reaches(p, s) {
				after = true
			}
		}
		if !after {
			continue
		}
		okG := GuardedBy(s, func(g Guard) bool {
			b, ok := g.Cond.(*ssa.BinOp)
			if !ok || !isCmp(b.Op) {
				return false
			}
			for _, side := range []ssa.Value{b.X, b.Y} {
				if lk := originLookup(side, 0); lk != nil {
					return true
				}
				d := D(side)
				if strings.Contains(d, "[") && strings.Contains(d, "].") {
					return true
				}
			}
			return false
		})
		d := "a heap item can be stale (the key was renewed or refreshed after it was pushed); acting on it without re-checking the entry's own deadline removes a live entry"
		if !okG {
			d += fmt.Sprintf(" (guards: %v)", GuardStrings(s))
		}
		c.Check(rule, s, "sweeper action dominated by a comparison with the entry's stored deadline", okG, d)
	}
}

// retVals resolves the values a Return yields. In functions with defers go/ssa spills results:
// `store cell_i = v_i; rundefers; return *cell_i` — the stored values are what the return yields.
func retVals(ret *ssa.Return) []ssa.Value {
	r := ret
	out := make([]ssa.Value, len(ret.Results))
	for i, res := range ret.Results {
		out[i] = res
		u, ok := res.(*ssa.UnOp)
		if !ok || u.Op != token.MUL {
			continue
		}
		al, ok := u.X.(*ssa.Alloc)
		if !ok {
			continue
		}
		blk := r.Block()
		for j := len(blk.Instrs) - 1; j >= 0; j-- {
			if st, ok := blk.Instrs[j].(*ssa.Store); ok && st.Addr == al {
				out[i] = st.Val
				break
			}
		}
		if out[i] == res {
			// store may sit in the unique predecessor chain
			for b := blk; len(b.Preds) == 1 && out[i] == res; {
				b = b.Preds[0]
				for j := len(b.Instrs) - 1; j >= 0; j-- {
					if st, ok := b.Instrs[j].(*ssa.Store); ok && st.Addr == al {
						out[i] = st.Val
						break
					}
				}
			}
		}
	}
	return out
}

type resolvedReturn struct {
	*ssa.Return
	Vals []ssa.Value
}

// returnsWhere: returns of fn (with spilled results resolved) for which pred holds.
func returnsWhere(fn *ssa.Function, pred func(r resolvedReturn) bool) []resolvedReturn {
	var out []resolvedReturn
	EachInstr(fn, func(in ssa.Instruction) {
		if r, ok := in.(*ssa.Return); ok {
			rr := resolvedReturn{r, retVals(r)}
			if pred(rr) {
				out = append(out, rr)
			}
		}
	})
	return out
}

// resultFieldStoredTrue: the returned struct value (a composite built just before the return) has field
// `field` stored as constant true (or, for string fields, a non-empty constant).
func compositeFieldConst(v ssa.Value, typ, field string) (ssa.Value, bool) {
	u, ok := v.(*ssa.UnOp)
	if !ok || u.Op != token.MUL {
		return nil, false
	}
	al, ok := u.X.(*ssa.Alloc)
	if !ok {
		return nil, false
	}
	var val ssa.Value
	for _, r := range *al.Referrers() {
		if fa, ok := r.(*ssa.FieldAddr); ok && fieldAddrIs(fa, typ, field) {
			for _, rr := range *fa.Referrers() {
				if st, ok := rr.(*ssa.Store); ok {
					val = st.Val
				}
			}
		}
	}
	if val == nil {
		// `result := T{…}` may be built in a temporary and copied: follow the single whole-value store
		if sv := singleStoreAlloc(al); sv != nil && sv != v {
			return compositeFieldConst(sv, typ, field)
		}
	}
	return val, val != nil
}

func runC19(c *Ctx) {
	w := c.W
	// R1
	for _, st := range w.FieldStores("Stream", "version") {
		okG := GuardedBy(st, func(g Guard) bool {
			b, ok := g.Cond.(*ssa.BinOp)
			if !ok {
				return false
			}
			z, isZ := constIntOf(b.Y)
			if !isZ || z != 0 || !strings.Contains(D(b.X), "version") {
				return false
			}
			return (b.Op == token.GTR && g.Pol) || (b.Op == token.NEQ && g.Pol) || (b.Op == token.EQL && !g.Pol)
		})
		// or every caller passes a value guarded > 0 — not the case today; keep the callee form
		c.Check("C19.R1", st, "Stream.version stored only for a versioned append (version > 0)", okG, "an unversioned publish resets the stream's version: a later publish with a lower version is accepted although the channel already held a higher one")
	}
	c.Floor("C19.R1", 1)

	// R2
	handlePub := func(ci ssa.CallInstruction) bool {
		return ci.Common().IsInvoke() && ci.Common().Method.Name() == "HandlePublication"
	}
	type brk struct{ fn, resType, save string }
	for _, b := range []brk{
		{"(*MemoryBroker).Publish", "PublishResult", "MemoryBroker.saveResultToCache"},
		{"(*MemoryMapBroker).Publish", "MapUpdateResult", "MemoryMapBroker.saveResultToCache"},
		{"(*MemoryMapBroker).Remove", "MapUpdateResult", "MemoryMapBroker.saveResultToCache"},
	} {
		fn := c.Fn("C19.R2", "centrifuge", b.fn)
		if fn == nil {
			continue
		}
		sup := returnsWhere(fn, func(r resolvedReturn) bool {
			if len(r.Vals) == 0 {
				return false
			}
			v, ok := compositeFieldConst(r.Vals[0], b.resType, "Suppressed")
			if !ok {
				return false
			}
			bv, known := boolConst(v)
			return known && bv
		})
		if !c.Anchor("C19.R2", "suppressed returns in "+b.fn, len(sup) >= 2) {
			continue
		}
		effects := CallsIn(fn, false, orPred(handlePub, w.calleeIs(b.save)))
		for _, r := range sup {
			var bad ssa.Instruction
			for _, e := range effects {
				if Reaches(e, r.Return) {
					bad = e
				}
			}
			d := "a suppressed publish must reach no subscriber and must not refresh the idempotency result"
			if bad != nil {
				d += " (effect at " + w.InstrPos(bad) + ")"
			}
			c.Check("C19.R2", r.Return, "suppressed return not preceded by broadcast or cache save", bad == nil, d)
		}
		// the broadcast is dominated by the not-suppressed edge
		for _, e := range CallsIn(fn, false, handlePub) {
			okG := Guarded(e, func(g Guard) bool {
				d := D(g.Cond)
				if strings.Contains(d, "historyHub.add(") && strings.HasSuffix(d, "#2") && !g.Pol {
					return true
				}
				if b, ok := g.Cond.(*ssa.BinOp); ok {
					if s, isS := constStrOf(b.Y); isS && s == "" && (strings.Contains(D(b.X), "mapHub.add(") || strings.Contains(D(b.X), "mapHub.remove(")) {
						return (b.Op == token.NEQ && !g.Pol) || (b.Op == token.EQL && g.Pol)
					}
				}
				// no-history branch of the stream broker: nothing can be suppressed by version there
				if strings.Contains(d, "HistorySize > 0") || strings.Contains(d, "HistoryTTL > 0") {
					return !g.Pol
				}
				return false
			})
			c.Check("C19.R2", e, "HandlePublication only on the not-suppressed edge", okG, "a suppressed publish reaches subscribers")
		}
	}
	add := c.Fn("C19.R2", "centrifuge", "(*historyHub).add")
	if add != nil {
		skips := returnsWhere(add, func(r resolvedReturn) bool {
			if len(r.Vals) < 3 {
				return false
			}
			v, known := boolConst(r.Vals[2])
			return known && v
		})
		c.Anchor("C19.R2", "version-skip return in historyHub.add", len(skips) > 0)
		for _, r := range skips {
			var bad ssa.Instruction
			for _, e := range CallsIn(add, false, streamAddCall(w)) {
				if Reaches(e, r.Return) {
					bad = e
				}
			}
			c.Check("C19.R2", r.Return, "version-skip return not preceded by a stream append", bad == nil, "a suppressed versioned publish adds a history entry")
			okG := GuardedBy(r.Return, func(g Guard) bool {
				b, ok := g.Cond.(*ssa.BinOp)
				return ok && b.Op == token.LEQ && g.Pol && strings.Contains(D(b.X), "Version") && strings.Contains(D(b.Y), "TopVersion(")
			})
			c.Check("C19.R2", r.Return, "skip exactly on version <= stream top version", okG, "suppression must hit equal or lower versions only")
			okE := GuardedBy(r.Return, func(g Guard) bool {
				return g.Pol && strings.Contains(D(g.Cond), "VersionEpoch") && strings.Contains(D(g.Cond), "φ(") || g.Pol && strings.Contains(D(g.Cond), "TopVersionEpoch(")
			}) || Guarded(r.Return, func(g Guard) bool {
				d := D(g.Cond)
				return g.Pol && strings.Contains(d, "VersionEpoch") && (strings.Contains(d, "== \"\"") || strings.Contains(d, "TopVersionEpoch("))
			})
			c.Check("C19.R2", r.Return, "skip only within the same version epoch", okE, "a version from another version epoch must not be suppressed")
		}
	}

	// R5
	for _, name := range []string{"(*MemoryBroker).expireResultCache", "(*MemoryMapBroker).expireResultCache"} {
		fn := c.Fn("C19.R5", "centrifuge", name)
		if fn != nil {
			checkHeapRevalidation(c, "C19.R5", fn)
		}
	}
	for _, name := range []string{"(*MemoryBroker).getResultFromCache", "(*MemoryMapBroker).getResultFromCache"} {
		fn := c.Fn("C19.R5", "centrifuge", name)
		if fn == nil {
			continue
		}
		hits := returnsWhere(fn, func(r resolvedReturn) bool {
			if len(r.Vals) != 2 {
				return false
			}
			v, known := boolConst(r.Vals[1])
			return known && v
		})
		c.Anchor("C19.R5", "hit return in "+name, len(hits) > 0)
		for _, r := range hits {
			okG := Guarded(r.Return, func(g Guard) bool {
				b, ok := g.Cond.(*ssa.BinOp)
				if !ok || !strings.Contains(D(b.X), "ExpireAt") {
					return false
				}
				return (b.Op == token.LEQ && !g.Pol) || (b.Op == token.GTR && g.Pol) || (b.Op == token.LSS && !g.Pol) || (b.Op == token.GEQ && g.Pol)
			})
			c.Check("C19.R5", r.Return, "a cached result is returned only before its deadline", okG, "after the result TTL a repeated idempotency key must be a fresh publish")
		}
	}
	luaC19(c)
}

func runC20(c *Ctx) {
	w := c.W
	li := w.Locks()
	add := c.Fn("C20.R1", "centrifuge", "(*mapHub).add")
	rem := c.Fn("C20.R2", "centrifuge", "(*mapHub).remove")
	if add != nil {
		firstIf := func(sub string) *ssa.If {
			var res *ssa.If
			EachInstr(add, func(in ssa.Instruction) {
				if ifi, ok := in.(*ssa.If); ok && res == nil && strings.Contains(D(ifi.Cond), sub) {
					res = ifi
				}
			})
			return res
		}
		iv, ik, ip := firstIf("MapPublishOptions.Version > 0"), firstIf("MapPublishOptions.KeyMode"), firstIf("MapPublishOptions.ExpectedPosition")
		if c.Anchor("C20.R1", "version / key-mode / expected-position tests in mapHub.add", iv != nil && ik != nil && ip != nil) {
			c.Check("C20.R1", ik, "version check before key-mode check", Reaches(iv, ik) && !Reaches(ik, iv), "checks must apply in the order version, key mode, compare-and-swap (the Redis script and the reference map do)")
			c.Check("C20.R1", ip, "key-mode check before compare-and-swap check", Reaches(ik, ip) && !Reaches(ip, ik), "checks must apply in the order version, key mode, compare-and-swap")
		}
	}
	for _, fn := range []*ssa.Function{add, rem} {
		if fn == nil {
			continue
		}
		sup := returnsWhere(fn, func(r resolvedReturn) bool {
			if len(r.Vals) < 3 {
				return false
			}
			s, ok := constStrOf(r.Vals[2])
			return ok && s != ""
		})
		if !c.Anchor("C20.R2", "suppress returns in "+FuncName(fn), len(sup) >= 2) {
			continue
		}
		var effects []ssa.Instruction
		for _, ci := range CallsIn(fn, false, streamAddCall(w)) {
			effects = append(effects, ci)
		}
		for _, mu := range mapUpdatesOfAny(fn) {
			d := D(mu.Map)
			if strings.HasSuffix(d, ".state") || strings.HasSuffix(d, ".scores") {
				effects = append(effects, mu)
			}
		}
		for _, d := range builtinCalls(fn, "delete") {
			dd := D(d.Call.Args[0])
			if strings.HasSuffix(dd, ".state") || strings.HasSuffix(dd, ".scores") {
				effects = append(effects, d)
			}
		}
		for _, r := range sup {
			var bad ssa.Instruction
			for _, e := range effects {
				if Reaches(e, r.Return) {
					bad = e
				}
			}
			reason, _ := constStrOf(r.Vals[2])
			d := "a suppressed operation changes nothing, appends nothing"
			if bad != nil {
				d += " (effect at " + w.InstrPos(bad) + ")"
			}
			c.Check("C20.R2", r.Return, "suppress return ("+reason+") not preceded by a stream append or state mutation", bad == nil, d)
		}
		// R3: at most one append, only for stream-backed modes
		adds := CallsIn(fn, false, streamAddCall(w))
		c.CheckAt("C20.R3", FuncName(fn)+": exactly one stream append site", w.Pos(fn.Pos()), len(adds) == 1, fmt.Sprintf("found %d Stream.Add sites; each unsuppressed operation of a stream-backed channel appends exactly one entry", len(adds)))
		for _, a := range adds {
			c.Check("C20.R3", a, "stream append only for stream-backed modes", GuardedBy(a, func(g Guard) bool { return g.Pol && strings.Contains(D(g.Cond), "HasStream(") }), "ephemeral channels must not append")
			// loops: not inside a loop
			c.Check("C20.R3", a, "stream append not inside a loop", loopHeaderOf(a.Block()) == nil, "one operation appends one entry")
		}
		// R4
		held := li.Entry(fn)
		c.CheckAt("C20.R4", FuncName(fn)+": called with the channel's pubLock held", w.Pos(fn.Pos()), holdsContaining(held, "pubLock("), "state mutation, stream append and broadcast of one operation must be atomic per channel (entry lockset: "+held.String()+")")
		locks := lockCalls(fn, "Lock", "mapHub.RWMutex")
		c.CheckAt("C20.R4", FuncName(fn)+": takes the hub lock", w.Pos(fn.Pos()), len(locks) > 0, "hub state must be mutated under the hub lock")
	}
	// R5: (Version, VersionEpoch) is one value: wherever a state entry is built the two fields come
	// from the same source (both from the options, or both carried over from the existing entry)
	if add != nil {
		var verVal, epochVal ssa.Value
		var at ssa.Instruction
		EachInstr(add, func(in ssa.Instruction) {
			st, ok := in.(*ssa.Store)
			if !ok {
				return
			}
			fa, ok := st.Addr.(*ssa.FieldAddr)
			if !ok {
				return
			}
			if fieldAddrIs(fa, "stateEntry", "Version") {
				verVal, at = st.Val, st
			}
			if fieldAddrIs(fa, "stateEntry", "VersionEpoch") {
				epochVal = st.Val
			}
		})
		if c.Anchor("C20.R5", "stores of stateEntry.Version / VersionEpoch in mapHub.add", verVal != nil && epochVal != nil) {
			dv := strings.ReplaceAll(D(verVal), ".VersionEpoch", ".VE")
			de := strings.ReplaceAll(D(epochVal), ".VersionEpoch", ".VE")
			dv = strings.ReplaceAll(dv, ".Version", ".VE")
			c.Check("C20.R5", at, "version and version epoch of a state entry come from the same source", dv == de,
				"an unversioned publish must carry over the stored (version, epoch) pair: keeping the version but dropping its epoch lets a stale versioned publish of the original epoch through (sources: "+D(verVal)+" vs "+D(epochVal)+")")
		}
	}
	// brokers: broadcast with the returned position
	for _, b := range []struct{ fn, hub string }{{"(*MemoryMapBroker).Publish", "mapHub.add"}, {"(*MemoryMapBroker).Remove", "mapHub.remove"}} {
		fn := c.Fn("C20.R3", "centrifuge", b.fn)
		if fn == nil {
			continue
		}
		for _, e := range CallsIn(fn, false, func(ci ssa.CallInstruction) bool {
			return ci.Common().IsInvoke() && ci.Common().Method.Name() == "HandlePublication"
		}) {
			args := e.Common().Args
			ok := len(args) >= 3 && strings.Contains(D(args[2]), b.hub+"(") && strings.HasSuffix(D(args[2]), "#0")
			c.Check("C20.R3", e, "broadcast carries the position the hub returned", ok, "each unsuppressed operation is broadcast once with the offset of its own stream entry; got "+D(args[len(args)-3]))
		}
		c.CheckAt("C20.R3", b.fn+": one hub call", w.Pos(fn.Pos()), len(CallsIn(fn, false, w.calleeIs(b.hub))) == 1, "one operation = one hub call")
	}
	clr := c.Fn("C20.R4", "centrifuge", "(*MemoryMapBroker).Clear")
	if clr != nil {
		for _, ci := range CallsIn(clr, false, w.calleeIs("mapHub.clear")) {
			c.Check("C20.R4", ci, "clear under the channel's pubLock", holdsContaining(li.HeldAt(ci), "pubLock("), "clear must serialise with publishes to the channel")
		}
	}
}

func runC24(c *Ctx) {
	w := c.W
	li := w.Locks()
	sweep := c.Fn("C24.R1", "centrifuge", "(*mapHub).expireKeysIteration")
	isPubLockLock := func(in ssa.Instruction) bool {
		ci := asCall(in)
		if ci == nil {
			return false
		}
		if _, d := in.(*ssa.Defer); d {
			return false
		}
		k, l := lockEvent(ci)
		return k == "Lock" && (strings.Contains(l, "pubLocks[") || strings.Contains(l, "pubLock("))
	}
	// pathLocked: every path from entry to site passes a pubLock Lock (or the nil-table edge) and no Unlock of it after
	pathLocked := func(site ssa.Instruction) bool {
		fn := site.Parent()
		if holdsContaining(li.HeldAt(site), "pubLock") {
			return true
		}
		q := PathQ{Stop: isPubLockLock, Goal: func(in ssa.Instruction) bool { return in == site },
			EdgeCond: func(cond ssa.Value, outcome bool) bool {
				// `h.pubLocks != nil` false edge: no lock table configured (unit-test construction)
				if b, ok := cond.(*ssa.BinOp); ok && isNilConst(b.Y) && strings.HasSuffix(D(b.X), "pubLocks") {
					if (b.Op == token.NEQ && !outcome) || (b.Op == token.EQL && outcome) {
						return false
					}
				}
				return true
			}}
		if q.FromEntry(fn) != nil {
			return false
		}
		// no unlock of the pub lock between the lock and the site
		bad := false
		EachInstr(fn, func(l ssa.Instruction) {
			if !isPubLockLock(l) || !Reaches(l, site) {
				return
			}
			EachInstr(fn, func(u ssa.Instruction) {
				if ci := asCall(u); ci != nil {
					if _, d := u.(*ssa.Defer); d {
						return
					}
					if k, ln := lockEvent(ci); k == "Unlock" && (strings.Contains(ln, "pubLocks[") || strings.Contains(ln, "pubLock(") || strings.Contains(ln, "φ(")) {
						// an unlock inside the same loop iteration before the site
						if Reaches(l, u) && Reaches(u, site) && !Reaches(site, l) {
							bad = true
						}
					}
				}
			})
		})
		return !bad
	}
	n := 0
	for _, f := range w.AllFuncs {
		root := f
		for root.Parent() != nil {
			root = root.Parent()
		}
		rn := shortFuncName(root)
		if !strings.HasPrefix(rn, "mapHub.") && !strings.HasPrefix(rn, "MemoryMapBroker.") {
			continue
		}
		var sites []ssa.Instruction
		for _, d := range builtinCalls(f, "delete") {
			if strings.HasSuffix(D(d.Call.Args[0]), ".state") {
				sites = append(sites, d)
			}
		}
		for _, a := range CallsIn(f, false, streamAddCall(w)) {
			sites = append(sites, a)
		}
		for _, s := range sites {
			n++
			ok := pathLocked(s)
			c.Check("C24.R1", s, "state delete / stream append under the channel's pubLock", ok, "phase 1 of the expiry sweep relies on state only changing under pubLock; an unlocked mutation lets a key be removed twice or lost (held: "+li.HeldAt(s).String()+")")
		}
	}
	c.Floor("C24.R1", 5)
	if sweep == nil {
		return
	}
	// ---- R2
	sameDeadline := func(g Guard) bool {
		b, ok := g.Cond.(*ssa.BinOp)
		if !ok || !g.Pol || b.Op != token.EQL {
			return false
		}
		dx, dy := D(b.X), D(b.Y)
		return (strings.HasSuffix(dx, ".ExpireAt") && strings.HasSuffix(dy, ".expireAt")) || (strings.HasSuffix(dy, ".ExpireAt") && strings.HasSuffix(dx, ".expireAt"))
	}
	// phase 2 lives in the sweep function or in the per-key helper it calls for every collected event
	p2fn := sweep
	hasStateDelete := func(f *ssa.Function) bool {
		for _, d := range builtinCalls(f, "delete") {
			if strings.HasSuffix(D(d.Call.Args[0]), ".state") {
				return true
			}
		}
		return false
	}
	if !hasStateDelete(sweep) {
		for _, g := range w.Deep(sweep, 1).Funcs {
			if g != sweep && hasStateDelete(g) {
				p2fn = g
				break
			}
		}
	}
	var phase2 []ssa.Instruction
	for _, d := range builtinCalls(p2fn, "delete") {
		if strings.HasSuffix(D(d.Call.Args[0]), ".state") {
			phase2 = append(phase2, d)
		}
	}
	for _, a := range CallsIn(p2fn, false, streamAddCall(w)) {
		phase2 = append(phase2, a)
	}
	for _, s := range phase2 {
		c.Check("C24.R2", s, "phase-2 removal dominated by exists && same deadline", GuardedBy(s, sameDeadline) && GuardedBy(s, func(g Guard) bool { return g.Pol && strings.HasPrefix(D(g.Cond), "ok(") && strings.Contains(D(g.Cond), ".state[") }),
			"a key refreshed, removed or republished between the snapshot and phase 2 would be removed although it is live (or removed twice)")
	}
	c.Floor("C24.R2", 2)
	for _, e := range CallsIn(p2fn, false, func(ci ssa.CallInstruction) bool {
		return ci.Common().IsInvoke() && ci.Common().Method.Name() == "HandlePublication"
	}) {
		// dispatch flag: φ that is true only on the removal path
		okG := Guarded(e, sameDeadline)
		c.Check("C24.R2", e, "removal broadcast only for an entry actually removed", okG, "exactly one removal is broadcast per expired key")
		c.Check("C24.R2", e, "removal broadcast under the channel's pubLock", pathLocked(e), "the broadcast must carry the offset order of the channel")
	}
	// refreshed entry re-queued: on the `exists && ExpireAt > now` edge a heap.Push happens
	requeue := false
	for _, p := range CallsIn(p2fn, false, w.calleeIs("heap.Push")) {
		if GuardedBy(p, func(g Guard) bool {
			b, ok := g.Cond.(*ssa.BinOp)
			// the deadline compared with the current time (read in place, or handed to the per-key helper)
			return ok && g.Pol && b.Op == token.GTR && strings.HasSuffix(D(b.X), ".ExpireAt") && (strings.Contains(D(g.Cond), "UnixMilli") || paramOfKind(b.Y, types.Int64))
		}) && len(phase2) > 0 && !GuardedBy(p, sameDeadline) {
			for _, s := range phase2 {
				if lh := loopHeaderOf(s.Block()); (lh != nil && lh.Dominates(p.Block())) || p2fn != sweep {
					requeue = true
				}
			}
		}
	}
	c.CheckAt("C24.R2", "(*mapHub).expireKeysIteration: refreshed entry is re-queued in phase 2", w.Pos(sweep.Pos()), requeue, "a key refreshed between the phases was already popped from the heap; without re-queueing it never expires")

	// ---- R3
	k := 0
	for _, f := range w.AllFuncs {
		for _, st := range storesToField(f, false, "stateEntry", "ExpireAt") {
			k++
			hasMap, hasPush := false, false
			for _, mu := range mapUpdatesOf(f, false, "mapHub", "keyExpires") {
				if mu.Block() == st.Block() || Reaches(st, mu) {
					hasMap = true
				}
			}
			for _, p := range CallsIn(f, false, w.calleeIs("heap.Push")) {
				if strings.Contains(D(p.Common().Args[0]), "keyExpireQueue") && (p.Block() == st.Block() || Reaches(st, p)) {
					hasPush = true
				}
			}
			c.Check("C24.R3", st, "deadline store accompanied by keyExpires update and heap push", hasMap && hasPush && li.HeldAt(st).Holds("mapHub.RWMutex", true), "a deadline the sweeper does not know about never fires (or fires for the old deadline)")
		}
	}
	c.Anchor("C24.R3", "stores of stateEntry.ExpireAt", k > 0)

	// ---- R4: every iteration of the phase-2 loop reaches the re-validation
	if len(phase2) > 0 && p2fn != sweep {
		// the loop body is a per-key helper: every path through it re-validates the key
		reval := func(in ssa.Instruction) bool {
			lk, ok := in.(*ssa.Lookup)
			return ok && strings.HasSuffix(D(lk.X), "mapHub.channels")
		}
		bad := PathQ{Stop: reval, Goal: isReturn}.FromEntry(p2fn)
		c.CheckAt("C24.R4", FuncName(p2fn)+": every phase-2 iteration re-validates its key under the locks", w.Pos(p2fn.Pos()), bad == nil, "phase 1 already popped the key's only heap item; an iteration that skips the key (e.g. on lock contention) leaves an expired key in state forever: no removal is appended or broadcast")
	} else if len(phase2) > 0 {
		h := loopHeaderOf(phase2[0].Block())
		if c.Anchor("C24.R4", "phase-2 loop of expireKeysIteration", h != nil) {
			reval := func(in ssa.Instruction) bool {
				lk, ok := in.(*ssa.Lookup)
				return ok && strings.HasSuffix(D(lk.X), "mapHub.channels")
			}
			first := h.Instrs[0]
			var bad ssa.Instruction
			for _, s := range h.Succs {
				if !h.Dominates(s) || !blockReaches(s, h, nil) {
					continue
				}
				if r := (PathQ{Stop: reval, Goal: func(in ssa.Instruction) bool { return in == first }}).FromBlock(s); r != nil {
					bad = r
				}
			}
			c.Check("C24.R4", first, "every phase-2 iteration re-validates its key under the locks", bad == nil, "phase 1 already popped the key's only heap item; an iteration that skips the key (e.g. on lock contention) leaves an expired key in state forever: no removal is appended or broadcast")
		}
	}
}
