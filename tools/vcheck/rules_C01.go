package main

import (
	"fmt"
	"go/token"
	"strings"

	"golang.org/x/tools/go/ssa"
)

func init() {
	register(&PropMeta{
		ID:    "C01",
		Level: "other",
		Explanation: "(R1) in subscribeCmd and handleMapTransitionToLive the PUB/SUB buffer is opened before the hub entry is added and never after; " +
			"(R2) every StartBuffering is paired with StopBuffering on every exit: all returns of client-side subscribeCmd, all failing returns of server-side subscribeCmd, all exits of its callers (Client.Subscribe, connectCmd after the join of its subscribe goroutines) and of handleMapTransitionToLive (including its rollback(true) closure); " +
			"(R3) history/top read precedes LockBufferAndReadBuffered, whose result feeds MergePublications; a failed merge can reach neither the reply write nor the commit and yields DisconnectInsufficientState; client-side the reply write precedes the commit and no buffer release lies between the buffer lock and the commit; server-side the commit/finalize precedes the release; " +
			"(R4) a publication with a non-zero offset reaches a connection only through PubSubSync.SyncPublication wrapping writePublicationUpdatePosition, and the filtered marker (not the publication) is what is buffered for a filtered subscriber; " +
			"(R5) in the positioned branch of writePublicationUpdatePosition every enqueue is dominated by the fall-through of both the gap test (offset > next) and the stale test (offset < next), the new position is stored into Client.channels in the same c.mu critical section as the load, and the lag / epoch-mismatch / gap edges reach the insufficient-state handler and no enqueue; " +
			"(R6) broadcastPublication builds the filtered marker from the publication's offset with Time == -1 and attaches it whenever wasFiltered is set.",
		NotDecided: "that MergePublications and the offset arithmetic are value-correct (C39 covers its shape); behaviour under dropped or duplicated broker deliveries; the window between the guard in R5 and the enqueue (c.mu is released before the write).",
		Rules: map[string]string{
			"C01.R1": "K1 order: StartBuffering before Node.addSubscription, never after",
			"C01.R2": "K1 pairing/must-pass-through: StartBuffering … StopBuffering on every exit (path-sensitive on the serverSide parameter, wrappers by must-summary)",
			"C01.R3": "K1 order + value flow on the merge path",
			"C01.R4": "K2/K4: non-zero-offset publications only via SyncPublication(… writePublicationUpdatePosition …)",
			"C01.R5": "K2+K3: guards and critical section of the positioned enqueue",
			"C01.R6": "value flow: filtered marker construction in subShard.broadcastPublication",
		},
		Run: runC01,
	})
}

func runC01(c *Ctx) {
	w := c.W
	subscribeCmd := c.Fn("C01.R2", "centrifuge", "(*Client).subscribeCmd")
	mapLive := c.Fn("C01.R2", "centrifuge", "(*Client).handleMapTransitionToLive")
	clientSubscribe := c.Fn("C01.R2", "centrifuge", "(*Client).Subscribe")
	connectCmd := c.Fn("C01.R2", "centrifuge", "(*Client).connectCmd")
	unlockSS := c.Fn("C01.R2", "centrifuge", "(*Client).unlockServerSideSubscriptions")
	wpup := c.Fn("C01.R5", "centrifuge", "(*Client).writePublicationUpdatePosition")
	wp := c.Fn("C01.R4", "centrifuge", "(*Client).writePublication")
	bcast := c.Fn("C01.R6", "centrifuge", "(*subShard).broadcastPublication")

	start := w.calleeIs("PubSubSync.StartBuffering")
	stopB := w.calleeIs("PubSubSync.StopBuffering")
	lockBuf := w.calleeIs("PubSubSync.LockBufferAndReadBuffered")
	addSub := w.calleeIs("Node.addSubscription")
	merge := w.calleeIs("recovery.MergePublications")
	commit := w.calleeIs("Client.commitSubscription")
	replyWrite := w.calleeIs("Client.writeEncodedCommandReply")
	enqueue := w.calleeIs("Client.writeEncodedPushData")
	unlockCall := w.calleeIs("Client.unlockServerSideSubscriptions")
	stopMust := w.wrapMust(orPred(stopB, unlockCall), 3)

	// ---- R1
	for _, fn := range []*ssa.Function{subscribeCmd, mapLive} {
		if fn == nil {
			continue
		}
		c.RequireNeverAfter("C01.R1", fn, "Node.addSubscription", addSub, "StartBuffering", start,
			"the hub entry would exist before the buffer: publications delivered in the window bypass the recovery merge (loss or duplication)")
		for _, a := range CallsIn(fn, false, addSub) {
			reached := false
			for _, s := range CallsIn(fn, false, start) {
				if Reaches(s, a) {
					reached = true
				}
			}
			c.Check("C01.R1", a, "StartBuffering reaches Node.addSubscription", reached, "no StartBuffering call can precede the hub add on any path")
		}
	}
	if mapLive != nil {
		c.RequireOrder("C01.R1", mapLive, "StartBuffering", start, "Node.addSubscription", addSub, "map live transition must buffer before adding the hub entry")
	}

	// ---- R2
	if subscribeCmd != nil {
		ss := paramNamed(subscribeCmd, "serverSide")
		if c.Anchor("C01.R2", "bool mode parameter serverSide of subscribeCmd", ss != nil) {
			c.RequireMustPass("C01.R2", subscribeCmd, "StartBuffering", start,
				PathQ{Stop: stopMust, Goal: isReturn, Edge: assumeBool(ss, false)},
				"client-side: every return after StartBuffering passes StopBuffering",
				"a return that skips StopBuffering leaves the channel buffering forever: later positioned publications are appended to a buffer nobody reads")
			isResultStore := func(in ssa.Instruction) bool {
				st, ok := in.(*ssa.Store)
				if !ok {
					return false
				}
				fa, ok := st.Addr.(*ssa.FieldAddr)
				return ok && fieldAddrIs(fa, "subscribeContext", "result")
			}
			c.RequireMustPass("C01.R2", subscribeCmd, "StartBuffering", start,
				PathQ{Stop: func(in ssa.Instruction) bool { return stopMust(in) || isResultStore(in) }, Goal: isReturn, Edge: assumeBool(ss, true)},
				"server-side: every failing return after StartBuffering passes StopBuffering (success hands the buffer to the caller)",
				"a failing server-side return without StopBuffering leaks the buffer (callers only release it after success)")
		}
		// callers passing serverSide=true
		for _, ci := range w.Callers(subscribeCmd) {
			args := ci.Common().Args
			idx := -1
			for i, p := range subscribeCmd.Params {
				if p.Name() == "serverSide" {
					idx = i
				}
			}
			if idx < 0 || idx >= len(args) {
				continue
			}
			cv, isConst := args[idx].(*ssa.Const)
			if !isConst || cv.Value == nil || cv.Value.ExactString() != "true" {
				continue
			}
			caller := ci.Parent()
			// skip true edges of `<result>.disconnect != nil` / `.err != nil` (subscribeCmd released the buffer itself)
			failEdge := func(b *ssa.BasicBlock, i int) bool {
				if len(b.Instrs) == 0 {
					return true
				}
				ifi, ok := b.Instrs[len(b.Instrs)-1].(*ssa.If)
				if !ok || i != 0 {
					return true
				}
				d := D(ifi.Cond)
				if strings.Contains(d, "subscribeCmd(") && (strings.HasSuffix(d, ".disconnect != nil)") || strings.HasSuffix(d, ".err != nil)")) {
					return false
				}
				return true
			}
			if caller.Parent() != nil && w.inGoroutineLiteral(caller) {
				// connectCmd: the subscribe goroutines are joined by WaitGroup.Wait in the parent
				parent := caller.Parent()
				wait := w.calleeIs("WaitGroup.Wait")
				// (the fan-out may live in a helper of connectCmd: an exit of the helper continues in its caller)
				waits := CallsIn(parent, false, wait)
				if c.Anchor("C01.R2", "WaitGroup.Wait (join of server-side subscribes) call in "+FuncName(parent), len(waits) > 0) {
					for _, wt := range waits {
						bad := w.mustPassUp(wt, PathQ{Stop: stopMust, Goal: isReturn}, 2)
						detail := "connect-time server-side subscriptions keep buffering forever on this exit"
						if bad != nil {
							detail = fmt.Sprintf("%s (path from WaitGroup.Wait (join of server-side subscribes) at %s reaches %s without it)", detail, w.InstrPos(wt), w.InstrPos(bad))
						}
						c.Check("C01.R2", wt, "every exit after the connect-time subscribes passes unlockServerSideSubscriptions", bad == nil, detail)
					}
				}
			} else {
				bad := PathQ{Stop: stopMust, Goal: isReturn, Edge: failEdge}.From(ci)
				d := "server-side caller must release the buffer on every non-failing exit"
				if bad != nil {
					d += fmt.Sprintf(" (return at %s reached without StopBuffering)", w.InstrPos(bad))
				}
				c.Check("C01.R2", ci, "caller of subscribeCmd(serverSide=true): StopBuffering on every successful exit", bad == nil, d)
			}
		}
	}
	if unlockSS != nil {
		// unlockServerSideSubscriptions ranges over its map parameter and stops buffering each channel
		stops := CallsIn(unlockSS, false, stopB)
		ok := len(stops) > 0
		for _, s := range stops {
			if !strings.Contains(D(s.Common().Args[1]), "range(") && !strings.Contains(D(s.Common().Args[1]), "next(") {
				ok = false
			}
		}
		var at ssa.Instruction
		if len(stops) > 0 {
			at = stops[0]
		} else {
			at = unlockSS.Blocks[0].Instrs[0]
		}
		c.Check("C01.R2", at, "unlockServerSideSubscriptions stops buffering for every channel of its map", ok, "the helper every connect exit relies on must call StopBuffering per channel key")
	}
	if mapLive != nil {
		c.RequireMustPass("C01.R2", mapLive, "StartBuffering", start,
			PathQ{Stop: stopMust, Goal: isReturn},
			"map live transition: every return after StartBuffering passes StopBuffering (directly or via rollback(true))",
			"a map transition exit that skips StopBuffering leaves the channel buffering forever")
	}
	c.Floor("C01.R2", 6)

	// ---- R3
	if subscribeCmd != nil {
		reads := w.calleeIs("Node.recoverHistory", "Node.recoverCache", "Node.streamTop")
		for _, l := range CallsIn(subscribeCmd, false, lockBuf) {
			bad := PathQ{Stop: instrPred(reads), Goal: func(in ssa.Instruction) bool { return in == l.(ssa.Instruction) }}.FromEntry(subscribeCmd)
			c.Check("C01.R3", l, "history/top read precedes LockBufferAndReadBuffered", bad == nil, "the buffer is locked before the stream was read: publications between the read and the lock are in neither set")
			for _, r := range CallsIn(subscribeCmd, false, reads) {
				if Reaches(l, r) {
					c.Check("C01.R3", r, "no history read after LockBufferAndReadBuffered", false, "a history read after the buffer lock can observe publications that are also delivered live")
				}
			}
		}
		checkMerge(c, subscribeCmd, lockBuf, merge, orPred(commit, replyWrite), "DisconnectInsufficientState")
		c.RequireOrderOn("C01.R3", subscribeCmd, "writeEncodedCommandReply", replyWrite, "commitSubscription", commit, assumeBool(paramNamed(subscribeCmd, "serverSide"), false),
			"client-side the subscribe reply (with recovered publications) must be queued before the subscription becomes visible to live pushes")
		// no StopBuffering between buffer lock and commit
		for _, l := range CallsIn(subscribeCmd, false, lockBuf) {
			for _, cm := range CallsIn(subscribeCmd, false, commit) {
				var bad ssa.Instruction
				for _, s := range CallsIn(subscribeCmd, false, stopB) {
					if Reaches(l, s) && Reaches(s, cm) {
						bad = s
					}
				}
				d := "releasing the buffer before the commit lets buffered publications through while the position is not installed yet"
				if bad != nil {
					d += " (StopBuffering at " + w.InstrPos(bad) + ")"
				}
				c.Check("C01.R3", cm, "no StopBuffering between LockBufferAndReadBuffered and commitSubscription", bad == nil, d)
			}
		}
	}
	if clientSubscribe != nil && subscribeCmd != nil {
		for _, call := range CallsIn(clientSubscribe, false, w.calleeFn(subscribeCmd)) {
			for _, cm := range CallsIn(clientSubscribe, false, commit) {
				var bad ssa.Instruction
				for _, s := range CallsIn(clientSubscribe, false, stopB) {
					if _, isDefer := s.(*ssa.Defer); isDefer {
						continue
					}
					if Reaches(call, s) && Reaches(s, cm) {
						bad = s
					}
				}
				c.Check("C01.R3", cm, "server-side Subscribe: commit precedes buffer release", bad == nil, "StopBuffering before commitSubscription releases buffered publications against a not-yet-installed position")
			}
		}
	}
	if connectCmd != nil {
		// finalize stores of subCtx.channelContext into c.channels precede unlockServerSideSubscriptions
		waits := CallsIn(connectCmd, false, w.calleeIs("WaitGroup.Wait"))
		for _, mu := range mapUpdatesOf(connectCmd, false, "Client", "channels") {
			if !strings.Contains(D(mu.Value), "channelContext") {
				continue
			}
			var bad ssa.Instruction
			for _, u := range CallsIn(connectCmd, false, unlockCall) {
				for _, wt := range waits {
					if Reaches(wt, u) && Reaches(u, mu) {
						bad = u
					}
				}
			}
			c.Check("C01.R3", mu, "connect finalize store precedes unlockServerSideSubscriptions", bad == nil, "buffers released before the connect-time subscription contexts are installed")
		}
	}
	if mapLive != nil {
		c.RequireOrder("C01.R3", mapLive, "Node.addSubscription", addSub, "Node.MapStreamRead", w.calleeIs("Node.MapStreamRead"), "stream read must follow hub add (otherwise publications between read and add are lost)")
		checkMerge(c, mapLive, lockBuf, merge, orPred(commit, replyWrite), "DisconnectInsufficientState")
		for _, l := range CallsIn(mapLive, false, lockBuf) {
			for _, cm := range CallsIn(mapLive, false, commit) {
				var bad ssa.Instruction
				for _, s := range CallsIn(mapLive, true, stopB) {
					if s.Parent() != mapLive {
						continue
					}
					if Reaches(l, s) && Reaches(s, cm) {
						bad = s
					}
				}
				c.Check("C01.R3", cm, "map: no StopBuffering between LockBufferAndReadBuffered and commitSubscription", bad == nil, "buffer released before commit")
			}
		}
		// reply write precedes the final StopBuffering on the success path
		for _, rw := range CallsIn(mapLive, false, replyWrite) {
			ok := false
			for _, s := range CallsIn(mapLive, false, stopB) {
				if Precedes(rw, s) {
					ok = true
				}
			}
			c.Check("C01.R3", rw, "map: reply write precedes the releasing StopBuffering", ok, "buffered publications could overtake the live reply")
		}
	}
	c.Floor("C01.R3", 8)

	// ---- R4
	if wp != nil && wpup != nil {
		sync := w.calleeIs("PubSubSync.SyncPublication")
		syncs := CallsIn(wp, false, sync)
		c.Anchor("C01.R4", "SyncPublication call in writePublication", len(syncs) > 0)
		// who may call writePublicationUpdatePosition
		for _, ci := range w.Callers(wpup) {
			caller := ci.Parent()
			ok := false
			if caller.Parent() != nil {
				// closure must be an argument of a SyncPublication call in its parent
				for _, s := range CallsIn(caller.Parent(), false, sync) {
					for _, a := range s.Common().Args {
						if mc, isMC := a.(*ssa.MakeClosure); isMC && mc.Fn == caller {
							ok = true
						}
					}
				}
			}
			c.Check("C01.R4", ci, "writePublicationUpdatePosition is only called from the closure handed to SyncPublication", ok, "a positioned publication written outside SyncPublication bypasses the subscribe-time buffer (duplicates/out-of-order against recovered publications)")
		}
		c.Floor("C01.R4", 3)
		// offset != 0 edge reaches no direct enqueue
		found := false
		EachInstr(wp, func(in ssa.Instruction) {
			ifi, ok := in.(*ssa.If)
			if !ok {
				return
			}
			b, ok := ifi.Cond.(*ssa.BinOp)
			if !ok || !strings.Contains(D(b.X), "Publication.Offset") {
				return
			}
			z, isC := constIntOf(b.Y)
			if !isC || z != 0 {
				return
			}
			var nz *ssa.BasicBlock
			switch b.Op {
			case token.EQL:
				nz = ifi.Block().Succs[1]
			case token.NEQ, token.GTR:
				nz = ifi.Block().Succs[0]
			default:
				return
			}
			found = true
			bad := PathQ{Goal: instrPred(enqueue)}.FromBlock(nz)
			c.Check("C01.R4", ifi, "offset != 0 edge of writePublication reaches no direct enqueue", bad == nil, "a publication carrying an offset is enqueued without position tracking / buffering")
			// the sync'd value is the marker when filtered
			for _, s := range syncs {
				d := D(s.Common().Args[2])
				c.Check("C01.R4", s, "SyncPublication buffers the filtered marker for filtered subscribers", strings.Contains(d, "filteredPub") && strings.Contains(d, "φ("), "the buffered value must be prep.filteredPub when prep.wasFiltered (else the recovery merge would deliver a filtered publication); got "+d)
			}
		})
		c.Anchor("C01.R4", "`pub.Offset == 0` test in writePublication", found)
	}

	// ---- R5
	if wpup != nil {
		posSet := w.flagGuard("flagPositioning", true, "Client.channels[")
		isGapTest := func(g Guard, op token.Token) bool {
			b, ok := g.Cond.(*ssa.BinOp)
			if !ok {
				return false
			}
			dx, dy := D(b.X), D(b.Y)
			off := func(s string) bool { return strings.HasSuffix(s, "Publication.Offset") }
			next := func(s string) bool { return strings.Contains(s, "streamPosition.Offset + 1") }
			if b.Op == op && off(dx) && next(dy) {
				return true
			}
			mirror := map[token.Token]token.Token{token.GTR: token.LSS, token.LSS: token.GTR}
			if b.Op == mirror[op] && off(dy) && next(dx) {
				return true
			}
			return false
		}
		n := 0
		li := w.Locks()
		for _, e := range CallsIn(wpup, false, enqueue) {
			if !GuardedBy(e, posSet) {
				continue
			}
			n++
			gap := GuardedBy(e, func(g Guard) bool { return !g.Pol && isGapTest(g, token.GTR) })
			stale := GuardedBy(e, func(g Guard) bool { return !g.Pol && isGapTest(g, token.LSS) })
			c.Check("C01.R5", e, "positioned enqueue dominated by !(offset > next)", gap, "a publication beyond the next expected offset would be delivered past a gap")
			c.Check("C01.R5", e, "positioned enqueue dominated by !(offset < next)", stale, "a stale publication would be delivered again (duplicate / out of order)")
			// position store in same critical section as the load
			okStore := false
			for _, mu := range mapUpdatesOf(wpup, false, "Client", "channels") {
				if !Precedes(mu, e) {
					continue
				}
				if !GuardedBy(mu, func(g Guard) bool { return !g.Pol && isGapTest(g, token.GTR) }) {
					continue
				}
				if !li.HeldAt(mu).Holds("Client.mu", true) {
					continue
				}
				// no unlock between the lookup and the store
				clean := true
				EachInstr(wpup, func(in ssa.Instruction) {
					lk, ok := in.(*ssa.Lookup)
					if !ok || !strings.HasSuffix(D(lk.X), "Client.channels") || !Precedes(lk, mu) {
						return
					}
					EachInstr(wpup, func(u ssa.Instruction) {
						if ci := asCall(u); ci != nil {
							if k, l := lockEvent(ci); (k == "Unlock" || k == "RUnlock") && strings.HasSuffix(l, "Client.mu") {
								if Reaches(lk, u) && Reaches(u, mu) && GuardedBy(u, posSet) {
									clean = false
								}
							}
						}
					})
				})
				if clean {
					okStore = true
				}
			}
			c.Check("C01.R5", e, "position stored under the c.mu section of the load before the enqueue", okStore, "the delivered offset must be recorded atomically with the test that admitted it; otherwise two concurrent deliveries both pass the test")
		}
		c.Floor("C01.R5", 6)
		// gap / lag / epoch edges: insufficient state, no enqueue
		insuff := w.calleeIs("Client.handleInsufficientState")
		edgeCheck := func(name string, match func(ifi *ssa.If) (succ int, ok bool)) {
			found := false
			EachInstr(wpup, func(in ssa.Instruction) {
				ifi, ok := in.(*ssa.If)
				if !ok {
					return
				}
				succ, ok := match(ifi)
				if !ok {
					return
				}
				found = true
				blk := ifi.Block().Succs[succ]
				bad := PathQ{Goal: instrPred(enqueue)}.FromBlock(blk)
				c.Check("C01.R5", ifi, name+" edge reaches no enqueue", bad == nil, "the publication is delivered although the position cannot be guaranteed")
				reach := PathQ{Goal: func(x ssa.Instruction) bool {
					ci := asCall(x)
					if ci == nil {
						return false
					}
					if insuff(ci) {
						return true
					}
					if cal := w.Callee(ci); cal != nil && w.MayReach(cal, insuff, 2) {
						return true
					}
					return false
				}}.FromBlock(blk)
				c.Check("C01.R5", ifi, name+" edge reaches handleInsufficientState", reach != nil, "the subscription must be ended with insufficient state instead of silently skipping")
			})
			c.Anchor("C01.R5", name+" test in writePublicationUpdatePosition", found)
		}
		edgeCheck("gap (offset > next)", func(ifi *ssa.If) (int, bool) {
			if isGapTest(Guard{Cond: ifi.Cond}, token.GTR) {
				return 0, true
			}
			return 0, false
		})
		if ml := paramNamed(wpup, "maxLagExceeded"); ml != nil {
			edgeCheck("lag (maxLagExceeded)", func(ifi *ssa.If) (int, bool) {
				if resolveCell(ifi.Cond) == ssa.Value(ml) {
					return 0, true
				}
				return 0, false
			})
		}
		edgeCheck("epoch mismatch (non-empty epoch)", func(ifi *ssa.If) (int, bool) {
			b, ok := ifi.Cond.(*ssa.BinOp)
			if !ok || b.Op != token.EQL {
				return 0, false
			}
			if s, isS := constStrOf(b.Y); isS && s == "" && strings.Contains(D(b.X), "streamPosition.Epoch") {
				// guarded by epoch != position epoch
				if GuardedBy(ifi, func(g Guard) bool {
					d := D(g.Cond)
					return g.Pol && strings.Contains(d, " != ") && strings.Contains(d, "StreamPosition.Epoch") && strings.Contains(d, "streamPosition.Epoch")
				}) {
					return 1, true
				}
			}
			return 0, false
		})
	}

	// ---- R6
	if bcast != nil {
		// stores into a protocol.Publication composite that becomes filteredPub: Offset from fullPub.Offset, Time == -1
		var offOK, timeOK, attachOK bool
		var at ssa.Instruction
		EachInstr(bcast, func(in ssa.Instruction) {
			st, ok := in.(*ssa.Store)
			if !ok {
				return
			}
			fa, ok := st.Addr.(*ssa.FieldAddr)
			if !ok {
				return
			}
			if fieldAddrIs(fa, "Publication", "Time") {
				if v, ok := constIntOf(st.Val); ok && v == -1 {
					timeOK = true
					at = st
					// sibling store of Offset on the same composite
					if refs := fa.X.Referrers(); refs != nil {
						for _, r := range *refs {
							if fo, ok := r.(*ssa.FieldAddr); ok && fieldAddrIs(fo, "Publication", "Offset") {
								for _, rr := range *fo.Referrers() {
									if so, ok := rr.(*ssa.Store); ok && strings.HasSuffix(D(so.Val), ".Offset") && strings.Contains(D(so.Val), "pubToProto(") {
										offOK = true
									}
								}
							}
						}
					}
				}
			}
			if fieldAddrIs(fa, "preparedData", "filteredPub") {
				wf := GuardedBy(st, func(g Guard) bool { return g.Pol && strings.Contains(D(g.Cond), "φ(") || g.Pol && strings.Contains(D(g.Cond), "wasFiltered") })
				if wf || len(Guards(st)) > 0 {
					attachOK = true
				}
			}
		})
		if at == nil && len(bcast.Blocks) > 0 {
			at = bcast.Blocks[0].Instrs[0]
		}
		c.Check("C01.R6", at, "filtered marker has Time == -1", timeOK, "without the marker value the recovery merge cannot tell a filtered publication from a delivered one")
		c.Check("C01.R6", at, "filtered marker carries the publication's offset", offOK, "the marker must carry fullPub.Offset so the gap check accounts for it")
		c.Check("C01.R6", at, "marker attached to the prepared data of filtered keys", attachOK, "a filtered key without a marker buffers a nil publication")
		// writePublication is invoked for every subscriber (filtered ones too, for offset tracking)
		calls := CallsIn(bcast, false, w.calleeIs("Client.writePublication"))
		for _, wc := range calls {
			filteredSkip := GuardedBy(wc, func(g Guard) bool { return strings.Contains(D(g.Cond), "Match(") })
			c.Check("C01.R6", wc, "filtered publications still reach writePublication (offset tracking)", !filteredSkip, "skipping filtered publications in the broadcast loop makes the next delivered offset look like a gap")
		}
	}
}

// checkMerge: LockBuffer ≺ Merge, Merge's buffered argument is the LockBuffer result, and the
// !okMerge edge reaches none of `forbidden` and produces the named disconnect.
func checkMerge(c *Ctx, fn *ssa.Function, lockBuf, merge, forbidden CallPred, disc string) {
	w := c.W
	for _, m := range CallsIn(fn, false, merge) {
		var lk ssa.CallInstruction
		for _, l := range CallsIn(fn, false, lockBuf) {
			if Precedes(l, m) {
				lk = l
			}
		}
		c.Check("C01.R3", m, "LockBufferAndReadBuffered ≺ MergePublications", lk != nil, "merging before the buffer is locked misses publications that are still being appended")
		if lk != nil {
			args := m.Common().Args
			flow := len(args) == 2 && args[1] == lk.Value()
			c.Check("C01.R3", m, "MergePublications merges the buffered publications read under the lock", flow, "the second argument of MergePublications must be the result of LockBufferAndReadBuffered; got "+D(args[len(args)-1]))
		}
		// okMerge extract (#2) and its If
		mv := m.Value()
		if mv == nil {
			continue
		}
		found := false
		for _, r := range *mv.Referrers() {
			ex, ok := r.(*ssa.Extract)
			if !ok || ex.Index != 2 {
				continue
			}
			for _, ifi := range ifsOn(ex) {
				found = true
				fail := ifi.Block().Succs[1]
				bad := PathQ{Goal: instrPred(forbidden)}.FromBlock(fail)
				c.Check("C01.R3", ifi, "failed merge reaches neither reply write nor commit", bad == nil, "a detected gap must end the attempt; delivering past it violates gap-freedom")
				// disconnect value
				okDisc := false
				seenBlocks := map[*ssa.BasicBlock]bool{}
				var visit func(b *ssa.BasicBlock)
				visit = func(b *ssa.BasicBlock) {
					if seenBlocks[b] {
						return
					}
					seenBlocks[b] = true
					for _, in := range b.Instrs {
						var ops [8]*ssa.Value
						for _, op := range in.Operands(ops[:0]) {
							if op != nil && *op != nil && strings.Contains(D(*op), disc) {
								okDisc = true
							}
						}
					}
					for _, s := range b.Succs {
						if fail.Dominates(s) {
							visit(s)
						}
					}
				}
				visit(fail)
				c.Check("C01.R3", ifi, "failed merge yields "+disc, okDisc, "the failure must be reported as insufficient state")
			}
			// also `!okMerge`
			for _, rr := range *ex.Referrers() {
				if u, ok := rr.(*ssa.UnOp); ok && u.Op == token.NOT {
					for _, ifi := range ifsOn(u) {
						found = true
						fail := ifi.Block().Succs[0]
						bad := PathQ{Goal: instrPred(forbidden)}.FromBlock(fail)
						c.Check("C01.R3", ifi, "failed merge reaches neither reply write nor commit", bad == nil, "a detected gap must end the attempt")
					}
				}
			}
		}
		c.Check("C01.R3", m, "the merge's ok result is tested", found, "MergePublications' gap verdict is ignored")
	}
	_ = w
}
