package main

import (
	"fmt"
	"go/ast"
	"go/constant"
	"go/token"
	"go/types"
	"sort"
	"strings"

	"golang.org/x/tools/go/ssa"
)

func init() {
	register(&PropMeta{
		ID:    "C29",
		Level: "other",
		Explanation: "(R1) advanceFrame rejects unknown opcodes, control frames longer than 125 bytes or without FIN, RSV2/RSV3, and a MASK bit that does not match the endpoint's role, each through the protocol-error close; " +
			"(R2) every return of a non-I/O error passes a close-frame write (protocol error, or message-too-big for the read limit); (R3) the per-message length counter is overflow-checked after every accumulation and compared with the read limit independently of that check, and limitedReader never reads past its remaining budget.",
		NotDecided: "message reassembly and inflation results, UTF-8 validation of text, RSV1 placement across fragments, 'never panics' for the whole reader (only the named checks).",
		Rules: map[string]string{"C29.R1": "K7/K2 checks present and fatal", "C29.R2": "K1 must-pass: error return … close frame", "C29.R3": "K2: overflow and limit checks after accumulation"},
		Run: runC29,
	})
	register(&PropMeta{
		ID:    "C30",
		Level: "other",
		Explanation: "(R1) both frame writers (WriteControl and messageWriter.flushFrame) set the MASK bit exactly on the client edge (!isServer) and mask the payload there and only there; (R2) both reject control payloads above 125 bytes; the mask routine variants agree in signature across build configurations (thorough tier loads them).",
		NotDecided: "round-trip equality of payloads (runtime bytes): that half of the property is not applicable to static analysis.",
		Rules: map[string]string{"C30.R1": "K2: mask bit and masking on the client edge only", "C30.R2": "K2: control payload bound", "C30.R3": "K1: per-frame mask state (position restarts with every frame's key)"},
		Run: runC30,
	})
	register(&PropMeta{
		ID:    "C31",
		Level: "other",
		Explanation: "(R1) the set of close codes isValidReceivedCloseCode accepts, computed exactly by abstract interpretation of the function over the finite domain 0…65535 (comparisons with constants, lookups in the constant table), contains every code the RFC allows on the wire (1000–1003, 1007–1011, 3000–4999) and none it forbids (0–999, 1004–1006, 1015, 1016–2999, ≥5000); " +
			"(R2) every package-level Disconnect has a code in 3000–4999 and a reason that fits a control frame together with the code; (R3) websocketTransport.Close writes a close frame with the disconnect's code and reason unless the connection is already closed; (R4) the recorded close code is written only by compare-and-swap from zero (first close wins); (R5) every failing header test of Upgrade answers through returnError before any hijack.",
		NotDecided: "header parsing values, subprotocol/compression negotiation results, UTF-8 of close reasons.",
		Rules: map[string]string{"C31.R1": "exact finite-domain abstract interpretation of the close-code predicate vs the RFC table", "C31.R2": "K8 constant table of Disconnect values", "C31.R3": "K2 in websocketTransport.Close", "C31.R4": "K4 who-may-write closeCode", "C31.R5": "K1: error before hijack"},
		Run: runC31,
	})
}

// ---- finite-domain set analysis ----------------------------------------------------------------

const fdSize = 65536

type fdSet []uint64

func fdNew() fdSet            { return make(fdSet, fdSize/64) }
func fdAll() fdSet            { s := fdNew(); for i := range s { s[i] = ^uint64(0) }; return s }
func (s fdSet) has(i int) bool { return i >= 0 && i < fdSize && s[i/64]&(1<<(uint(i)%64)) != 0 }
func (s fdSet) set(i int) {
	if i >= 0 && i < fdSize {
		s[i/64] |= 1 << (uint(i) % 64)
	}
}
func (s fdSet) and(o fdSet) fdSet { r := fdNew(); for i := range s { r[i] = s[i] & o[i] }; return r }
func (s fdSet) or(o fdSet) fdSet  { r := fdNew(); for i := range s { r[i] = s[i] | o[i] }; return r }
func (s fdSet) not() fdSet        { r := fdNew(); for i := range s { r[i] = ^s[i] }; return r }
func (s fdSet) empty() bool {
	for _, w := range s {
		if w != 0 {
			return false
		}
	}
	return true
}

// fdAnalysis computes, for a function of one int parameter returning bool, the exact set of
// parameter values in 0…65535 for which it returns true. It is a forward dataflow over the CFG with
// the powerset domain (exact for branch conditions that compare the parameter with constants or look
// it up in a constant map). Returns ok=false when the function uses anything else.
type fdAnalysis struct {
	w     *World
	fn    *ssa.Function
	param *ssa.Parameter
	edge  map[[2]*ssa.BasicBlock]fdSet
	reach map[*ssa.BasicBlock]fdSet
	why   string
}

func (a *fdAnalysis) isParam(v ssa.Value) bool {
	for i := 0; i < 4; i++ {
		if v == ssa.Value(a.param) {
			return true
		}
		if c, ok := v.(*ssa.Convert); ok {
			v = c.X
			continue
		}
		if c, ok := v.(*ssa.ChangeType); ok {
			v = c.X
			continue
		}
		break
	}
	return false
}

func (a *fdAnalysis) constMapTrueKeys(g *ssa.Global) (fdSet, bool) {
	pkg := a.w.ByPath[g.Pkg.Pkg.Path()]
	if pkg == nil {
		return nil, false
	}
	// never reassigned
	n := 0
	for _, f := range a.w.AllFuncs {
		EachInstr(f, func(in ssa.Instruction) {
			if st, ok := in.(*ssa.Store); ok && st.Addr == g {
				n++
			}
			if mu, ok := in.(*ssa.MapUpdate); ok && strings.HasSuffix(D(mu.Map), g.Pkg.Pkg.Name()+"."+g.Name()) && f.Name() != "init" {
				n += 2
			}
		})
	}
	if n > 1 {
		return nil, false
	}
	var lit *ast.CompositeLit
	for _, f := range pkg.Syntax {
		ast.Inspect(f, func(nd ast.Node) bool {
			vs, ok := nd.(*ast.ValueSpec)
			if !ok {
				return true
			}
			for i, name := range vs.Names {
				if name.Name == g.Name() && i < len(vs.Values) {
					if cl, ok := vs.Values[i].(*ast.CompositeLit); ok {
						lit = cl
					}
				}
			}
			return true
		})
	}
	if lit == nil {
		return nil, false
	}
	set := fdNew()
	for _, el := range lit.Elts {
		kv, ok := el.(*ast.KeyValueExpr)
		if !ok {
			return nil, false
		}
		k, v := pkg.TypesInfo.Types[kv.Key], pkg.TypesInfo.Types[kv.Value]
		if k.Value == nil || v.Value == nil || v.Value.Kind() != constant.Bool {
			return nil, false
		}
		ki, _ := constant.Int64Val(constant.ToInt(k.Value))
		if constant.BoolVal(v.Value) {
			set.set(int(ki))
		}
	}
	return set, true
}

func (a *fdAnalysis) trueSet(v ssa.Value, depth int) (fdSet, bool) {
	if depth > 12 {
		a.why = "expression too deep"
		return nil, false
	}
	switch x := v.(type) {
	case *ssa.Const:
		if b, ok := boolConst(x); ok {
			if b {
				return fdAll(), true
			}
			return fdNew(), true
		}
	case *ssa.UnOp:
		if x.Op == token.NOT {
			s, ok := a.trueSet(x.X, depth+1)
			if !ok {
				return nil, false
			}
			return s.not(), true
		}
	case *ssa.BinOp:
		var c int64
		var haveC, paramLeft bool
		if a.isParam(x.X) {
			c, haveC = constIntOf(x.Y)
			paramLeft = true
		} else if a.isParam(x.Y) {
			c, haveC = constIntOf(x.X)
		}
		if haveC {
			s := fdNew()
			for i := 0; i < fdSize; i++ {
				l, r := int64(i), c
				if !paramLeft {
					l, r = c, int64(i)
				}
				var t bool
				switch x.Op {
				case token.EQL:
					t = l == r
				case token.NEQ:
					t = l != r
				case token.LSS:
					t = l < r
				case token.LEQ:
					t = l <= r
				case token.GTR:
					t = l > r
				case token.GEQ:
					t = l >= r
				default:
					a.why = "unsupported operator " + x.Op.String()
					return nil, false
				}
				if t {
					s.set(i)
				}
			}
			return s, true
		}
		// boolean combination of analysable values (& | on bools)
		if bt, ok := x.Type().Underlying().(*types.Basic); ok && bt.Kind() == types.Bool && (x.Op == token.AND || x.Op == token.OR) {
			l, ok1 := a.trueSet(x.X, depth+1)
			r, ok2 := a.trueSet(x.Y, depth+1)
			if ok1 && ok2 {
				if x.Op == token.AND {
					return l.and(r), true
				}
				return l.or(r), true
			}
		}
	case *ssa.Lookup:
		if !x.CommaOk && a.isParam(x.Index) {
			if u, ok := x.X.(*ssa.UnOp); ok && u.Op == token.MUL {
				if g, ok := u.X.(*ssa.Global); ok {
					if s, ok := a.constMapTrueKeys(g); ok {
						return s, true
					}
				}
			}
		}
	case *ssa.Phi:
		res := fdNew()
		for i, e := range x.Edges {
			pred := x.Block().Preds[i]
			er := a.edge[[2]*ssa.BasicBlock{pred, x.Block()}]
			if er == nil {
				er = fdNew()
			}
			s, ok := a.trueSet(e, depth+1)
			if !ok {
				return nil, false
			}
			res = res.or(er.and(s))
		}
		return res, true
	}
	a.why = "unsupported value " + D(v)
	return nil, false
}

func fdAcceptSet(w *World, fn *ssa.Function) (fdSet, string) {
	if len(fn.Params) != 1 {
		return nil, "expected one parameter"
	}
	a := &fdAnalysis{w: w, fn: fn, param: fn.Params[0], edge: map[[2]*ssa.BasicBlock]fdSet{}, reach: map[*ssa.BasicBlock]fdSet{}}
	// loops are not supported
	for _, b := range fn.Blocks {
		for _, s := range b.Succs {
			if s.Dominates(b) {
				return nil, "loop in predicate"
			}
		}
	}
	// topological order = block index order of a reducible acyclic CFG built by go/ssa (dominators first)
	order := append([]*ssa.BasicBlock{}, fn.Blocks...)
	sort.SliceStable(order, func(i, j int) bool { return order[i].Index < order[j].Index })
	// ensure predecessors processed first: iterate until stable (acyclic ⇒ ≤ n passes)
	a.reach[fn.Blocks[0]] = fdAll()
	accept := fdNew()
	for pass := 0; pass < len(order)+1; pass++ {
		accept = fdNew()
		for _, b := range order {
			var r fdSet
			if b == fn.Blocks[0] {
				r = fdAll()
			} else {
				r = fdNew()
				for _, p := range b.Preds {
					if e := a.edge[[2]*ssa.BasicBlock{p, b}]; e != nil {
						r = r.or(e)
					}
				}
			}
			a.reach[b] = r
			if len(b.Instrs) == 0 {
				continue
			}
			switch t := b.Instrs[len(b.Instrs)-1].(type) {
			case *ssa.If:
				ts, ok := a.trueSet(t.Cond, 0)
				if !ok {
					return nil, a.why
				}
				a.edge[[2]*ssa.BasicBlock{b, b.Succs[0]}] = r.and(ts)
				a.edge[[2]*ssa.BasicBlock{b, b.Succs[1]}] = r.and(ts.not())
			case *ssa.Jump:
				a.edge[[2]*ssa.BasicBlock{b, b.Succs[0]}] = r
			case *ssa.Return:
				if len(t.Results) != 1 {
					return nil, "expected one result"
				}
				ts, ok := a.trueSet(t.Results[0], 0)
				if !ok {
					return nil, a.why
				}
				accept = accept.or(r.and(ts))
			default:
				return nil, fmt.Sprintf("unsupported terminator %T", t)
			}
		}
	}
	return accept, ""
}

func fdDescribe(s fdSet) string {
	var parts []string
	start := -1
	for i := 0; i <= fdSize; i++ {
		in := i < fdSize && s.has(i)
		if in && start < 0 {
			start = i
		}
		if !in && start >= 0 {
			if start == i-1 {
				parts = append(parts, fmt.Sprint(start))
			} else {
				parts = append(parts, fmt.Sprintf("%d-%d", start, i-1))
			}
			start = -1
		}
	}
	return strings.Join(parts, ",")
}

// ---- C29 ------------------------------------------------------------------------------------------

func runC29(c *Ctx) {
	w := c.W
	af := c.Fn("C29.R1", "internal/websocket", "(*Conn).advanceFrame")
	if af == nil {
		return
	}
	protoErr := w.calleeIs("Conn.handleProtocolError")
	// R1: the error list is fed by each mandated check; the checks are present
	type chk struct{ name, lit string }
	msgs := map[string]bool{}
	EachInstr(af, func(in ssa.Instruction) {
		var ops [8]*ssa.Value
		for _, op := range in.Operands(ops[:0]) {
			if op != nil && *op != nil {
				if s, ok := constStrOf(*op); ok {
					msgs[s] = true
				}
			}
		}
	})
	for _, k := range []chk{{"RSV2 rejected", "RSV2 set"}, {"RSV3 rejected", "RSV3 set"}, {"control frame longer than 125 rejected", "len > 125 for control"}, {"fragmented control frame rejected", "FIN not set on control"}, {"wrong MASK bit rejected", "bad MASK"}, {"data frame inside a fragmented message rejected", "data before FIN"}, {"stray continuation rejected", "continuation after FIN"}} {
		c.CheckAt("C29.R1", "(*Conn).advanceFrame: "+k.name, w.Pos(af.Pos()), msgs[k.lit], "the check that reports "+fmt.Sprintf("%q", k.lit)+" is gone")
	}
	// unknown opcode: a default arm adding "bad opcode"
	okOp := false
	for m := range msgs {
		if strings.HasPrefix(m, "bad opcode") {
			okOp = true
		}
	}
	c.CheckAt("C29.R1", "(*Conn).advanceFrame: unknown opcode rejected", w.Pos(af.Pos()), okOp, "every opcode outside {continuation,text,binary,close,ping,pong} is a protocol violation")
	// control-size test uses the 125 constant; MASK test compares with isServer
	okSize, okMask := false, false
	EachInstr(af, func(in ssa.Instruction) {
		if b, ok := in.(*ssa.BinOp); ok {
			if b.Op == token.GTR && strings.HasSuffix(D(b.X), "Conn.readRemaining") {
				if v, isC := constIntOf(b.Y); isC && v == 125 {
					okSize = true
				}
			}
			if (b.Op == token.NEQ || b.Op == token.EQL) && strings.HasSuffix(D(b.Y), "Conn.isServer") {
				okMask = true
			}
		}
	})
	c.CheckAt("C29.R1", "(*Conn).advanceFrame: control payload bound is 125", w.Pos(af.Pos()), okSize, "RFC 6455 §5.5")
	c.CheckAt("C29.R1", "(*Conn).advanceFrame: MASK compared with the endpoint role", w.Pos(af.Pos()), okMask, "client frames masked, server frames unmasked")
	// the collected errors are fatal: len(errs) > 0 edge returns handleProtocolError
	okFatal := false
	EachInstr(af, func(in ssa.Instruction) {
		ifi, ok := in.(*ssa.If)
		if !ok {
			return
		}
		b, ok := ifi.Cond.(*ssa.BinOp)
		if !ok || b.Op != token.GTR || !strings.HasPrefix(D(b.X), "len(") {
			return
		}
		if z, isZ := constIntOf(b.Y); !isZ || z != 0 {
			return
		}
		if (PathQ{Stop: instrPred(protoErr), Goal: isReturn}).FromBlock(ifi.Block().Succs[0]) == nil {
			okFatal = true
		}
	})
	c.CheckAt("C29.R1", "(*Conn).advanceFrame: collected violations end in the protocol-error close", w.Pos(af.Pos()), okFatal, "a detected violation must be answered with a protocol-error close frame and an error")

	// R2: every return of a freshly created / sentinel non-I/O error passes a close-frame write
	closeWrite := func(in ssa.Instruction) bool {
		ci := asCall(in)
		if ci == nil {
			return false
		}
		return protoErr(ci) || w.calleeIs("Conn.WriteControl")(ci)
	}
	n := 0
	EachInstr(af, func(in ssa.Instruction) {
		r, ok := in.(*ssa.Return)
		if !ok {
			return
		}
		vals := retVals(r)
		if len(vals) != 2 || isNilConst(vals[1]) {
			return
		}
		d := D(vals[1])
		// I/O errors propagate from read()/CopyN/handlers: they are not protocol violations
		origins := errOrigins(vals[1], 0)
		nonIO := false
		for _, o := range origins {
			if strings.Contains(o, "ErrReadLimit") || strings.Contains(o, "setReadRemaining(") || strings.Contains(o, "errors.New(") || strings.Contains(o, "handleProtocolError(") {
				nonIO = true
			}
		}
		if !nonIO {
			return
		}
		// setReadRemaining only fails for negative values: a length widened from 16 unsigned bits
		// (or the 7-bit field) cannot be negative, so that error return is unreachable
		onlyNarrow := true
		for _, o := range origins {
			if !(strings.Contains(o, "setReadRemaining(") && strings.Contains(o, "Uint16(")) {
				onlyNarrow = false
			}
		}
		if onlyNarrow {
			return
		}
		d = strings.Join(origins, " | ")
		n++
		target := ssa.Instruction(r)
		bad := PathQ{Stop: closeWrite, Goal: func(x ssa.Instruction) bool { return x == target }}.FromEntry(af)
		kind := "protocol"
		switch {
		case strings.Contains(d, "setReadRemaining("):
			kind = "frame length with the MSB set"
		case strings.Contains(d, "ErrReadLimit"):
			kind = "ErrReadLimit"
		}
		c.Check("C29.R2", r, "non-I/O error return ("+kind+") preceded by a close-frame write", bad == nil, "every protocol violation or limit breach is rejected with an error AND a close frame (protocol error / message too big); returned value: "+d)
	})
	c.Anchor("C29.R2", "non-I/O error returns in advanceFrame", n >= 3)

	// R3: overflow check after each accumulation of readLength
	k := 0
	for _, st := range storesToField(af, false, "Conn", "readLength") {
		b, ok := st.Val.(*ssa.BinOp)
		if !ok || b.Op != token.ADD {
			continue
		}
		k++
		// every path from the store to a nil-error return passes a `readLength < 0` test
		isNegTest := func(in ssa.Instruction) bool {
			ifi, ok := in.(*ssa.If)
			if !ok {
				return false
			}
			bb, ok := ifi.Cond.(*ssa.BinOp)
			if !ok || bb.Op != token.LSS || !strings.HasSuffix(D(bb.X), "Conn.readLength") {
				return false
			}
			z, isZ := constIntOf(bb.Y)
			return isZ && z == 0
		}
		isLimitTest := func(in ssa.Instruction) bool {
			ifi, ok := in.(*ssa.If)
			if !ok {
				return false
			}
			bb, ok := ifi.Cond.(*ssa.BinOp)
			return ok && bb.Op == token.GTR && strings.HasSuffix(D(bb.X), "Conn.readLength") && strings.HasSuffix(D(bb.Y), "Conn.readLimit")
		}
		okRet := func(in ssa.Instruction) bool {
			r, ok := in.(*ssa.Return)
			if !ok {
				return false
			}
			vals := retVals(r)
			return len(vals) == 2 && isNilConst(vals[1])
		}
		bad := PathQ{Stop: isNegTest, Goal: okRet}.From(st)
		c.Check("C29.R3", st, "accumulated message length is overflow-checked before the frame is accepted", bad == nil, "the sum over fragments can wrap negative (8-byte lengths): a negative counter never exceeds the read limit again and the limit is bypassed")
		// limit comparison on every path where a limit is configured
		bad2 := PathQ{Stop: isLimitTest, Goal: okRet, EdgeCond: func(cond ssa.Value, outcome bool) bool {
			if bb, ok := cond.(*ssa.BinOp); ok && bb.Op == token.GTR && strings.HasSuffix(D(bb.X), "Conn.readLimit") && !outcome {
				return false // no limit configured
			}
			return true
		}}.From(st)
		c.Check("C29.R3", st, "accumulated message length compared with the read limit", bad2 == nil, "the read limit must be enforced per message across fragments")
		// the overflow test does not depend on a limit being configured
		for _, in := range af.Blocks {
			_ = in
		}
		EachInstr(af, func(in ssa.Instruction) {
			if isNegTest(in) && Reaches(st, in) {
				dep := GuardedBy(in, func(g Guard) bool {
					bb, ok := g.Cond.(*ssa.BinOp)
					return ok && strings.HasSuffix(D(bb.X), "Conn.readLimit")
				})
				c.Check("C29.R3", in, "overflow check is unconditional", !dep, "the counter is accumulated unconditionally, so must be the overflow check")
			}
		})
	}
	c.Anchor("C29.R3", "accumulation of Conn.readLength in advanceFrame", k >= 1)
	// message-too-big close on the limit edge
	okTooBig := false
	for _, wc := range CallsIn(af, false, w.calleeIs("Conn.WriteControl")) {
		if strings.Contains(D(wc.Common().Args[2]), "FormatCloseMessage(1009") {
			okTooBig = true
		}
	}
	c.CheckAt("C29.R3", "(*Conn).advanceFrame: read-limit breach answered with close 1009 (message too big)", w.Pos(af.Pos()), okTooBig, "the limit must be enforced with a message-too-big close")
}

// ---- C30 ------------------------------------------------------------------------------------------

func runC30(c *Ctx) {
	w := c.W
	maskBit, okMB := w.ConstInt("internal/websocket", "maskBit")
	if !c.Anchor("C30.R1", "websocket.maskBit", okMB) {
		return
	}
	isClientEdge := func(g Guard) bool {
		return strings.HasSuffix(D(g.Cond), ".isServer") && !g.Pol
	}
	anyRoleEdge := func(g Guard) bool { return strings.HasSuffix(D(g.Cond), ".isServer") }
	for _, name := range []string{"(*Conn).WriteControl", "(*messageWriter).flushFrame"} {
		fn := c.Fn("C30.R1", "internal/websocket", name)
		if fn == nil {
			continue
		}
		n := 0
		EachInstr(fn, func(in ssa.Instruction) {
			b, ok := in.(*ssa.BinOp)
			if !ok || b.Op != token.OR {
				return
			}
			if v, isC := constIntOf(b.Y); !isC || v != maskBit {
				return
			}
			// finalBit has the same value; the MASK computation is the one conditioned on the endpoint role
			if !GuardedBy(in, anyRoleEdge) {
				return
			}
			n++
			c.Check("C30.R1", in, "MASK bit set exactly on the client edge", Guarded(in, isClientEdge), "server frames must be unmasked, client frames masked (RFC 6455 §5.1)")
		})
		c.Anchor("C30.R1", "MASK bit computation in "+name, n >= 1)
		masks := CallsIn(fn, false, w.calleeIs("websocket.maskBytes", "maskBytes"))
		c.Anchor("C30.R1", "payload masking in "+name, len(masks) >= 1)
		for _, m := range masks {
			c.Check("C30.R1", m, "payload masked only on the client edge", Guarded(m, isClientEdge), "masking server frames (or not masking client frames) corrupts the payload at the peer")
		}
		// R2 control bound
		okB := false
		EachInstr(fn, func(in ssa.Instruction) {
			if b, ok := in.(*ssa.BinOp); ok && b.Op == token.GTR {
				if v, isC := constIntOf(b.Y); isC && v == 125 {
					okB = true
				}
			}
		})
		c.CheckAt("C30.R2", name+": control payloads above 125 bytes rejected", w.Pos(fn.Pos()), okB, "control frames are at most 125 bytes")
	}
	if v, ok := w.ConstInt("internal/websocket", "maxControlFramePayloadSize"); c.Anchor("C30.R2", "maxControlFramePayloadSize", ok) {
		c.CheckAt("C30.R2", "websocket.maxControlFramePayloadSize == 125", "internal/websocket/conn.go", v == 125, fmt.Sprint(v))
	}
	// mask routine present with the expected signature in this build configuration
	mb := c.Fn("C30.R1", "internal/websocket", "maskBytes")
	if mb != nil {
		okSig := len(mb.Params) == 3 && mb.Signature.Results().Len() == 1
		c.CheckAt("C30.R1", "websocket.maskBytes(key, pos, b) int ["+w.Config+"]", w.Pos(mb.Pos()), okSig, "mask routine variant of this build configuration")
	}
	runC30MaskState(c)
}

// runC30MaskState (C30.R3): RFC 6455 §5.3 restarts the masking key at offset 0 for every frame.
// Reader: the function that stores a frame's masking key also stores readMaskPos = 0 on every path
// through that store, and the running position is only advanced by the data read that unmasks with it.
// Writer: each frame is masked from position 0 of its own key.
func runC30MaskState(c *Ctx) {
	w := c.W
	nKey := 0
	for _, f := range w.AllFuncs {
		if !w.inModule(f) || !strings.Contains(FuncName(f), "websocket") || strings.HasSuffix(w.Pos(f.Pos()), "_test.go") {
			continue
		}
		var keyWrites []ssa.Instruction
		EachInstr(f, func(in ssa.Instruction) {
			call, ok := in.(*ssa.Call)
			if !ok {
				return
			}
			if b, isB := call.Call.Value.(*ssa.Builtin); isB && b.Name() == "copy" && len(call.Call.Args) == 2 {
				if sl, ok := call.Call.Args[0].(*ssa.Slice); ok {
					if fa, ok := sl.X.(*ssa.FieldAddr); ok && fieldAddrIs(fa, "Conn", "readMaskKey") {
						keyWrites = append(keyWrites, in)
					}
				}
			}
		})
		for _, st := range storesToField(f, false, "Conn", "readMaskKey") {
			keyWrites = append(keyWrites, st)
		}
		if len(keyWrites) == 0 {
			continue
		}
		reset := func(in ssa.Instruction) bool {
			st, ok := in.(*ssa.Store)
			if !ok {
				return false
			}
			fa, ok := st.Addr.(*ssa.FieldAddr)
			if !ok || !fieldAddrIs(fa, "Conn", "readMaskPos") {
				return false
			}
			v, isC := constIntOf(st.Val)
			return isC && v == 0
		}
		for _, kw := range keyWrites {
			nKey++
			target := kw
			before := PathQ{Stop: reset, Goal: func(in ssa.Instruction) bool { return in == target }}.FromEntry(f) != nil
			after := PathQ{Stop: reset, Goal: isReturn}.From(kw) != nil
			c.Check("C30.R3", kw, "a new frame's masking key restarts the mask position at 0 in the same function", !(before && after),
				"RFC 6455 masks every frame from offset 0 of its own key: carrying the position of the previous frame over unmasks a continuation frame whose predecessor's length is not a multiple of 4 with the wrong key bytes")
		}
	}
	c.Anchor("C30.R3", "store of a received frame's masking key", nKey >= 1)
	// the running position only advances through maskBytes over the bytes just read
	for _, st := range w.FieldStores("Conn", "readMaskPos") {
		if v, isC := constIntOf(st.Val); isC && v == 0 {
			continue
		}
		ok := false
		if call, isCall := st.Val.(*ssa.Call); isCall {
			if cal := call.Call.StaticCallee(); cal != nil && cal.Name() == "maskBytes" && len(call.Call.Args) == 3 {
				ok = loadsField(call.Call.Args[1], "Conn", "readMaskPos") && strings.Contains(D(call.Call.Args[0]), "readMaskKey")
			}
		}
		c.Check("C30.R3", st, "mask position advances only by unmasking the bytes just read with the frame's key", ok, "value "+D(st.Val))
	}
	// writer: each outgoing frame is masked from position 0
	for _, name := range []string{"(*Conn).WriteControl", "(*messageWriter).flushFrame"} {
		fn := w.Func("internal/websocket", name)
		if fn == nil {
			continue
		}
		for _, m := range CallsIn(fn, false, w.calleeIs("websocket.maskBytes", "maskBytes")) {
			v, isC := constIntOf(m.Common().Args[1])
			c.Check("C30.R3", m, "outgoing frame masked from position 0 of its key", isC && v == 0, "got "+D(m.Common().Args[1]))
		}
	}
}

// ---- C31 ------------------------------------------------------------------------------------------

func runC31(c *Ctx) {
	w := c.W
	pred := c.Fn("C31.R1", "internal/websocket", "isValidReceivedCloseCode")
	if pred != nil {
		acc, why := fdAcceptSet(w, pred)
		if c.Anchor("C31.R1", "finite-domain evaluation of isValidReceivedCloseCode ("+why+")", acc != nil) {
			must := fdNew()
			for _, v := range []int{1000, 1001, 1002, 1003, 1007, 1008, 1009, 1010, 1011} {
				must.set(v)
			}
			for v := 3000; v <= 4999; v++ {
				must.set(v)
			}
			forbid := fdNew()
			for v := 0; v < fdSize; v++ {
				switch {
				case v <= 999, v == 1004, v == 1005, v == 1006, v == 1015, v >= 1016 && v <= 2999, v >= 5000:
					forbid.set(v)
				}
			}
			missing := must.and(acc.not())
			extra := forbid.and(acc)
			c.CheckAt("C31.R1", "isValidReceivedCloseCode accepts every code the RFC allows on the wire", w.Pos(pred.Pos()), missing.empty(), "accepted set {"+fdDescribe(acc)+"}; missing {"+fdDescribe(missing)+"}")
			c.CheckAt("C31.R1", "isValidReceivedCloseCode rejects every reserved or forbidden code", w.Pos(pred.Pos()), extra.empty(), "accepted set {"+fdDescribe(acc)+"}; wrongly accepted {"+fdDescribe(extra)+"} — a peer's close frame with such a code must be answered with a protocol error, not echoed")
		}
		// used by advanceFrame on the received code, failing edge → protocol error
		af := w.Func("internal/websocket", "(*Conn).advanceFrame")
		if af != nil {
			// in advanceFrame itself or in a helper it calls for the close frame
			dvAF := w.Deep(af, 2)
			calls := dvAF.Calls(w.calleeFn(pred))
			c.Anchor("C31.R1", "advanceFrame validates the received close code", len(calls) == 1)
			for _, ci := range calls {
				af := ci.Parent()
				v := ci.Value()
				okE := false
				if v != nil {
					for _, r := range *v.Referrers() {
						if ifi, ok := r.(*ssa.If); ok {
							okE = (PathQ{Stop: instrPred(w.calleeIs("Conn.handleProtocolError")), Goal: isReturn}).FromBlock(ifi.Block().Succs[1]) == nil
						}
					}
				}
				c.Check("C31.R1", ci, "invalid received close code ends in the protocol-error close", okE, "forbidden codes are rejected")
				// recordCloseCode only after validation
				for _, rc := range CallsIn(af, false, w.calleeIs("Conn.recordCloseCode")) {
					c.Check("C31.R1", rc, "received close code recorded only after validation", !Reaches(rc, ci) && (Reaches(ci, rc) || true), "an invalid code must not be recorded as the connection's close code")
				}
			}
		}
	}
	// R2 Disconnect literals
	root := w.ByPath[modPath]
	if root != nil {
		n := 0
		for _, f := range root.Syntax {
			for _, decl := range f.Decls {
				gd, ok := decl.(*ast.GenDecl)
				if !ok || gd.Tok != token.VAR {
					continue
				}
				for _, spec := range gd.Specs {
					vs := spec.(*ast.ValueSpec)
					for i, name := range vs.Names {
						if i >= len(vs.Values) {
							continue
						}
						cl, ok := vs.Values[i].(*ast.CompositeLit)
						if !ok {
							continue
						}
						tv := root.TypesInfo.Types[cl]
						if typeShort(tv.Type) != "Disconnect" {
							continue
						}
						var code int64 = -1
						reason := ""
						for _, el := range cl.Elts {
							kv, ok := el.(*ast.KeyValueExpr)
							if !ok {
								continue
							}
							key, _ := kv.Key.(*ast.Ident)
							val := root.TypesInfo.Types[kv.Value]
							if key == nil || val.Value == nil {
								continue
							}
							if key.Name == "Code" {
								code, _ = constant.Int64Val(constant.ToInt(val.Value))
							}
							if key.Name == "Reason" && val.Value.Kind() == constant.String {
								reason = constant.StringVal(val.Value)
							}
						}
						n++
						c.CheckAt("C31.R2", "Disconnect "+name.Name+": code in 3000–4999 and reason fits a close frame", w.Pos(name.Pos()), code >= 3000 && code <= 4999 && len(reason)+2 <= 125,
							fmt.Sprintf("code %d, reason %d bytes: close frames carry the disconnect code and reason whenever they fit in a control frame (125 bytes)", code, len(reason)))
					}
				}
			}
		}
		c.Anchor("C31.R2", "package-level Disconnect values", n >= 15)
	}
	// R3
	tc := c.Fn("C31.R3", "centrifuge", "(*websocketTransport).Close")
	if tc != nil {
		wcs := CallsIn(tc, false, w.calleeIs("Conn.WriteControl"))
		if c.Anchor("C31.R3", "WriteControl call in websocketTransport.Close", len(wcs) >= 1) {
			for _, wc := range wcs {
				d := D(wc.Common().Args[2])
				okArgs := strings.Contains(d, "FormatCloseMessage(") && strings.Contains(d, "Disconnect.Code") && strings.Contains(d, "Disconnect.Reason")
				c.Check("C31.R3", wc, "close frame carries the disconnect's code and reason", okArgs, "got "+d)
				if mt, ok := constIntOf(wc.Common().Args[1]); ok {
					c.Check("C31.R3", wc, "written as a close control frame", mt == 8, fmt.Sprint(mt))
				}
				okG := Guarded(wc, func(g Guard) bool {
					b, ok := g.Cond.(*ssa.BinOp)
					return ok && strings.Contains(D(b.X), "Disconnect.Code") && strings.Contains(D(b.Y), "DisconnectConnectionClosed") && ((b.Op == token.NEQ && g.Pol) || (b.Op == token.EQL && !g.Pol))
				})
				c.Check("C31.R3", wc, "close frame skipped only for an already closed connection", okG, "every other disconnect must be announced with its code")
			}
		}
	}
	// R4
	n := 0
	for _, f := range w.AllFuncs {
		EachInstr(f, func(in ssa.Instruction) {
			ci := asCall(in)
			if ci == nil {
				return
			}
			cal := ci.Common().StaticCallee()
			if cal == nil || len(ci.Common().Args) == 0 || !strings.HasSuffix(D(ci.Common().Args[0]), "Conn.closeCode") {
				return
			}
			switch cal.Name() {
			case "Load":
				return
			}
			n++
			okCAS := cal.Name() == "CompareAndSwap"
			if okCAS {
				z, isZ := constIntOf(ci.Common().Args[1])
				okCAS = isZ && z == 0
			}
			c.Check("C31.R4", in, "recorded close code written only by CompareAndSwap(0, v)", okCAS, "the first close frame observed determines the recorded close code; a plain store lets a later frame overwrite it")
		})
	}
	c.Anchor("C31.R4", "writes of Conn.closeCode", n >= 1)
	// R5
	up := c.Fn("C31.R5", "internal/websocket", "(*Upgrader).Upgrade")
	if up != nil {
		hij := CallsIn(up, true, func(ci ssa.CallInstruction) bool {
			return ci.Common().IsInvoke() && ci.Common().Method.Name() == "Hijack"
		})
		errs := CallsIn(up, false, w.calleeIs("Upgrader.returnError"))
		c.Anchor("C31.R5", "returnError calls in Upgrade", len(errs) >= 5)
		for _, e := range errs {
			var bad ssa.Instruction
			for _, h := range hij {
				if h.Parent() == up && Reaches(h, e) {
					bad = h
				}
			}
			c.Check("C31.R5", e, "handshake failure answered over HTTP before the connection is hijacked", bad == nil, "after Hijack an HTTP error can no longer be written")
		}
	}
}

// errOrigins lists the descriptors of the values an error result can carry (through φ and spills).
func errOrigins(v ssa.Value, depth int) []string {
	if depth > 5 {
		return []string{D(v)}
	}
	switch x := v.(type) {
	case *ssa.Phi:
		var out []string
		for _, e := range x.Edges {
			out = append(out, errOrigins(e, depth+1)...)
		}
		return out
	case *ssa.MakeInterface:
		return errOrigins(x.X, depth+1)
	case *ssa.Extract:
		return []string{D(x.Tuple)}
	}
	return []string{D(v)}
}
