package main

import (
	"crypto/sha256"
	"encoding/hex"
	"fmt"
	"go/ast"
	"go/constant"
	"go/token"
	"go/types"
	"io"
	"os"
	"path/filepath"
	"sort"
	"strings"

	"golang.org/x/tools/go/packages"
	"golang.org/x/tools/go/ssa"
	"golang.org/x/tools/go/ssa/ssautil"
)

const modPath = "github.com/centrifugal/centrifuge"

// World is the type-checked, SSA-built view of /repo that every rule reads.
type World struct {
	RepoDir string
	Config  string // build configuration label
	Fset    *token.FileSet
	Pkgs    []*packages.Package // module packages only (roots)
	ByPath  map[string]*packages.Package
	Prog    *ssa.Program
	SSA     map[string]*ssa.Package // by import path
	// AllFuncs lists every function (incl. anonymous) whose package is in the module.
	AllFuncs []*ssa.Function
	callers  map[*ssa.Function][]ssa.CallInstruction
	addrTaken map[*ssa.Function]bool
	NPkgsTotal int
	lockInfo   *LockInfo
	lua        map[string]*luaScript
	fieldStoreIdx map[string][]*ssa.Store
	Ext        map[string]*packages.Package // every loaded package by path (dependencies included)
}

func shortPkg(path string) string {
	if path == modPath {
		return "centrifuge"
	}
	if strings.HasPrefix(path, modPath+"/") {
		return strings.TrimPrefix(path, modPath+"/")
	}
	return path
}

func longPkg(short string) string {
	if short == "centrifuge" || short == "" {
		return modPath
	}
	if strings.Contains(short, ".") { // external path
		return short
	}
	return modPath + "/" + short
}

// LoadWorld loads ./... of repoDir. env is appended to the process environment.
func LoadWorld(repoDir, label string, env []string, buildFlags []string) (*World, error) {
	cfg := &packages.Config{
		Mode:       packages.LoadAllSyntax,
		Dir:        repoDir,
		Tests:      false,
		Env:        append(os.Environ(), env...),
		BuildFlags: buildFlags,
	}
	pkgs, err := packages.Load(cfg, "./...")
	if err != nil {
		return nil, fmt.Errorf("load: %w", err)
	}
	if len(pkgs) == 0 {
		return nil, fmt.Errorf("load: zero packages")
	}
	var errs []string
	total := 0
	packages.Visit(pkgs, nil, func(p *packages.Package) {
		total++
		for _, e := range p.Errors {
			errs = append(errs, e.Error())
		}
	})
	if len(errs) > 0 {
		sort.Strings(errs)
		if len(errs) > 10 {
			errs = errs[:10]
		}
		return nil, fmt.Errorf("type-check/load errors (nothing is decided on a program that does not compile):\n  %s", strings.Join(errs, "\n  "))
	}
	w := &World{RepoDir: repoDir, Config: label, ByPath: map[string]*packages.Package{}, SSA: map[string]*ssa.Package{}, NPkgsTotal: total, Ext: map[string]*packages.Package{}}
	packages.Visit(pkgs, nil, func(p *packages.Package) { w.Ext[p.PkgPath] = p })
	for _, p := range pkgs {
		if p.PkgPath == modPath || strings.HasPrefix(p.PkgPath, modPath+"/") {
			if strings.Contains(p.PkgPath, "/_examples") {
				continue
			}
			w.Pkgs = append(w.Pkgs, p)
			w.ByPath[p.PkgPath] = p
			w.Fset = p.Fset
		}
	}
	if len(w.Pkgs) == 0 {
		return nil, fmt.Errorf("load: no module packages under %s", repoDir)
	}
	prog, _ := ssautil.AllPackages(pkgs, ssa.InstantiateGenerics)
	prog.Build()
	w.Prog = prog
	for _, p := range w.Pkgs {
		sp := prog.Package(p.Types)
		if sp == nil {
			return nil, fmt.Errorf("no SSA for %s", p.PkgPath)
		}
		w.SSA[p.PkgPath] = sp
	}
	w.indexFuncs()
	currentWorld = w
	return w, nil
}

func (w *World) indexFuncs() {
	seen := map[*ssa.Function]bool{}
	var add func(f *ssa.Function)
	add = func(f *ssa.Function) {
		if f == nil || seen[f] {
			return
		}
		seen[f] = true
		w.AllFuncs = append(w.AllFuncs, f)
		for _, a := range f.AnonFuncs {
			add(a)
		}
	}
	paths := make([]string, 0, len(w.SSA))
	for p := range w.SSA {
		paths = append(paths, p)
	}
	sort.Strings(paths)
	for _, path := range paths {
		sp := w.SSA[path]
		names := make([]string, 0, len(sp.Members))
		for n := range sp.Members {
			names = append(names, n)
		}
		sort.Strings(names)
		for _, n := range names {
			switch m := sp.Members[n].(type) {
			case *ssa.Function:
				add(m)
			case *ssa.Type:
				for _, t := range []types.Type{m.Type(), types.NewPointer(m.Type())} {
					ms := w.Prog.MethodSets.MethodSet(t)
					for i := 0; i < ms.Len(); i++ {
						fn := w.Prog.MethodValue(ms.At(i))
						if fn != nil && fn.Pkg == sp && fn.Synthetic == "" {
							add(fn)
						}
					}
				}
			}
		}
	}
	w.callers = map[*ssa.Function][]ssa.CallInstruction{}
	w.addrTaken = map[*ssa.Function]bool{}
	for _, f := range w.AllFuncs {
		for _, b := range f.Blocks {
			for _, in := range b.Instrs {
				if ci, ok := in.(ssa.CallInstruction); ok {
					if cal := w.Callee(ci); cal != nil {
						w.callers[cal] = append(w.callers[cal], ci)
					}
				}
				// address-taken: function used as a value operand other than call target
				var ops [16]*ssa.Value
				if _, isMC := in.(*ssa.MakeClosure); isMC {
					continue // the closure value's uses are examined at its referrers
				}
				for _, op := range in.Operands(ops[:0]) {
					if op == nil || *op == nil {
						continue
					}
					var fn *ssa.Function
					switch v := (*op).(type) {
					case *ssa.Function:
						fn = v
					case *ssa.MakeClosure:
						continue
					}
					if fn == nil {
						continue
					}
					if ci, ok := in.(ssa.CallInstruction); ok && ci.Common().Value == *op {
						continue
					}
					w.addrTaken[fn] = true
				}
			}
		}
	}
}

// Callee resolves the static callee of a call, following closures bound to locals.
func (w *World) Callee(ci ssa.CallInstruction) *ssa.Function {
	c := ci.Common()
	if c.IsInvoke() {
		return nil
	}
	if f := c.StaticCallee(); f != nil {
		return f
	}
	v := resolveCell(c.Value)
	switch x := v.(type) {
	case *ssa.MakeClosure:
		if f, ok := x.Fn.(*ssa.Function); ok {
			return f
		}
	case *ssa.Function:
		return x
	}
	return nil
}

// Callers returns the static call sites of f inside the module.
func (w *World) Callers(f *ssa.Function) []ssa.CallInstruction { return w.callers[f] }

// resolveCell: a load of a local cell (Alloc) with exactly one store resolves to the stored value.
func resolveCell(v ssa.Value) ssa.Value {
	for i := 0; i < 6; i++ {
		switch x := v.(type) {
		case *ssa.UnOp:
			if x.Op != token.MUL {
				return v
			}
			if s := singleStore(x.X); s != nil {
				v = s
				continue
			}
			return v
		case *ssa.ChangeType:
			v = x.X
			continue
		case *ssa.MakeInterface:
			return v
		}
		return v
	}
	return v
}

// singleStore returns the only value ever stored to the cell addr (an *ssa.Alloc or a FreeVar
// bound to one), or nil.
func singleStore(addr ssa.Value) ssa.Value {
	switch a := addr.(type) {
	case *ssa.Alloc:
		return singleStoreAlloc(a)
	case *ssa.FreeVar:
		// find binding in parent
		fn := a.Parent()
		idx := -1
		for i, fv := range fn.FreeVars {
			if fv == a {
				idx = i
			}
		}
		if idx < 0 || fn.Parent() == nil {
			return nil
		}
		var bound ssa.Value
		n := 0
		for _, b := range fn.Parent().Blocks {
			for _, in := range b.Instrs {
				if mc, ok := in.(*ssa.MakeClosure); ok && mc.Fn == fn {
					bound = mc.Bindings[idx]
					n++
				}
			}
		}
		if n != 1 {
			return nil
		}
		// stores may also occur inside closures (including this one)
		if al, ok := bound.(*ssa.Alloc); ok {
			return singleStoreAlloc(al)
		}
		if fv, ok := bound.(*ssa.FreeVar); ok {
			return singleStore(fv)
		}
		return nil
	}
	return nil
}

func singleStoreAlloc(a *ssa.Alloc) ssa.Value {
	var val ssa.Value
	n := 0
	var visit func(v ssa.Value) bool
	visit = func(v ssa.Value) bool {
		refs := v.Referrers()
		if refs == nil {
			return false
		}
		for _, r := range *refs {
			switch x := r.(type) {
			case *ssa.Store:
				if x.Addr == v {
					val = x.Val
					n++
				}
			case *ssa.MakeClosure:
				f := x.Fn.(*ssa.Function)
				for i, bnd := range x.Bindings {
					if bnd == v {
						if !visit(f.FreeVars[i]) {
							return false
						}
					}
				}
			}
		}
		return true
	}
	if !visit(a) {
		return nil
	}
	if n == 1 {
		return val
	}
	return nil
}

// ---- object lookup -------------------------------------------------------------------------

// Func resolves "pkg" + "(*T).m" / "(T).m" / "f". Returns nil if unresolved.
func (w *World) Func(pkg, name string) *ssa.Function {
	sp := w.SSA[longPkg(pkg)]
	if sp == nil {
		return nil
	}
	if strings.HasPrefix(name, "(") {
		end := strings.Index(name, ").")
		if end < 0 {
			return nil
		}
		recv := name[1:end]
		meth := name[end+2:]
		ptr := strings.HasPrefix(recv, "*")
		recv = strings.TrimPrefix(recv, "*")
		tm, ok := sp.Members[recv].(*ssa.Type)
		if !ok {
			return nil
		}
		var t types.Type = tm.Type()
		if ptr {
			t = types.NewPointer(t)
		}
		sel := w.Prog.MethodSets.MethodSet(t).Lookup(sp.Pkg, meth)
		if sel == nil {
			return nil
		}
		return w.Prog.MethodValue(sel)
	}
	f, _ := sp.Members[name].(*ssa.Function)
	return f
}

// Method looks a method up by type name regardless of pointer-ness.
func (w *World) Method(pkg, typ, meth string) *ssa.Function {
	if f := w.Func(pkg, "(*"+typ+")."+meth); f != nil {
		return f
	}
	return w.Func(pkg, "("+typ+")."+meth)
}

// ConstInt returns the integer value of a package-level constant.
func (w *World) ConstInt(pkg, name string) (int64, bool) {
	p := w.ByPath[longPkg(pkg)]
	if p == nil {
		p = w.Ext[pkg]
	}
	if p == nil {
		return 0, false
	}
	o, _ := p.Types.Scope().Lookup(name).(*types.Const)
	if o == nil {
		return 0, false
	}
	v, ok := constant.Int64Val(constant.ToInt(o.Val()))
	return v, ok
}

func (w *World) ConstString(pkg, name string) (string, bool) {
	p := w.ByPath[longPkg(pkg)]
	if p == nil {
		return "", false
	}
	o, _ := p.Types.Scope().Lookup(name).(*types.Const)
	if o == nil || o.Val().Kind() != constant.String {
		return "", false
	}
	return constant.StringVal(o.Val()), true
}

// Struct returns the named struct type.
func (w *World) Struct(pkg, name string) (*types.Named, *types.Struct) {
	p := w.ByPath[longPkg(pkg)]
	if p == nil {
		return nil, nil
	}
	tn, _ := p.Types.Scope().Lookup(name).(*types.TypeName)
	if tn == nil {
		return nil, nil
	}
	n, _ := tn.Type().(*types.Named)
	if n == nil {
		return nil, nil
	}
	s, _ := n.Underlying().(*types.Struct)
	return n, s
}

// Pos renders a position relative to the repo.
func (w *World) Pos(p token.Pos) string {
	if !p.IsValid() {
		return "?"
	}
	ps := w.Fset.Position(p)
	rel, err := filepath.Rel(w.RepoDir, ps.Filename)
	if err != nil {
		rel = ps.Filename
	}
	return fmt.Sprintf("%s:%d", rel, ps.Line)
}

// InstrPos finds the best position for an instruction.
func (w *World) InstrPos(in ssa.Instruction) string {
	if in == nil {
		return "?"
	}
	if p := in.Pos(); p.IsValid() {
		return w.Pos(p)
	}
	// fall back: nearest positioned instruction in the block
	b := in.Block()
	if b != nil {
		idx := -1
		for i, x := range b.Instrs {
			if x == in {
				idx = i
			}
		}
		for i := idx; i >= 0; i-- {
			if p := b.Instrs[i].Pos(); p.IsValid() {
				return w.Pos(p)
			}
		}
		for i := idx + 1; i < len(b.Instrs) && i >= 0; i++ {
			if p := b.Instrs[i].Pos(); p.IsValid() {
				return w.Pos(p)
			}
		}
	}
	if f := in.Parent(); f != nil {
		return w.Pos(f.Pos())
	}
	return "?"
}

// FuncName gives a stable printable name: pkg.(*T).m or pkg.f$1.
func FuncName(f *ssa.Function) string {
	if f == nil {
		return "<nil>"
	}
	s := f.RelString(nil)
	s = strings.ReplaceAll(s, modPath+"/", "")
	s = strings.ReplaceAll(s, modPath, "centrifuge")
	return s
}

// File returns the parsed file with the given repo-relative name.
func (w *World) File(rel string) *ast.File {
	for _, p := range w.Pkgs {
		for i, f := range p.CompiledGoFiles {
			r, _ := filepath.Rel(w.RepoDir, f)
			if r == rel && i < len(p.Syntax) {
				return p.Syntax[i]
			}
		}
	}
	return nil
}

// TreeHash hashes every .go/.lua/go.mod/go.sum under dir (excluding VCS dirs and _examples).
func TreeHash(dir string) (string, int, error) {
	var files []string
	err := filepath.Walk(dir, func(path string, info os.FileInfo, err error) error {
		if err != nil {
			return nil
		}
		if info.IsDir() {
			n := info.Name()
			if n == ".git" || n == "_examples" || n == "node_modules" {
				return filepath.SkipDir
			}
			return nil
		}
		n := info.Name()
		if strings.HasSuffix(n, ".go") || strings.HasSuffix(n, ".lua") || n == "go.mod" || n == "go.sum" || strings.HasSuffix(n, ".proto") {
			files = append(files, path)
		}
		return nil
	})
	if err != nil {
		return "", 0, err
	}
	sort.Strings(files)
	h := sha256.New()
	for _, f := range files {
		rel, _ := filepath.Rel(dir, f)
		fmt.Fprintf(h, "%s\x00", rel)
		fh, err := os.Open(f)
		if err != nil {
			return "", 0, err
		}
		io.Copy(h, fh)
		fh.Close()
		h.Write([]byte{0})
	}
	return hex.EncodeToString(h.Sum(nil)), len(files), nil
}
