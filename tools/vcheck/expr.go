package main

import (
	"fmt"
	"go/constant"
	"go/token"
	"go/types"
	"strings"

	"golang.org/x/tools/go/ssa"
)

// D renders an SSA value as a canonical expression string built from resolved objects:
//   - struct roots (parameters, receivers, free variables) are rendered by their named type, so
//     renaming a local or parameter does not change the descriptor;
//   - fields by field name, calls by resolved callee, constants by value;
//   - loads of single-store cells are looked through (closure captures, spilled locals).
// It is used by the guard/lock/order recognisers; it is never compared with source text.
func D(v ssa.Value) string { return dDepth(v, 0, map[ssa.Value]bool{}) }

func typeShort(t types.Type) string {
	for {
		if p, ok := t.(*types.Pointer); ok {
			t = p.Elem()
			continue
		}
		break
	}
	if n, ok := t.(*types.Named); ok {
		return n.Obj().Name()
	}
	if a, ok := t.(*types.Alias); ok {
		return a.Obj().Name()
	}
	return ""
}

func isStructish(t types.Type) bool {
	for {
		if p, ok := t.(*types.Pointer); ok {
			t = p.Elem()
			continue
		}
		break
	}
	_, ok := t.Underlying().(*types.Struct)
	return ok
}

func calleeName(c *ssa.CallCommon) string {
	if c.IsInvoke() {
		return typeShort(c.Value.Type()) + "." + c.Method.Name()
	}
	if f := c.StaticCallee(); f != nil {
		return shortFuncName(f)
	}
	if b, ok := c.Value.(*ssa.Builtin); ok {
		return b.Name()
	}
	return "dyn:" + dDepth(c.Value, 6, map[ssa.Value]bool{})
}

func shortFuncName(f *ssa.Function) string {
	if f.Signature.Recv() != nil {
		return typeShort(f.Signature.Recv().Type()) + "." + f.Name()
	}
	if f.Pkg != nil && f.Pkg.Pkg.Path() != modPath {
		return f.Pkg.Pkg.Name() + "." + f.Name()
	}
	return f.Name()
}

func dDepth(v ssa.Value, depth int, seen map[ssa.Value]bool) string {
	if v == nil {
		return "<nil>"
	}
	if depth > 10 {
		return "…"
	}
	rec := func(x ssa.Value) string { return dDepth(x, depth+1, seen) }
	switch x := v.(type) {
	case *ssa.Const:
		if x.Value == nil {
			return "nil"
		}
		if x.Value.Kind() == constant.String {
			return fmt.Sprintf("%q", constant.StringVal(x.Value))
		}
		return x.Value.ExactString()
	case *ssa.Parameter:
		if ts := typeShort(x.Type()); ts != "" && isStructish(x.Type()) {
			return ts
		}
		return "arg:" + x.Name()
	case *ssa.FreeVar:
		// pointer-to-cell of captured variable
		t := x.Type()
		if p, ok := t.(*types.Pointer); ok {
			if ts := typeShort(p.Elem()); ts != "" && isStructish(p.Elem()) {
				return "&" + ts
			}
		}
		if ts := typeShort(t); ts != "" && isStructish(t) {
			return ts
		}
		return "&var:" + x.Name()
	case *ssa.Global:
		return "&" + x.Pkg.Pkg.Name() + "." + x.Name()
	case *ssa.Function:
		return "func:" + shortFuncName(x)
	case *ssa.Builtin:
		return x.Name()
	case *ssa.Alloc:
		if x.Comment != "" {
			return "&var:" + x.Comment
		}
		return "&new"
	case *ssa.UnOp:
		switch x.Op {
		case token.MUL:
			if s := singleStore(x.X); s != nil && !seen[x] {
				seen[x] = true
				r := rec(s)
				delete(seen, x)
				return r
			}
			in := rec(x.X)
			if strings.HasPrefix(in, "&") {
				return in[1:]
			}
			return "*" + in
		case token.NOT:
			return "!" + rec(x.X)
		case token.SUB:
			return "-" + rec(x.X)
		case token.ARROW:
			return "<-" + rec(x.X)
		case token.XOR:
			return "^" + rec(x.X)
		}
		return x.Op.String() + rec(x.X)
	case *ssa.FieldAddr:
		st := x.X.Type().Underlying().(*types.Pointer).Elem().Underlying().(*types.Struct)
		// a struct-valued local (spilled parameter, `v, ok := m[k]` copy) with a single whole-value
		// store is rendered by the value it was initialised from
		switch x.X.(type) {
		case *ssa.Alloc, *ssa.FreeVar:
			if sv := singleStore(x.X); sv != nil && !seen[x] {
				seen[x] = true
				r := rec(sv)
				delete(seen, x)
				return "&" + r + "." + st.Field(x.Field).Name()
			}
		}
		return "&" + stripAmp(rec(x.X)) + "." + st.Field(x.Field).Name()
	case *ssa.Field:
		st := x.X.Type().Underlying().(*types.Struct)
		return rec(x.X) + "." + st.Field(x.Field).Name()
	case *ssa.IndexAddr:
		return "&" + stripAmp(rec(x.X)) + "[" + rec(x.Index) + "]"
	case *ssa.Index:
		return rec(x.X) + "[" + rec(x.Index) + "]"
	case *ssa.Lookup:
		return rec(x.X) + "[" + rec(x.Index) + "]"
	case *ssa.Extract:
		switch t := x.Tuple.(type) {
		case *ssa.Lookup:
			if x.Index == 0 {
				return rec(t)
			}
			return "ok(" + rec(t) + ")"
		case *ssa.TypeAssert:
			if x.Index == 0 {
				return rec(t)
			}
			return "ok(" + rec(t) + ")"
		case *ssa.UnOp:
			if x.Index == 0 {
				return rec(t)
			}
			return "ok(" + rec(t) + ")"
		}
		return rec(x.Tuple) + fmt.Sprintf("#%d", x.Index)
	case *ssa.BinOp:
		return "(" + rec(x.X) + " " + x.Op.String() + " " + rec(x.Y) + ")"
	case *ssa.Call:
		args := make([]string, 0, len(x.Call.Args))
		for _, a := range x.Call.Args {
			args = append(args, rec(a))
		}
		if x.Call.IsInvoke() {
			return rec(x.Call.Value) + "." + x.Call.Method.Name() + "(" + strings.Join(args, ", ") + ")"
		}
		return calleeName(&x.Call) + "(" + strings.Join(args, ", ") + ")"
	case *ssa.Phi:
		if seen[x] {
			return "φ…"
		}
		seen[x] = true
		parts := make([]string, 0, len(x.Edges))
		for _, e := range x.Edges {
			parts = append(parts, rec(e))
		}
		delete(seen, x)
		return "φ(" + strings.Join(parts, "|") + ")"
	case *ssa.Convert:
		return rec(x.X)
	case *ssa.ChangeType:
		return rec(x.X)
	case *ssa.ChangeInterface:
		return rec(x.X)
	case *ssa.MakeInterface:
		return rec(x.X)
	case *ssa.SliceToArrayPointer:
		return rec(x.X)
	case *ssa.TypeAssert:
		return rec(x.X) + ".(" + typeShort(x.AssertedType) + ")"
	case *ssa.Slice:
		lo, hi := "", ""
		if x.Low != nil {
			lo = rec(x.Low)
		}
		if x.High != nil {
			hi = rec(x.High)
		}
		return stripAmp(rec(x.X)) + "[" + lo + ":" + hi + "]"
	case *ssa.MakeClosure:
		return "closure:" + x.Fn.Name()
	case *ssa.MakeMap:
		return "makemap"
	case *ssa.MakeSlice:
		return "makeslice"
	case *ssa.MakeChan:
		return "makechan"
	case *ssa.Next:
		return "next(" + rec(x.Iter) + ")"
	case *ssa.Range:
		return "range(" + rec(x.X) + ")"
	case *ssa.Select:
		return "select"
	}
	return fmt.Sprintf("?%T", v)
}

func stripAmp(s string) string {
	if strings.HasPrefix(s, "&") {
		return s[1:]
	}
	return s
}

// constIntOf returns the int value if v is an integer constant.
func constIntOf(v ssa.Value) (int64, bool) {
	c, ok := v.(*ssa.Const)
	if !ok || c.Value == nil {
		return 0, false
	}
	if c.Value.Kind() != constant.Int {
		return 0, false
	}
	return constant.Int64Val(c.Value)
}

func constStrOf(v ssa.Value) (string, bool) {
	c, ok := v.(*ssa.Const)
	if !ok || c.Value == nil || c.Value.Kind() != constant.String {
		return "", false
	}
	return constant.StringVal(c.Value), true
}

func isNilConst(v ssa.Value) bool {
	c, ok := v.(*ssa.Const)
	return ok && c.Value == nil
}
