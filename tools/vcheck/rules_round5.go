package main

import (
	"go/token"
	"go/types"
	"strings"

	"golang.org/x/tools/go/ssa"
)

// Rules added after the fifth round of seeded defects.

func init() {
	r4doc("C08", "C08.R7", "K3 lockset: the still-connecting test of triggerConnect is made under connectMu")
	round3Hooks["C08"] = append(round3Hooks["C08"], runConnectingTestUnderConnectMu)
	r4doc("C07", "C07.R7", "sibling agreement: join and leave pushes take the same route to the connection (both batched or neither)")
	round3Hooks["C07"] = append(round3Hooks["C07"], runJoinLeaveSameRoute)
	r4doc("C03", "C03.R7", "K2: an empty epoch never makes the cache-recovery same-state test true")
	round3Hooks["C03"] = append(round3Hooks["C03"], runCacheSameStateNeedsEpoch)
}

// runConnectingTestUnderConnectMu (C08.R7): close() takes connectMu for its whole teardown, and
// triggerConnect runs the connect handler and stores statusConnected under it. The two are atomic with
// respect to each other only if triggerConnect also decides "still connecting" inside that critical
// section: a status read before the lock is taken can be out of date by the time the lock is granted — the
// handler then runs for a connection close() already tore down and statusClosed is overwritten.
func runConnectingTestUnderConnectMu(c *Ctx) {
	w := c.W
	fn := w.Func("centrifuge", "(*Client).triggerConnect")
	if !c.Anchor("C08.R7", "(*Client).triggerConnect", fn) {
		return
	}
	n := 0
	for _, acc := range FieldAccesses(fn, "Client", "status") {
		if acc.Write {
			continue
		}
		n++
		held := w.Locks().HeldAt(acc.In)
		c.Check("C08.R7", acc.In, "Client.status is read under connectMu in triggerConnect", held.Holds("Client.connectMu", true),
			"close() holds connectMu across its teardown: a status read before the lock is granted can be stale, so the connect handler runs and statusConnected is stored for a connection that was already closed (held: "+held.String()+")")
	}
	c.Anchor("C08.R7", "reads of Client.status in triggerConnect", n >= 1)
}

// runJoinLeaveSameRoute (C07.R7): an observer's join and leave pushes reach its connection through
// writeEncodedPushData, which routes some frame types through the per-channel batching writer. Join and
// leave must take the same route: if one is buffered and the other written directly, a leave overtakes
// its join whenever the subscription ends before the batch is flushed. The frame-type tests made by
// writeEncodedPushData (and the helpers it calls) mention FrameTypePushJoin iff they mention
// FrameTypePushLeave.
func runJoinLeaveSameRoute(c *Ctx) {
	w := c.W
	fn := w.Func("centrifuge", "(*Client).writeEncodedPushData")
	if !c.Anchor("C07.R7", "(*Client).writeEncodedPushData", fn) {
		return
	}
	join, leave := w.frameType("FrameTypePushJoin"), w.frameType("FrameTypePushLeave")
	if !c.Anchor("C07.R7", "frame type constants", join >= 0 && leave >= 0) {
		return
	}
	nj, nl := 0, 0
	w.Deep(fn, 1).Each(func(in ssa.Instruction) {
		b, ok := in.(*ssa.BinOp)
		if !ok || (b.Op != token.EQL && b.Op != token.NEQ) {
			return
		}
		for _, v := range []ssa.Value{b.X, b.Y} {
			if k, ok := constIntOf(v); ok {
				if _, named := v.Type().(*types.Named); named || true {
					if k == join {
						nj++
					}
					if k == leave {
						nl++
					}
				}
			}
		}
	})
	c.CheckAt("C07.R7", "(*centrifuge.Client).writeEncodedPushData: join and leave frames are routed alike", w.Pos(fn.Pos()), (nj > 0) == (nl > 0),
		"only one of the two frame types is sent through the per-channel batch: the other is written directly and overtakes it (an observer sees leave before join)")
}

// runCacheSameStateNeedsEpoch (C03.R7): cache recovery answers "recovered, nothing to send" when the client
// already holds the current position — same offset *and* same epoch. In isCacheRecovered no test of a
// string parameter against "" may short-circuit a boolean that the function returns: an empty epoch is
// not a wildcard here (history may have expired and restarted; the client does not hold the newest
// publication).
func runCacheSameStateNeedsEpoch(c *Ctx) {
	w := c.W
	fn := w.Func("centrifuge", "isCacheRecovered")
	if !c.Anchor("C03.R7", "isCacheRecovered", fn) {
		return
	}
	// booleans that reach a return
	returned := map[ssa.Value]bool{}
	var mark func(v ssa.Value, d int)
	mark = func(v ssa.Value, d int) {
		if v == nil || returned[v] || d > 8 {
			return
		}
		returned[v] = true
		switch x := v.(type) {
		case *ssa.Phi:
			for _, e := range x.Edges {
				mark(e, d+1)
			}
		case *ssa.BinOp:
			mark(x.X, d+1)
			mark(x.Y, d+1)
		case *ssa.UnOp:
			mark(x.X, d+1)
		}
	}
	EachInstr(fn, func(in ssa.Instruction) {
		if r, ok := in.(*ssa.Return); ok {
			for _, v := range retVals(r) {
				if b, ok := v.Type().Underlying().(*types.Basic); ok && b.Kind() == types.Bool {
					mark(v, 0)
				}
			}
		}
	})
	bad := ""
	n := 0
	EachInstr(fn, func(in ssa.Instruction) {
		phi, ok := in.(*ssa.Phi)
		if !ok || !returned[phi] {
			return
		}
		n++
		for i, e := range phi.Edges {
			k, isK := boolConst(e)
			if !isK || !k || i >= len(phi.Block().Preds) {
				continue
			}
			pred := phi.Block().Preds[i]
			if len(pred.Instrs) == 0 {
				continue
			}
			ifi, ok := pred.Instrs[len(pred.Instrs)-1].(*ssa.If)
			if !ok {
				continue
			}
			b, ok := ifi.Cond.(*ssa.BinOp)
			if !ok || b.Op != token.EQL {
				continue
			}
			if s, isS := constStrOf(b.Y); isS && s == "" && paramOfKind(b.X, types.String) {
				bad = w.InstrPos(ifi)
			}
		}
	})
	c.CheckAt("C03.R7", "isCacheRecovered: an empty epoch does not satisfy the same-state test", w.Pos(fn.Pos()), bad == "",
		"a recover request with the current offset and no epoch is answered recovered=true without the newest publication, although the stream may have restarted (test at "+bad+")")
	_ = n
}

func init() {
	r4doc("C12", "C12.R7", "sibling agreement: every advance of a ring index is taken modulo the ring length")
	round3Hooks["C12"] = append(round3Hooks["C12"], runRingAdvanceModulo)
	r4doc("C14", "C14.R9", "sibling agreement: a filtered publication is dropped only for subscribers without delta, on every delivery path")
	round3Hooks["C14"] = append(round3Hooks["C14"], runFilteredDropKeepsDeltaException)
	r4doc("C10", "C10.R5", "K1: a publication for a channel with sync state reaches the connection only after the in-subscribe flag was consulted")
	round3Hooks["C10"] = append(round3Hooks["C10"], runSyncConsultsInSubscribe)
	r4doc("C11", "C11.R6", "K2: once a codec is installed every frame goes through it, whatever its size")
	round3Hooks["C11"] = append(round3Hooks["C11"], runEncodeUnconditional)
	r4doc("C13", "C13.R6", "check-then-act: a per-channel writer is registered only on a miss observed in the same critical section")
	round3Hooks["C13"] = append(round3Hooks["C13"], runWriterRegisteredOnFreshMiss)
	r4doc("C09", "C09.R7", "ownership: a reply that gets a command id stamped is not a shared object")
	round3Hooks["C09"] = append(round3Hooks["C09"], runStampedReplyNotShared)
}

// runRingAdvanceModulo (C12.R7): the ring's capacity is initialCap·2^k with a caller-chosen initialCap, so
// it is not a power of two in general; every sibling (Add, AddMany, Remove*, resize) advances with `%`.
// A store into Queue.head / Queue.tail is a constant or a `%` expression — a mask or an unreduced sum
// walks off the ring for some capacities.
func runRingAdvanceModulo(c *Ctx) {
	w := c.W
	n := 0
	for _, f := range moduleFuncs(w) {
		for _, idx := range []string{"head", "tail"} {
			for _, st := range storesToField(f, false, "Queue", idx) {
				n++
				ok := false
				if _, isK := constIntOf(st.Val); isK {
					ok = true
				}
				if b, isB := st.Val.(*ssa.BinOp); isB && b.Op == token.REM {
					ok = true
				}
				// an index helper of the same package whose every result is a `%` expression
				if call, isCall := st.Val.(*ssa.Call); isCall {
					if h := call.Call.StaticCallee(); h != nil && len(h.Blocks) > 0 && h.Pkg == f.Pkg {
						all, nret := true, 0
						EachInstr(h, func(in ssa.Instruction) {
							if r, isRet := in.(*ssa.Return); isRet {
								for _, rv := range retVals(r) {
									nret++
									if rb, isRB := rv.(*ssa.BinOp); !isRB || rb.Op != token.REM {
										if _, isK := constIntOf(rv); !isK {
											all = false
										}
									}
								}
							}
						})
						if all && nret > 0 {
							ok = true
						}
					}
				}
				c.Check("C12.R7", st, "Queue."+idx+" is stored as a constant or modulo the ring length", ok,
					"the ring length is initialCap·2^k for a caller-chosen initialCap: an advance that is not reduced with % (a bit mask, a plain sum) leaves the ring or jumps back, items are skipped and empty slots delivered ("+D(st.Val)+")")
			}
		}
	}
	c.Anchor("C12.R7", "stores of Queue.head / Queue.tail", n >= 8)
}

// runFilteredDropKeepsDeltaException (C14.R9): a delta subscriber must see every publication of the
// channel, also the ones its tags filter rejects, because the delta base advances with each of them. Both
// delivery functions drop a filtered publication only when the subscriber has no delta: every return that
// is guarded by preparedData.wasFiltered is also guarded by deltaSub being false.
func runFilteredDropKeepsDeltaException(c *Ctx) {
	w := c.W
	n := 0
	isField := func(v ssa.Value, field string) bool {
		switch x := v.(type) {
		case *ssa.Field:
			_, f, ok := FieldOf(x)
			return ok && f == field
		case *ssa.UnOp:
			if fa, ok := x.X.(*ssa.FieldAddr); ok {
				_, f, ok := FieldOf(fa)
				return ok && f == field
			}
		}
		return false
	}
	for _, name := range []string{"(*Client).writePublication", "(*Client).writePublicationUpdatePosition"} {
		fn := w.Func("centrifuge", name)
		if !c.Anchor("C14.R9", name, fn) {
			continue
		}
		EachInstr(fn, func(in ssa.Instruction) {
			r, ok := in.(*ssa.Return)
			if !ok {
				return
			}
			gs := Guards(r)
			// the drop: the innermost guard is the wasFiltered test
			filtered := false
			for _, g := range gs {
				if g.Pol && isField(g.Cond, "wasFiltered") {
					filtered = true
				}
			}
			if !filtered {
				return
			}
			n++
			noDelta := false
			for _, g := range gs {
				if !g.Pol && isField(g.Cond, "deltaSub") {
					noDelta = true
				}
			}
			c.Check("C14.R9", r, "a filtered publication is dropped only when the subscriber has no delta", noDelta,
				"the delta base (the medium's latest publication) advances with every publication, filtered or not: dropping one for a delta subscriber makes the next delta apply to a payload the client never received")
		})
	}
	c.Anchor("C14.R9", "filtered-publication drops on the delivery paths", n >= 2)
}

// runTagsFilterArgumentRoles (C16.R6): functions of the map subscribe path take the subscriber's own
// (client) tags filter and the server tags filter as two parameters of the same type. At every call with
// two or more *tagsFilter arguments, an argument read from a field or parameter whose name says "server"
// goes to a parameter whose name says "server", and the others do not.
func runTagsFilterArgumentRoles(c *Ctx) {
	w := c.W
	isTF := func(t types.Type) bool { return typeShort(t) == "tagsFilter" }
	lower := func(s string) string {
		b := []byte(s)
		for i := range b {
			if b[i] >= 'A' && b[i] <= 'Z' {
				b[i] += 32
			}
		}
		return string(b)
	}
	hasServer := func(s string) bool {
		s = lower(s)
		for i := 0; i+6 <= len(s); i++ {
			if s[i:i+6] == "server" {
				return true
			}
		}
		return false
	}
	srcName := func(v ssa.Value) string {
		switch x := v.(type) {
		case *ssa.Parameter:
			return x.Name()
		case *ssa.UnOp:
			if fa, ok := x.X.(*ssa.FieldAddr); ok {
				if _, f, ok := FieldOf(fa); ok {
					return f
				}
			}
			if al, ok := x.X.(*ssa.Alloc); ok {
				return al.Comment
			}
		case *ssa.Field:
			if _, f, ok := FieldOf(x); ok {
				return f
			}
		}
		return ""
	}
	n := 0
	for _, f := range moduleFuncs(w) {
		EachInstr(f, func(in ssa.Instruction) {
			ci := asCall(in)
			if ci == nil {
				return
			}
			cal := w.Callee(ci)
			if cal == nil || !w.inModule(cal) || len(cal.Params) != len(ci.Common().Args) {
				return
			}
			k := 0
			for _, p := range cal.Params {
				if isTF(p.Type()) {
					k++
				}
			}
			if k < 2 {
				return
			}
			n++
			bad := ""
			for i, p := range cal.Params {
				if !isTF(p.Type()) {
					continue
				}
				src := srcName(ci.Common().Args[i])
				if src == "" {
					continue
				}
				if hasServer(src) != hasServer(p.Name()) {
					bad = src + " → " + p.Name()
				}
			}
			c.Check("C16.R6", in, "server and client tags filters are passed in their own parameter positions", bad == "",
				"the two filters have the same type, so a swap compiles: the server filter lands in the slot a client-supplied filter may override and is dropped — the subscriber receives publications its server filter excludes ("+bad+")")
		})
	}
	c.Anchor("C16.R6", "calls passing two tags filters", n >= 1)
}

// runSyncConsultsInSubscribe (C10.R5): PubSubSync holds back publications that arrive while a subscribe is
// between collecting its buffer and releasing it (commit-before-reply paths rely on that wait). In
// SyncPublication the callback that delivers to the connection is reached either because the channel has
// no sync state at all (the lookup missed) or after the in-subscribe flag was read atomically.
func runSyncConsultsInSubscribe(c *Ctx) {
	w := c.W
	fn := w.Func("internal/recovery", "(*PubSubSync).SyncPublication")
	if !c.Anchor("C10.R5", "(*PubSubSync).SyncPublication", fn) {
		return
	}
	isDeliver := func(in ssa.Instruction) bool {
		call, ok := in.(*ssa.Call)
		if !ok {
			return false
		}
		_, isParam := call.Call.Value.(*ssa.Parameter)
		return isParam
	}
	consults := func(in ssa.Instruction) bool {
		call, ok := in.(*ssa.Call)
		if !ok {
			return false
		}
		cal := call.Call.StaticCallee()
		if cal == nil || cal.Pkg == nil || cal.Pkg.Pkg.Path() != "sync/atomic" || len(call.Call.Args) == 0 {
			return false
		}
		fa, ok := call.Call.Args[0].(*ssa.FieldAddr)
		return ok && fieldAddrIs(fa, "subscribeState", "inSubscribe")
	}
	bad := PathQ{
		Stop: consults,
		Goal: isDeliver,
		EdgeCond: func(cond ssa.Value, outcome bool) bool {
			// the channel has no sync state: nothing to wait for
			if ex, ok := cond.(*ssa.Extract); ok && ex.Index == 1 {
				if _, isLk := ex.Tuple.(*ssa.Lookup); isLk && !outcome {
					return false
				}
				// the lookup may be wrapped in a same-package helper returning (state, ok)
				if call, isCall := ex.Tuple.(*ssa.Call); isCall && !outcome {
					if h := call.Call.StaticCallee(); h != nil && len(h.Blocks) > 0 && h.Pkg == fn.Pkg {
						fromLookup := false
						EachInstr(h, func(in ssa.Instruction) {
							if r, ok := in.(*ssa.Return); ok {
								vals := retVals(r)
								if len(vals) == 2 {
									if e2, ok := vals[1].(*ssa.Extract); ok {
										if _, isLk := e2.Tuple.(*ssa.Lookup); isLk {
											fromLookup = true
										}
									}
								}
							}
						})
						if fromLookup {
							return false
						}
					}
				}
			}
			return true
		},
	}.FromEntry(fn)
	c.CheckAt("C10.R5", "(*internal/recovery.PubSubSync).SyncPublication: delivery only after the in-subscribe flag was consulted", w.Pos(fn.Pos()), bad == nil,
		"a shortcut past the flag lets a publication that arrives between the commit and the subscribe reply go straight to the connection, ahead of the reply"+instrAt(w, bad))
}

// runEncodeUnconditional (C11.R6): after the connect reply every frame of the connection goes through the
// installed dictionary codec; the peer decodes every frame. In websocketTransport.writeData the Encode call
// depends on the codec being installed and on nothing derived from the frame itself.
func runEncodeUnconditional(c *Ctx) {
	w := c.W
	fn := w.Func("centrifuge", "(*websocketTransport).writeData")
	if !c.Anchor("C11.R6", "(*websocketTransport).writeData", fn) {
		return
	}
	n := 0
	EachInstr(fn, func(in ssa.Instruction) {
		call, ok := in.(*ssa.Call)
		if !ok || !call.Call.IsInvoke() || call.Call.Method.Name() != "Encode" {
			return
		}
		n++
		bad := ""
		var usesParam func(v ssa.Value, d int) bool
		usesParam = func(v ssa.Value, d int) bool {
			if v == nil || d > 5 {
				return false
			}
			switch x := v.(type) {
			case *ssa.Parameter:
				_, isSlice := x.Type().Underlying().(*types.Slice)
				return isSlice
			case *ssa.BinOp:
				return usesParam(x.X, d+1) || usesParam(x.Y, d+1)
			case *ssa.UnOp:
				return usesParam(x.X, d+1)
			case *ssa.Call:
				if b, ok := x.Call.Value.(*ssa.Builtin); ok && (b.Name() == "len" || b.Name() == "cap") {
					return usesParam(x.Call.Args[0], d+1)
				}
			case *ssa.Phi:
				for _, e := range x.Edges {
					if usesParam(e, d+1) {
						return true
					}
				}
			}
			return false
		}
		for _, g := range Guards(in) {
			if !usesParam(g.Cond, 0) {
				continue
			}
			// an empty-frame test (len(data) compared with the constant 0) is not a size policy
			if b, ok := g.Cond.(*ssa.BinOp); ok {
				if z, isZ := constIntOf(b.Y); isZ && z == 0 {
					continue
				}
			}
			bad = g.String()
		}
		c.Check("C11.R6", in, "the codec is applied to every frame once installed (no condition on the frame)", bad == "",
			"a frame that skips the encoder is written plain with no codec marker: the client, which decodes every frame after the connect reply, cannot read it ("+bad+")")
	})
	c.Anchor("C11.R6", "Encode call in websocketTransport.writeData", n >= 1)
}

// runWriterRegisteredOnFreshMiss (C13.R6): getWriter looks the channel's batch writer up under the read
// lock and creates it under the write lock. The creation must re-check under the write lock: a writer
// stored on the strength of a miss seen before the lock was taken overwrites one a concurrent first push
// just registered — that push sits in an orphan writer nobody flushes in order or cancels.
func runWriterRegisteredOnFreshMiss(c *Ctx) {
	w := c.W
	n := 0
	for _, f := range moduleFuncs(w) {
		for _, mu := range mapUpdatesOf(f, false, "perChannelWriter", "writers") {
			n++
			fresh := false
			for _, g := range Guards(mu) {
				ex, ok := g.Cond.(*ssa.Extract)
				if !ok || ex.Index != 1 || g.Pol {
					continue
				}
				lk, ok := ex.Tuple.(*ssa.Lookup)
				if !ok || !loadsField(lk.X, "perChannelWriter", "writers") {
					continue
				}
				stale := false
				EachInstr(f, func(u ssa.Instruction) {
					if _, isDefer := u.(*ssa.Defer); isDefer {
						return
					}
					x := asCall(u)
					if x == nil {
						return
					}
					if k, _ := lockEvent(x); k != "" && Reaches(lk, u) && Reaches(u, mu) {
						stale = true
					}
				})
				if !stale {
					fresh = true
				}
			}
			c.Check("C13.R6", mu, "a writer is registered only on a miss observed in the critical section of the store", fresh,
				"two first pushes of a channel racing through getWriter both miss, the second store overwrites the first writer, and the first push waits in an orphan writer: it is delivered late, out of order, or after the unsubscribe")
		}
	}
	c.Anchor("C13.R6", "stores into perChannelWriter.writers", n >= 1)
}

// fromSharedObject: v derives from a package-level variable (directly, through a map lookup, or through the
// return value of a module function that does).
func fromSharedObject(w *World, v ssa.Value, depth int, seen map[ssa.Value]bool) bool {
	if v == nil || seen[v] || depth > 8 {
		return false
	}
	seen[v] = true
	switch x := v.(type) {
	case *ssa.Global:
		return true
	case *ssa.UnOp:
		return fromSharedObject(w, x.X, depth+1, seen)
	case *ssa.Lookup:
		return fromSharedObject(w, x.X, depth+1, seen)
	case *ssa.Extract:
		return fromSharedObject(w, x.Tuple, depth+1, seen)
	case *ssa.Phi:
		for _, e := range x.Edges {
			if fromSharedObject(w, e, depth+1, seen) {
				return true
			}
		}
	case *ssa.Call:
		cal := w.Callee(x)
		if cal == nil || !w.inModule(cal) {
			return false
		}
		found := false
		EachInstr(cal, func(in ssa.Instruction) {
			if r, ok := in.(*ssa.Return); ok && !found {
				for _, rv := range retVals(r) {
					if fromSharedObject(w, rv, depth+1, seen) {
						found = true
					}
				}
			}
		})
		return found
	}
	return false
}

// runStampedReplyNotShared (C09.R7): writeEncodedCommandReply stamps the command id into the reply it is
// given and then encodes it. That is only safe on a reply allocated for this command: a reply object kept
// in a package-level table (one per well-known error) is stamped by two concurrent answers, one command
// gets no reply with its id and another id is answered twice. No reply handed to a function that stores
// protocol.Reply.Id derives from a package-level variable.
func runStampedReplyNotShared(c *Ctx) {
	w := c.W
	stampers := map[*ssa.Function]int{}
	for _, f := range moduleFuncs(w) {
		if f.Pkg == nil || f.Pkg.Pkg.Path() != modPath {
			continue
		}
		for i, p := range f.Params {
			if typeShort(p.Type()) != "Reply" {
				continue
			}
			for _, r := range *p.Referrers() {
				fa, ok := r.(*ssa.FieldAddr)
				if !ok {
					continue
				}
				if _, fld, ok := FieldOf(fa); ok && fld == "Id" {
					for _, rr := range *fa.Referrers() {
						if st, ok := rr.(*ssa.Store); ok && st.Addr == ssa.Value(fa) {
							stampers[f] = i
						}
					}
				}
			}
		}
	}
	if !c.Anchor("C09.R7", "functions that stamp protocol.Reply.Id on a parameter", len(stampers) >= 1) {
		return
	}
	// a function that hands its own reply parameter on to a stamper stamps it too
	for round := 0; round < 3; round++ {
		for _, f := range moduleFuncs(w) {
			if _, done := stampers[f]; done || f.Pkg == nil || f.Pkg.Pkg.Path() != modPath {
				continue
			}
			for i, p := range f.Params {
				if typeShort(p.Type()) != "Reply" {
					continue
				}
				for _, r := range *p.Referrers() {
					ci, ok := r.(ssa.CallInstruction)
					if !ok {
						continue
					}
					cal := w.Callee(ci)
					idx, isStamper := stampers[cal]
					if cal == nil || !isStamper {
						continue
					}
					if idx < len(ci.Common().Args) && ci.Common().Args[idx] == ssa.Value(p) {
						stampers[f] = i
					}
				}
			}
		}
	}
	n := 0
	for f, idx := range stampers {
		for _, site := range w.Callers(f) {
			if site.Parent() == nil || !w.inModule(site.Parent()) {
				continue
			}
			args := site.Common().Args
			if idx >= len(args) {
				continue
			}
			n++
			shared := fromSharedObject(w, args[idx], 0, map[ssa.Value]bool{})
			c.Check("C09.R7", site, "the reply that gets the command id stamped is not a shared object", !shared,
				"the callee writes the command id into the reply before encoding it: a reply kept in a package-level table is stamped by concurrent answers, so one command receives no reply and another id is answered twice ("+D(args[idx])+")")
		}
	}
	c.Anchor("C09.R7", "call sites handing a reply to an id-stamping function", n >= 3)
}

func init() {
	r4doc("C10", "C10.R6", "K1: server-side Subscribe writes the subscribe push before the subscription becomes visible to pushes")
	round3Hooks["C10"] = append(round3Hooks["C10"], runServerSidePushBeforeCommit)
}

// runServerSidePushBeforeCommit (C10.R6): the gates of the publication / join / leave pushes only test the
// subscribed flag of Client.channels[ch]. The client-side path therefore writes the subscribe reply first
// and commits afterwards; connect-time subscriptions write the connect reply before the finalize stores.
// Client.Subscribe (server-side) must keep the same order: its FrameTypePushSubscribe write is not
// reachable after commitSubscription. (Positioned subscriptions are additionally protected by the
// subscribe-time buffer; history-less publications and join/leave pushes are not.)
func runServerSidePushBeforeCommit(c *Ctx) {
	w := c.W
	fn := w.Func("centrifuge", "(*Client).Subscribe")
	if !c.Anchor("C10.R6", "(*Client).Subscribe", fn) {
		return
	}
	ft := w.frameType("FrameTypePushSubscribe")
	commits := CallsIn(fn, false, w.calleeIs("Client.commitSubscription"))
	var writes []ssa.CallInstruction
	for _, ci := range CallsIn(fn, false, w.calleeIs("Client.writeEncodedPushData")) {
		for _, a := range ci.Common().Args {
			if k, ok := constIntOf(a); ok && k == ft && ft >= 0 {
				if _, isNamed := a.Type().(*types.Named); isNamed {
					writes = append(writes, ci)
				}
			}
		}
	}
	if !c.Anchor("C10.R6", "commit and subscribe-push write in Client.Subscribe", len(commits) > 0 && len(writes) > 0) {
		return
	}
	bad := false
	for _, cm := range commits {
		for _, wr := range writes {
			if Reaches(cm, wr) {
				bad = true
			}
		}
	}
	c.CheckAt("C10.R6", "(*centrifuge.Client).Subscribe: the subscribe push is written before the subscription is committed", w.Pos(fn.Pos()), !bad,
		"between commitSubscription and the write of the subscribe push the subscribed flag is already set: a history-less publication (or a join/leave push) broadcast in that window is enqueued ahead of the subscribe push")
}

func init() {
	r4doc("C22", "C22.R5", "K1: every successful return of MapStreamRead that carries a broker read has passed the trimmed-stream tests")
	round3Hooks["C22"] = append(round3Hooks["C22"], runStreamReadAlwaysChecked)
	r4doc("C24", "C24.R8", "inverse functions: the expiry tracking key is split at its first separator only")
	round3Hooks["C24"] = append(round3Hooks["C24"], runChKeySplitAtFirst)
}

// runStreamReadAlwaysChecked (C22.R5): Node.MapStreamRead is the one place where a trimmed or expired
// stream becomes ErrorUnrecoverablePosition (C22.R2). Both ways of reading — directly and through the
// single-flight group — must run into those tests: from every broker read (MapBroker.ReadStream or the
// singleflight Do that wraps it), every path to a return, other than the one taken on a read error, passes
// the start of the test chain (the read of Filter.Reverse).
func runStreamReadAlwaysChecked(c *Ctx) {
	w := c.W
	fn := w.Func("centrifuge", "(*Node).MapStreamRead")
	if !c.Anchor("C22.R5", "(*Node).MapStreamRead", fn) {
		return
	}
	isRead := func(ci ssa.CallInstruction) bool {
		cc := ci.Common()
		if cc.IsInvoke() && cc.Method.Name() == "ReadStream" {
			return true
		}
		f := w.Callee(ci)
		return f != nil && f.Name() == "Do" && f.Pkg != nil && strings.HasSuffix(f.Pkg.Pkg.Path(), "singleflight")
	}
	startsTests := func(in ssa.Instruction) bool {
		switch x := in.(type) {
		case *ssa.UnOp:
			if fa, ok := x.X.(*ssa.FieldAddr); ok && x.Op == token.MUL {
				_, f, ok := FieldOf(fa)
				return ok && f == "Reverse"
			}
		case *ssa.Field:
			_, f, ok := FieldOf(x)
			return ok && f == "Reverse"
		}
		return false
	}
	// (the direction test may have been read into a local before the broker call: an `if` whose condition is
	// computed from the Reverse field starts the chain as well)
	startsChain := func(in ssa.Instruction) bool {
		if startsTests(in) {
			return true
		}
		ifi, ok := in.(*ssa.If)
		if !ok {
			return false
		}
		var loads []*ssa.UnOp
		fieldLoadsIn(ifi.Cond, 0, map[ssa.Value]bool{}, &loads)
		for _, ld := range loads {
			if fa, ok := ld.X.(*ssa.FieldAddr); ok {
				if _, f, ok := FieldOf(fa); ok && f == "Reverse" {
					return true
				}
			}
		}
		return false
	}
	n := 0
	for _, rd := range CallsIn(fn, false, isRead) {
		n++
		bad := PathQ{
			Stop: startsChain,
			Goal: isReturn,
			EdgeCond: func(cond ssa.Value, outcome bool) bool {
				// the read failed: the error is returned as it is
				if b, ok := cond.(*ssa.BinOp); ok && (b.Op == token.NEQ || b.Op == token.EQL) && (isNilConst(b.X) || isNilConst(b.Y)) {
					other := b.X
					if isNilConst(b.X) {
						other = b.Y
					}
					if types.Identical(other.Type(), types.Universe.Lookup("error").Type()) {
						isErr := (b.Op == token.NEQ) == outcome
						return !isErr
					}
				}
				return true
			},
		}.From(rd)
		c.Check("C22.R5", rd, "a successful broker read reaches the trimmed-stream tests before it is returned", bad == nil,
			"a read path that returns the broker's result directly (the single-flight branch) never reports a trimmed or expired stream: the client is told Recovered=true although changes after its position were lost"+instrAt(w, bad))
	}
	c.Anchor("C22.R5", "broker reads in MapStreamRead", n >= 2)
}

// runChKeySplitAtFirst (C24.R8): the expiry heap tracks a key as channel + "\x00" + key. A map key may
// itself contain the separator byte, so the inverse must split at the *first* separator (as the builder's
// channel part cannot contain it). A split that requires exactly two parts, or searches from the end,
// fails to parse such keys: phase 1 of the sweep drops their tracking entry and the key never expires.
// Only the recognisably wrong forms are reported (strings.Split, strings.Fields, LastIndex*).
func runChKeySplitAtFirst(c *Ctx) {
	w := c.W
	fn := w.Func("centrifuge", "(*mapHub).parseChKey")
	if !c.Anchor("C24.R8", "(*mapHub).parseChKey", fn) {
		return
	}
	bad := ""
	EachInstr(fn, func(in ssa.Instruction) {
		call, ok := in.(*ssa.Call)
		if !ok {
			return
		}
		cal := call.Call.StaticCallee()
		if cal == nil || cal.Pkg == nil || cal.Pkg.Pkg.Path() != "strings" {
			return
		}
		switch cal.Name() {
		case "Split", "Fields", "LastIndex", "LastIndexByte", "LastIndexAny", "SplitAfter":
			bad = "strings." + cal.Name()
		case "SplitN", "SplitAfterN":
			if k, ok := constIntOf(call.Call.Args[2]); !ok || k != 2 {
				bad = "strings." + cal.Name() + " with n != 2"
			}
		}
	})
	c.CheckAt("C24.R8", "(*centrifuge.mapHub).parseChKey: splits at the first separator", w.Pos(fn.Pos()), bad == "",
		"a key that contains the separator byte no longer parses ("+bad+"): the sweep treats its tracking entry as malformed and drops it, the heap item is already popped, and the key stays in state for ever without a removal")
}

func init() {
	r4doc("C26", "C26.R6", "pairing: the per-channel map flag lives exactly as long as the channel's subscriber entry")
	round3Hooks["C26"] = append(round3Hooks["C26"], runMapFlagPairedWithSubs)
	r4doc("C30", "C30.R7", "K2: only data messages are compressed (every writer API consults isData)")
	round3Hooks["C30"] = append(round3Hooks["C30"], runCompressOnlyData)
	r4doc("C29", "C29.R7", "K2: whether a message is inflated depends on its RSV1 bit, not on the length of its first fragment")
	round3Hooks["C29"] = append(round3Hooks["C29"], runInflateIndependentOfLength)
	r4doc("C32", "C32.R5", "single source: the protocol of a stream transport is the one its handler chose for the framing")
	round3Hooks["C32"] = append(round3Hooks["C32"], runTransportProtocolFromHandler)
	r4doc("C25", "C25.R8", "sibling agreement: both refresh cycles ask the backend for the full item when a key still needs a broadcast")
	round3Hooks["C25"] = append(round3Hooks["C25"], runRefreshCyclesHonourNeedsBroadcast)
}

// runMapFlagPairedWithSubs (C26.R6): subShard.mapChannels[ch] records which broker serves the channel; the
// delayed unsubscribe job uses the value removeSub hands back when the channel empties. The flag must be
// dropped together with the channel's subscriber entry — a delete of mapChannels sits in the same block as
// a delete of subs. Dropped on an earlier removal, the last subscriber's removal reports "not a map
// channel" and the map broker is never unsubscribed.
func runMapFlagPairedWithSubs(c *Ctx) {
	w := c.W
	n := 0
	for _, f := range moduleFuncs(w) {
		for _, d := range mapDeletesOf(f, false, "subShard", "mapChannels") {
			n++
			paired := false
			for _, s := range mapDeletesOf(f, false, "subShard", "subs") {
				if s.Block() == d.Block() {
					paired = true
				}
			}
			c.Check("C26.R6", d, "the map flag of a channel is deleted together with its subscriber entry", paired,
				"the flag is cleared while subscribers remain: when the last one leaves the channel is reported as a stream channel, the stream broker is unsubscribed instead, and the node stays subscribed in the map broker with no local subscriber")
		}
	}
	c.Anchor("C26.R6", "deletes of subShard.mapChannels", n >= 1)
}

// runCompressOnlyData (C30.R7): RFC 7692 forbids RSV1 on control frames and the reader never inflates
// control payloads. Every place that decides to compress an outgoing message consults isData(messageType):
// a store of true into messageWriter.compress is guarded by it, and the compress field of a prepareKey is
// computed from it.
func runCompressOnlyData(c *Ctx) {
	w := c.W
	isDataCall := func(call *ssa.Call) bool {
		cal := call.Call.StaticCallee()
		return cal != nil && cal.Name() == "isData"
	}
	n := 0
	for _, f := range moduleFuncs(w) {
		if f.Pkg == nil || !strings.HasSuffix(f.Pkg.Pkg.Path(), "internal/websocket") {
			continue
		}
		for _, st := range storesToField(f, false, "messageWriter", "compress") {
			if k, ok := boolConst(st.Val); !ok || !k {
				continue
			}
			n++
			okG := GuardedBy(st, func(g Guard) bool { return g.Pol && condFromCall(g.Cond, isDataCall, 0, map[ssa.Value]bool{}) })
			c.Check("C30.R7", st, "a message writer compresses only when isData(messageType) holds", okG,
				"a control message written through the writer API is deflated and sent with RSV1 set: the peer's handler receives bytes that differ from what was written")
		}
		for _, st := range storesToField(f, false, "prepareKey", "compress") {
			if k, ok := boolConst(st.Val); ok && !k {
				continue // "never compressed" needs no test
			}
			n++
			c.Check("C30.R7", st, "a prepared message is compressed only when isData(messageType) holds", condFromCall(st.Val, isDataCall, 0, map[ssa.Value]bool{}),
				"a prepared control message is deflated and sent with RSV1 set")
		}
	}
	c.Anchor("C30.R7", "compression decisions of the writer APIs", n >= 2)
}

// runInflateIndependentOfLength (C29.R7): a compressed message may be fragmented anywhere (RFC 7692), also
// with an empty first fragment. NextReader decides from the RSV1 state of the first frame alone: no guard of
// the newDecompressionReader call reads the remaining/declared length of that frame.
func runInflateIndependentOfLength(c *Ctx) {
	w := c.W
	fn := w.Func("internal/websocket", "(*Conn).NextReader")
	if !c.Anchor("C29.R7", "(*Conn).NextReader", fn) {
		return
	}
	n := 0
	for _, ci := range CallsIn(fn, false, fieldFuncCall("Conn", "newDecompressionReader")) {
		n++
		bad := ""
		for _, g := range Guards(ci) {
			var loads []*ssa.UnOp
			fieldLoadsIn(g.Cond, 0, map[ssa.Value]bool{}, &loads)
			for _, ld := range loads {
				if fa, ok := ld.X.(*ssa.FieldAddr); ok {
					if _, f, ok := FieldOf(fa); ok && (f == "readRemaining" || f == "readLength") {
						bad = "Conn." + f
					}
				}
			}
		}
		c.Check("C29.R7", ci, "the decompression reader is installed whatever the length of the first fragment", bad == "",
			"a compressed message whose first fragment is empty is handed to the application as raw deflate bytes, and the decompressed-size limit is not enforced for it (guard on "+bad+")")
	}
	c.Anchor("C29.R7", "newDecompressionReader call in NextReader", n >= 1)
}

// runTransportProtocolFromHandler (C32.R5): the HTTP-stream and SSE handlers pick the framing from the
// request and hand the protocol to the transport in its config; encoding follows transport.Protocol().
// Framing and encoding agree only if the transport keeps the protocol it was given: the constructors do not
// store into the protocolType field of their config.
func runTransportProtocolFromHandler(c *Ctx) {
	w := c.W
	n := 0
	for _, name := range []string{"newHTTPStreamTransport", "newSSETransport"} {
		fn := w.Func("centrifuge", name)
		if fn == nil {
			continue
		}
		n++
		bad := ""
		EachInstr(fn, func(in ssa.Instruction) {
			st, ok := in.(*ssa.Store)
			if !ok {
				return
			}
			fa, ok := st.Addr.(*ssa.FieldAddr)
			if !ok {
				return
			}
			if _, f, ok := FieldOf(fa); ok && f == "protocolType" {
				bad = w.InstrPos(st)
			}
		})
		c.CheckAt("C32.R5", name+": keeps the protocol chosen by the handler", w.Pos(fn.Pos()), bad == "",
			"the handler frames the stream for the protocol it derived from the request; a constructor that re-derives it (differently) makes encoding and framing disagree — protobuf replies written as newline-delimited records (store at "+bad+")")
	}
	c.Anchor("C32.R5", "stream transport constructors", n >= 1)
}

// runRefreshCyclesHonourNeedsBroadcast (C25.R8): a key flagged needsBroadcast has a subscriber that holds
// nothing; the next backend poll must ask for the full item (version 0), whichever of the two refresh
// cycles gets there first. Every function of the shared-poll channel state that fills SharedPollItem.Version
// from a tracked entry also reads that entry's needsBroadcast.
func runRefreshCyclesHonourNeedsBroadcast(c *Ctx) {
	w := c.W
	n := 0
	for _, f := range moduleFuncs(w) {
		fills := false
		for _, st := range storesToField(f, false, "SharedPollItem", "Version") {
			var loads []*ssa.UnOp
			fieldLoadsIn(st.Val, 0, map[ssa.Value]bool{}, &loads)
			for _, ld := range loads {
				if fa, ok := ld.X.(*ssa.FieldAddr); ok && fieldAddrIs(fa, "sharedPollTrackedEntry", "version") {
					fills = true
				}
			}
		}
		if !fills {
			continue
		}
		n++
		reads := false
		for _, acc := range FieldAccesses(f, "sharedPollTrackedEntry", "needsBroadcast") {
			if !acc.Write {
				reads = true
			}
		}
		c.CheckAt("C25.R8", FuncName(f)+": the version asked from the backend depends on needsBroadcast", w.Pos(f.Pos()), reads,
			"a late joiner of an already tracked key is served by a re-fetch; a cycle that always sends the entry's version gets 'nothing newer' from a backend that skips unchanged items, and the joiner never receives the current value")
	}
	c.Anchor("C25.R8", "refresh cycles filling SharedPollItem.Version from tracked entries", n >= 2)
}

func init() {
	r4doc("C27", "C27.R8", "K2: an option that is present is forwarded to the other nodes whatever its value")
	round3Hooks["C27"] = append(round3Hooks["C27"], runOptionForwardedWhenPresent)
}

// runOptionForwardedWhenPresent (C27.R8): the calling node applies the caller's options as they are; the
// other nodes get what pubSubscribe / pubRefresh / pubUnsubscribe / pubDisconnect put into the control
// message. A field that is copied under a condition may only depend on the option being present (a nil
// test): a test of its value (a zero offset treated as "no position") makes the remote nodes act on
// different options than the calling node.
func runOptionForwardedWhenPresent(c *Ctx) {
	w := c.W
	n := 0
	for _, name := range []string{"(*Node).pubSubscribe", "(*Node).pubRefresh", "(*Node).pubUnsubscribe", "(*Node).pubDisconnect"} {
		fn := w.Func("centrifuge", name)
		if fn == nil {
			continue
		}
		EachInstr(fn, func(in ssa.Instruction) {
			st, ok := in.(*ssa.Store)
			if !ok {
				return
			}
			fa, ok := st.Addr.(*ssa.FieldAddr)
			if !ok || !strings.Contains(fa.X.Type().String(), "controlpb.") {
				return
			}
			gs := Guards(st)
			if len(gs) == 0 {
				return
			}
			n++
			bad := ""
			for _, g := range gs {
				b, ok := g.Cond.(*ssa.BinOp)
				if ok && (isNilConst(b.X) || isNilConst(b.Y)) {
					continue
				}
				bad = g.String()
			}
			c.Check("C27.R8", st, "a conditionally forwarded option depends only on its presence", bad == "",
				"the option is dropped from the control message for some of its values ("+bad+"): connections on other nodes are handled with different options than a connection on the calling node")
		})
	}
	c.Anchor("C27.R8", "conditionally forwarded control message fields", n >= 1)
}

func init() {
	r4doc("C33", "C33.R7", "sibling agreement: join and leave messages carry their own type prefix on every publish branch")
	round3Hooks["C33"] = append(round3Hooks["C33"], runJoinLeavePrefixes)
	r4doc("C36", "C36.R9", "wrong sibling value: connection expiry uses the connection grace delay, subscription expiry the subscription one")
	round3Hooks["C36"] = append(round3Hooks["C36"], runExpiryDelayRoles)
	r4doc("C39", "C39.R7", "K2: every publication withheld while the recovered list is built leaves a placeholder, whichever filter withheld it")
	round3Hooks["C39"] = append(round3Hooks["C39"], runWithheldLeavesPlaceholder)
}

// runJoinLeavePrefixes (C33.R7): publishJoin and publishLeave frame their message with a type prefix on two
// branches (PUBLISH and sharded SPUBLISH). Each function references its own prefix variable only: a leave
// framed with the join prefix on one branch is dispatched as a join by the receiving node.
func runJoinLeavePrefixes(c *Ctx) {
	w := c.W
	n := 0
	for _, pair := range [][2]string{{"(*RedisBroker).publishJoin", "leaveTypePrefix"}, {"(*RedisBroker).publishLeave", "joinTypePrefix"}} {
		fn := w.Func("centrifuge", pair[0])
		if fn == nil {
			continue
		}
		n++
		bad := ""
		EachInstr(fn, func(in ssa.Instruction) {
			for _, op := range in.Operands(nil) {
				if g, ok := (*op).(*ssa.Global); ok && g.Name() == pair[1] {
					bad = w.InstrPos(in)
				}
			}
		})
		c.CheckAt("C33.R7", pair[0]+": uses its own type prefix on every branch", w.Pos(fn.Pos()), bad == "",
			"the message is framed with "+pair[1]+" on one branch (at "+bad+"): the receiving node dispatches a leave as a join (or the reverse) for that PUB/SUB mode only")
	}
	c.Anchor("C33.R7", "publishJoin / publishLeave", n == 2)
}

// runExpiryDelayRoles (C36.R9): Config has two grace delays of the same type. The connection expiry timer
// (scheduleOnConnectTimers, handleRefresh, Client.Refresh — every function that calls addExpireUpdate) may
// read ClientExpiredCloseDelay only; the subscription expiry check gets ClientExpiredSubCloseDelay.
func runExpiryDelayRoles(c *Ctx) {
	w := c.W
	n := 0
	arm := w.calleeIs("Client.addExpireUpdate")
	for _, f := range moduleFuncs(w) {
		if f.Pkg == nil || f.Pkg.Pkg.Path() != modPath || len(CallsIn(f, false, arm)) == 0 {
			continue
		}
		n++
		bad := ""
		for _, acc := range FieldAccesses(f, "Config", "ClientExpiredSubCloseDelay") {
			bad = w.InstrPos(acc.In)
		}
		c.CheckAt("C36.R9", FuncName(f)+": the connection expiry timer is armed with the connection grace delay", w.Pos(f.Pos()), bad == "",
			"the subscription grace delay is used for the connection's expiry (at "+bad+"): with different settings a connection refreshed inside its grace window is closed as expired, or an unrefreshed one outlives it")
	}
	c.Anchor("C36.R9", "functions arming the connection expiry timer", n >= 2)
	for _, ci := range CallsIn(w.Func("centrifuge", "(*Client).updatePresence"), false, w.calleeIs("Client.checkSubscriptionExpiration")) {
		ok := false
		for _, a := range ci.Common().Args {
			if strings.Contains(D(a), "ClientExpiredSubCloseDelay") {
				ok = true
			}
		}
		c.Check("C36.R9", ci, "the subscription expiry check gets the subscription grace delay", ok, "a subscription is expired with the connection's grace delay")
	}
}

// runWithheldLeavesPlaceholder (C39.R7): isStreamRecovered builds the recovered list for the merge and
// marks every publication a filter withholds with a placeholder (Time == -1) so that the merge's gap check
// sees a contiguous range. In its loop, on every path from a true verdict of publicationFiltered to the next
// iteration, a value is appended to the result: no verdict leads straight to `continue`.
func runWithheldLeavesPlaceholder(c *Ctx) {
	w := c.W
	fn := w.Func("centrifuge", "isStreamRecovered")
	if !c.Anchor("C39.R7", "isStreamRecovered", fn) {
		return
	}
	isAppend := func(in ssa.Instruction) bool {
		call, ok := in.(*ssa.Call)
		if !ok {
			return false
		}
		b, ok := call.Call.Value.(*ssa.Builtin)
		return ok && b.Name() == "append"
	}
	n := 0
	for _, b := range fn.Blocks {
		if len(b.Instrs) == 0 {
			continue
		}
		ifi, ok := b.Instrs[len(b.Instrs)-1].(*ssa.If)
		if !ok {
			continue
		}
		call, ok := ifi.Cond.(*ssa.Call)
		if !ok {
			continue
		}
		if cal := w.Callee(call); cal == nil || cal.Name() != "publicationFiltered" {
			continue
		}
		n++
		// loop header: the block with the range test that dominates b
		lh := loopHeaderOf(b)
		bad := PathQ{
			Stop: isAppend,
			Goal: func(x ssa.Instruction) bool {
				return isReturn(x) || (lh != nil && len(lh.Instrs) > 0 && x == lh.Instrs[0])
			},
			EdgeCond: func(cond ssa.Value, outcome bool) bool {
				// a second filter test on the way (a || chain): follow its true edge as well
				return true
			},
		}.FromBlock(b.Succs[0])
		c.Check("C39.R7", ifi, "a publication a filter withholds leaves a placeholder in the recovered list", bad == nil,
			"skipped without a placeholder, the offset is a hole the merge cannot tell from a lost publication: with buffered publications present the subscriber is disconnected with insufficient state"+instrAt(w, bad))
	}
	c.Anchor("C39.R7", "filter verdicts in isStreamRecovered", n >= 2)
}

func init() {
	r4doc("C28", "C28.R4", "K2: Client.Unsubscribe gives up only for a closed connection")
	round3Hooks["C28"] = append(round3Hooks["C28"], runUnsubscribeOnlySkipsClosed)
	r4doc("C34", "C34.R4", "K2 (cluster): no script key of the map broker can be the empty string (it would hash to slot 0)")
	round3Hooks["C34"] = append(round3Hooks["C34"], runNoEmptyScriptKeyInCluster)
}

// runUnsubscribeOnlySkipsClosed (C28.R4): a connection is registered in the hub and holds its connect-time
// subscriptions before its status becomes connected. Client.Unsubscribe may return without acting only for
// a closed connection: every comparison of Client.status in it is an equality test against statusClosed.
func runUnsubscribeOnlySkipsClosed(c *Ctx) {
	w := c.W
	fn := w.Func("centrifuge", "(*Client).Unsubscribe")
	if !c.Anchor("C28.R4", "(*Client).Unsubscribe", fn) {
		return
	}
	closed, ok := w.ConstInt("centrifuge", "statusClosed")
	if !c.Anchor("C28.R4", "constant statusClosed", ok) {
		return
	}
	n := 0
	EachInstr(fn, func(in ssa.Instruction) {
		b, ok := in.(*ssa.BinOp)
		if !ok || (b.Op != token.EQL && b.Op != token.NEQ) || !loadsField(b.X, "Client", "status") {
			return
		}
		n++
		k, isK := constIntOf(b.Y)
		c.Check("C28.R4", in, "the only state in which Unsubscribe does nothing is statusClosed", isK && k == closed,
			"a connection that is still connecting is already in the hub with its connect-time subscriptions: skipping it makes Node.Unsubscribe(user, \"\") report success while every subscription stays")
	})
	c.Anchor("C28.R4", "status test in Client.Unsubscribe", n >= 1)
}

// maybeEmptyInCluster: can the string value v be "" on a path on which the shard is a cluster?
func maybeEmptyInCluster(v ssa.Value, depth int, seen map[ssa.Value]bool) bool {
	if v == nil || depth > 8 || seen[v] {
		return false
	}
	seen[v] = true
	if s, ok := constStrOf(v); ok {
		return s == ""
	}
	phi, ok := v.(*ssa.Phi)
	if !ok {
		return false // built keys are never empty (prefix + infix)
	}
	for i, e := range phi.Edges {
		if i >= len(phi.Block().Preds) {
			continue
		}
		pred := phi.Block().Preds[i]
		skip := false
		for _, g := range GuardsOfBlock(pred) {
			// not a cluster on this edge
			if !g.Pol && strings.HasSuffix(D(g.Cond), ".isCluster") {
				skip = true
			}
			// the edge value was just found non-empty
			if b, ok := g.Cond.(*ssa.BinOp); ok && b.Op == token.EQL && !g.Pol && b.X == e {
				if s, isS := constStrOf(b.Y); isS && s == "" {
					skip = true
				}
			}
		}
		// the predecessor itself may end with the test `e == ""` whose false edge leads here
		if len(pred.Instrs) > 0 {
			if ifi, ok := pred.Instrs[len(pred.Instrs)-1].(*ssa.If); ok {
				if b, ok := ifi.Cond.(*ssa.BinOp); ok && b.Op == token.EQL && b.X == e && len(pred.Succs) == 2 && pred.Succs[1] == phi.Block() {
					if s, isS := constStrOf(b.Y); isS && s == "" {
						skip = true
					}
				}
				if strings.HasSuffix(D(ifi.Cond), ".isCluster") && len(pred.Succs) == 2 && pred.Succs[1] == phi.Block() {
					skip = true
				}
			}
		}
		if skip {
			continue
		}
		if maybeEmptyInCluster(e, depth+1, seen) {
			return true
		}
	}
	return false
}

// runNoEmptyScriptKeyInCluster (C34.R4): in Redis Cluster every key of one script call must hash to the
// slot of the others; an unused key is therefore passed as the slot-aligned placeholder, never as "". For
// the KEYS slice of RedisMapBroker.Publish and Remove (the first []string literal handed to Exec), no
// element can be the empty string on a path where the shard is a cluster.
func runNoEmptyScriptKeyInCluster(c *Ctx) {
	w := c.W
	n := 0
	for _, name := range []string{"(*RedisMapBroker).Publish", "(*RedisMapBroker).Remove"} {
		fn := w.Func("centrifuge", name)
		if fn == nil {
			continue
		}
		for _, f := range WithClosures(fn) {
			EachInstr(f, func(in ssa.Instruction) {
				call, ok := in.(*ssa.Call)
				if !ok || len(call.Call.Args) < 3 {
					return
				}
				cal := call.Call.StaticCallee()
				if cal == nil || cal.Name() != "Exec" {
					return
				}
				// KEYS: the first []string argument
				var keys ssa.Value
				for _, a := range call.Call.Args {
					if sl, ok := a.Type().Underlying().(*types.Slice); ok {
						if b, ok := sl.Elem().Underlying().(*types.Basic); ok && b.Kind() == types.String {
							keys = a
							break
						}
					}
				}
				sl, ok := keys.(*ssa.Slice)
				if !ok {
					return
				}
				al, ok := sl.X.(*ssa.Alloc)
				if !ok {
					return
				}
				n++
				bad := ""
				for _, r := range *al.Referrers() {
					ia, ok := r.(*ssa.IndexAddr)
					if !ok {
						continue
					}
					for _, rr := range *ia.Referrers() {
						if st, ok := rr.(*ssa.Store); ok && st.Addr == ssa.Value(ia) {
							if maybeEmptyInCluster(st.Val, 0, map[ssa.Value]bool{}) {
								bad = "KEYS[" + D(ia.Index) + "]"
							}
						}
					}
				}
				c.Check("C34.R4", in, "no script key is empty on a cluster shard", bad == "",
					"an empty key hashes to slot 0 while the other keys of the call carry the partition tag: the script is refused with CROSSSLOT ("+bad+" can be \"\")")
			})
		}
	}
	c.Anchor("C34.R4", "script calls of the Redis map broker", n >= 2)
}

func init() {
	r4doc("C41", "C41.R7", "K4 who-may-read: a survey response is matched through the registry only, never against the id counter")
	round3Hooks["C41"] = append(round3Hooks["C41"], runSurveyResponseByRegistryOnly)
	r4doc("C42", "C42.R6", "ownership: GetByteBuffer never hands out a package-level buffer object")
	round3Hooks["C42"] = append(round3Hooks["C42"], runGetReturnsPrivateBuffer)
	r4doc("C35", "C35.R6", "single source: a partition index becomes part of a key only through pubSubPartitionHashTag")
	r4doc("C34", "C34.R5", "single source: a partition index becomes part of a key only through pubSubPartitionHashTag")
	round3Hooks["C35"] = append(round3Hooks["C35"], func(c *Ctx) { runPartitionTagSingleSource(c, "C35.R6") })
	round3Hooks["C34"] = append(round3Hooks["C34"], func(c *Ctx) { runPartitionTagSingleSource(c, "C34.R5") })
}

// runSurveyResponseByRegistryOnly (C41.R7): surveys of one node may overlap, so "older than the newest id"
// says nothing about whether a survey is finished: only the registry does. handleSurveyResponse does not
// read Node.surveyID.
func runSurveyResponseByRegistryOnly(c *Ctx) {
	w := c.W
	fn := w.Func("centrifuge", "(*Node).handleSurveyResponse")
	if !c.Anchor("C41.R7", "(*Node).handleSurveyResponse", fn) {
		return
	}
	bad := ""
	for _, acc := range FieldAccesses(fn, "Node", "surveyID") {
		bad = w.InstrPos(acc.In)
	}
	c.CheckAt("C41.R7", "(*centrifuge.Node).handleSurveyResponse: responses are matched through the registry only", w.Pos(fn.Pos()), bad == "",
		"a response is judged against the id counter (at "+bad+"): with overlapping surveys the answers to the older, still running survey are dropped and it runs into its deadline with results missing")
}

// runGetReturnsPrivateBuffer (C42.R6): a buffer obtained from the pool is written by its holder. Every
// value GetByteBuffer returns is a fresh allocation or comes out of a sync.Pool — never an object kept in
// a package-level variable, which every caller of that size class would share.
func runGetReturnsPrivateBuffer(c *Ctx) {
	w := c.W
	fn := w.Func("internal/bpool", "GetByteBuffer")
	if !c.Anchor("C42.R6", "GetByteBuffer", fn) {
		return
	}
	n := 0
	EachInstr(fn, func(in ssa.Instruction) {
		r, ok := in.(*ssa.Return)
		if !ok {
			return
		}
		for _, v := range retVals(r) {
			n++
			c.Check("C42.R6", r, "GetByteBuffer returns a private buffer object", !fromSharedObject(w, v, 0, map[ssa.Value]bool{}),
				"the returned object lives in a package-level variable: two holders write the same buffer, and once it is put back a size class hands out a dirty buffer ("+D(v)+")")
		}
	})
	c.Anchor("C42.R6", "returns of GetByteBuffer", n >= 2)
}

// runPartitionTagSingleSource: the tag of a partition is its bundled precomputed tag or, in the legacy
// scheme, its decimal index — decided in one place, pubSubPartitionHashTag. A key builder that formats the
// partition index itself ignores UsePrecomputedPartitionTags for that key: it lands in another slot than
// the rest of the partition's keys, and on the unbalanced bare-index slots.
func runPartitionTagSingleSource(c *Ctx, rule string) {
	w := c.W
	isIndex := w.calleeIs("consistentIndex")
	fromIndex := func(v ssa.Value) bool {
		return derivesFromPred(v, func(x ssa.Value) bool {
			call, ok := x.(*ssa.Call)
			return ok && isIndex(call)
		}, 0, map[ssa.Value]bool{})
	}
	n := 0
	for _, f := range moduleFuncs(w) {
		if f.Pkg == nil || f.Pkg.Pkg.Path() != modPath {
			continue
		}
		EachInstr(f, func(in ssa.Instruction) {
			call, ok := in.(*ssa.Call)
			if !ok {
				return
			}
			cal := call.Call.StaticCallee()
			if cal == nil || cal.Pkg == nil || cal.Pkg.Pkg.Path() != "strconv" || (cal.Name() != "Itoa" && cal.Name() != "FormatInt" && cal.Name() != "FormatUint") {
				return
			}
			if !fromIndex(call.Call.Args[0]) {
				return
			}
			n++
			c.Check(rule, in, "a partition index is formatted only inside pubSubPartitionHashTag", strings.HasSuffix(f.Name(), "pubSubPartitionHashTag") || strings.HasSuffix(f.Name(), "PartitionHashTag"),
				"the key gets the bare index as its hash tag whatever UsePrecomputedPartitionTags says: it hashes to another slot than the partition's other keys and channel")
		})
	}
	c.CheckAt(rule, "formatting of partition indices examined", "broker_redis.go", true, "")
	_ = n
}

// flagGuardValue: the boolean v can be true only where the subscribed flag of Client.channels[ch] was
// found set: v is that test itself, or a φ whose edges are the constant false, or values computed in blocks
// dominated by the test.
func flagGuardValue(w *World, v ssa.Value) bool {
	sub := w.flagGuard("flagSubscribed", true, "Client.channels[")
	if sub(Guard{Cond: v, Pol: true}) {
		return true
	}
	phi, ok := v.(*ssa.Phi)
	if !ok {
		return false
	}
	for i, e := range phi.Edges {
		if k, known := boolConst(e); known && !k {
			continue
		}
		if sub(Guard{Cond: e, Pol: true}) {
			continue
		}
		if i >= len(phi.Block().Preds) {
			return false
		}
		dominated := false
		for _, g := range GuardsOfBlock(phi.Block().Preds[i]) {
			if sub(g) {
				dominated = true
			}
		}
		if !dominated {
			return false
		}
	}
	return true
}
