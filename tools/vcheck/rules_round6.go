package main

// Rules that came out of seeding round 6 (a short round over eight properties).

import (
	"go/token"
	"go/types"
	"strings"

	"golang.org/x/tools/go/ssa"
)

func init() {
	r4doc("C06", "C06.R6", "sibling agreement: every presence operation goes to the manager resolved for its channel (getPresenceManager), never straight to Node.presenceManager")
	round3Hooks["C06"] = append(round3Hooks["C06"], runPresenceManagerResolvedPerChannel)
	r4doc("C02", "C02.R8", "loop-carried delta base: in makeRecoveredPubsDeltaFossil no path into the next iteration keeps the previous base")
	round3Hooks["C02"] = append(round3Hooks["C02"], func(c *Ctx) { runRecoveredDeltaBaseFollows(c, "C02.R8") })
	r4doc("C14", "C14.R7", "loop-carried delta base: in makeRecoveredPubsDeltaFossil no path into the next iteration keeps the previous base")
	round3Hooks["C14"] = append(round3Hooks["C14"], func(c *Ctx) { runRecoveredDeltaBaseFollows(c, "C14.R7") })
	r4doc("C35", "C35.R7", "K1 never-after: with a tag table configured, pubSubPartitionHashTag never falls back to the bare index")
	round3Hooks["C35"] = append(round3Hooks["C35"], runPartitionTagNoFallback)
}

// runPresenceManagerResolvedPerChannel (C06.R6): Config.GetPresenceManager routes a channel to its own
// manager. Add, remove, read and stats must all address the same manager for one channel, which they do
// by resolving it through getPresenceManager; an operation invoked on a value loaded straight from
// Node.presenceManager ignores the routing for that one operation (an entry added in the channel's
// manager is then never removed from it).
func runPresenceManagerResolvedPerChannel(c *Ctx) {
	w := c.W
	ops := map[string]bool{"AddPresence": true, "RemovePresence": true, "Presence": true, "PresenceStats": true}
	isDefaultMgr := func(x ssa.Value) bool {
		u, ok := x.(*ssa.UnOp)
		if !ok || u.Op != token.MUL {
			return false
		}
		fa, ok := u.X.(*ssa.FieldAddr)
		return ok && fieldAddrIs(fa, "Node", "presenceManager")
	}
	n := 0
	for _, f := range moduleFuncs(w) {
		if f.Pkg == nil || f.Pkg.Pkg.Path() != modPath {
			continue
		}
		EachInstr(f, func(in ssa.Instruction) {
			call, ok := in.(ssa.CallInstruction)
			if !ok {
				return
			}
			cc := call.Common()
			if !cc.IsInvoke() || cc.Method == nil || !ops[cc.Method.Name()] {
				return
			}
			nt, ok := cc.Value.Type().(*types.Named)
			if !ok || nt.Obj().Name() != "PresenceManager" {
				return
			}
			n++
			c.Check("C06.R6", in, "presence operation addressed to the channel's resolved manager",
				!derivesFromPred(cc.Value, isDefaultMgr, 0, map[ssa.Value]bool{}),
				"the receiver is loaded from Node.presenceManager: for a channel that Config.GetPresenceManager routes elsewhere this operation goes to another manager than its siblings (an entry added there is never removed, or a removed one is still listed)")
		})
	}
	c.Anchor("C06.R6", "PresenceManager operations invoked by the node (>= 4)", n >= 4)
}

// runRecoveredDeltaBaseFollows: the client applies each recovered delta to the publication it received
// just before, whether that one came as a delta or in full. The base handed to fdelta.Create is carried
// from one iteration to the next in a variable; if some path into the next iteration leaves that variable
// as it was, the patch after a publication sent in full is computed against the wrong base.
// In SSA the carried variable is a φ at the loop header; the rule follows its incoming values through φs
// only and requires that it never reaches itself.
func runRecoveredDeltaBaseFollows(c *Ctx, rule string) {
	w := c.W
	fn := w.Func("centrifuge", "(*Client).makeRecoveredPubsDeltaFossil")
	if !c.Anchor(rule, "(*Client).makeRecoveredPubsDeltaFossil", fn) {
		return
	}
	isCreate := func(ci ssa.CallInstruction) bool {
		f := w.Callee(ci)
		return f != nil && f.Name() == "Create" && f.Pkg != nil && strings.Contains(f.Pkg.Pkg.Path(), "fossil-delta")
	}
	n, sites := 0, 0
	EachInstr(fn, func(in ssa.Instruction) {
		call, ok := in.(*ssa.Call)
		if !ok || !isCreate(call) || len(call.Call.Args) < 2 {
			return
		}
		sites++
		// base argument: load of (X).Data
		var holder ssa.Value
		base := call.Call.Args[0]
		for {
			if ct, ok := base.(*ssa.ChangeType); ok {
				base = ct.X
			} else if cv, ok := base.(*ssa.Convert); ok {
				base = cv.X
			} else {
				break
			}
		}
		if u, ok := base.(*ssa.UnOp); ok && u.Op == token.MUL {
			if fa, ok := u.X.(*ssa.FieldAddr); ok {
				holder = fa.X
			}
		}
		phi, ok := holder.(*ssa.Phi)
		if !ok {
			return // the base is computed per iteration, not carried
		}
		n++
		seen := map[ssa.Value]bool{}
		var reaches func(v ssa.Value) bool
		reaches = func(v ssa.Value) bool {
			if v == phi {
				return true
			}
			p, ok := v.(*ssa.Phi)
			if !ok || seen[p] {
				return false
			}
			seen[p] = true
			for _, e := range p.Edges {
				if reaches(e) {
					return true
				}
			}
			return false
		}
		stale := false
		for _, e := range phi.Edges {
			if reaches(e) {
				stale = true
			}
		}
		c.Check(rule, in, "the delta base advances on every path into the next iteration", !stale,
			"some path of the loop (a publication sent in full, a skipped one) keeps the previous base: the next patch is computed against a publication the client does not apply it to, and recovery is reported successful with data that does not reconstruct")
	})
	c.Anchor(rule, "fdelta.Create call in makeRecoveredPubsDeltaFossil", sites >= 1)
	_ = n
}

// runPartitionTagNoFallback (C35.R7): with UsePrecomputedPartitionTags the table is the tag scheme for
// every partition. A fallback to the decimal index for some entries mixes the two schemes: those
// partitions land on the bare-index slots (unbalanced) while the table was computed to spread all of them.
// Structural form: the strconv formatting of the index is not reachable from the branch on which the
// table was found non-nil.
func runPartitionTagNoFallback(c *Ctx) {
	w := c.W
	n := 0
	for _, name := range []string{"(*RedisBroker).pubSubPartitionHashTag", "(*RedisMapBroker).pubSubPartitionHashTag"} {
		fn := w.Func("centrifuge", name)
		if !c.Anchor("C35.R7", name, fn) {
			continue
		}
		var fmtBlocks []*ssa.BasicBlock
		EachInstr(fn, func(in ssa.Instruction) {
			if call, ok := in.(*ssa.Call); ok {
				if cal := call.Call.StaticCallee(); cal != nil && cal.Pkg != nil && cal.Pkg.Pkg.Path() == "strconv" {
					fmtBlocks = append(fmtBlocks, in.Block())
				}
			}
		})
		for _, b := range fn.Blocks {
			if len(b.Instrs) == 0 {
				continue
			}
			iff, ok := b.Instrs[len(b.Instrs)-1].(*ssa.If)
			if !ok {
				continue
			}
			bo, ok := iff.Cond.(*ssa.BinOp)
			if !ok || (bo.Op != token.NEQ && bo.Op != token.EQL) {
				continue
			}
			isTbl := func(v ssa.Value) bool {
				u, ok := v.(*ssa.UnOp)
				if !ok || u.Op != token.MUL {
					return false
				}
				fa, ok := u.X.(*ssa.FieldAddr)
				return ok && fieldAddrIs(fa, "", "partitionTags")
			}
			isNil := func(v ssa.Value) bool { k, ok := v.(*ssa.Const); return ok && k.IsNil() }
			if !((isTbl(bo.X) && isNil(bo.Y)) || (isTbl(bo.Y) && isNil(bo.X))) {
				continue
			}
			nonNil := b.Succs[0]
			if bo.Op == token.EQL {
				nonNil = b.Succs[1]
			}
			n++
			reach := map[*ssa.BasicBlock]bool{}
			var walk func(x *ssa.BasicBlock)
			walk = func(x *ssa.BasicBlock) {
				if reach[x] {
					return
				}
				reach[x] = true
				for _, s := range x.Succs {
					walk(s)
				}
			}
			walk(nonNil)
			bad := false
			for _, fb := range fmtBlocks {
				if reach[fb] {
					bad = true
				}
			}
			c.Check("C35.R7", iff, "no bare-index fallback once the tag table is configured", !bad,
				"a partition whose table entry is rejected gets its decimal index as hash tag: the two tag schemes are mixed and those partitions fall on the unbalanced bare-index slots")
		}
	}
	c.Anchor("C35.R7", "tag-table tests in pubSubPartitionHashTag (>= 2)", n >= 2)
}

func init() {
	r4doc("C37", "C37.R3", "conservation: Queue.size is only ever reset to a constant or moved relative to its own previous value")
	round3Hooks["C37"] = append(round3Hooks["C37"], runQueueSizeRelative)
}

// runQueueSizeRelative (C37.R3): ClientQueueMaxSize is enforced against Queue.Size(), the byte total of
// everything pending. That total is maintained incrementally; a store that assigns it a value not built
// from its previous value (the bytes of the last batch alone, say) forgets what was already queued, and a
// stalled connection fed in batches never reaches the limit. Every store to Queue.size is a constant
// (reset on Close) or previous-value ± something, possibly accumulated through a local that starts from
// the previous value.
func runQueueSizeRelative(c *Ctx) {
	w := c.W
	n := 0
	var rel func(v ssa.Value, seen map[ssa.Value]bool) bool
	rel = func(v ssa.Value, seen map[ssa.Value]bool) bool {
		if seen[v] {
			return true // a cycle through a φ adds nothing new
		}
		seen[v] = true
		switch x := v.(type) {
		case *ssa.UnOp:
			return loadsField(x, "Queue", "size")
		case *ssa.BinOp:
			if x.Op == token.ADD {
				return rel(x.X, seen) || rel(x.Y, seen)
			}
			if x.Op == token.SUB {
				return rel(x.X, seen)
			}
		case *ssa.Phi:
			for _, e := range x.Edges {
				if !rel(e, seen) {
					return false
				}
			}
			return true
		}
		return false
	}
	for _, f := range moduleFuncs(w) {
		if f.Pkg == nil || !strings.HasSuffix(f.Pkg.Pkg.Path(), "internal/queue") {
			continue
		}
		for _, st := range storesToField(f, false, "Queue", "size") {
			n++
			_, isConst := st.Val.(*ssa.Const)
			c.Check("C37.R3", st, "Queue.size is reset to a constant or moved relative to its previous value", isConst || rel(st.Val, map[ssa.Value]bool{}),
				"the pending-bytes total is assigned "+D(st.Val)+", which does not include what was already queued: Size() under-reports and a connection that does not read is never closed as slow")
		}
	}
	c.Anchor("C37.R3", "stores to Queue.size (>= 6)", n >= 6)
}

func init() {
	r4doc("C26", "C26.R8", "single decider: the 'first subscriber' result of subShard.addSub is decided by the subs lookup alone")
	round3Hooks["C26"] = append(round3Hooks["C26"], runAddSubFirstBySubsOnly)
}

// runAddSubFirstBySubsOnly (C26.R8): addSubscription calls Broker.Subscribe exactly when addSub reports the
// first local subscriber of the channel, and the broker subscription is dropped exactly when the last one
// leaves — both judged on subShard.subs. Any other registry (channel ids, map flags) can outlive a failed
// or rolled-back subscribe; a "first" result that also listens to it leaves local interest without a
// broker subscription. Structural form, on the leaves of the returned boolean (through φs): a constant
// true is returned only where the lookup's ok cannot be true, a constant false only where it cannot be
// false, `!ok` is fine, `ok` itself is wrong; other shapes get no verdict.
func runAddSubFirstBySubsOnly(c *Ctx) {
	w := c.W
	fn := w.Func("centrifuge", "(*subShard).addSub")
	if !c.Anchor("C26.R8", "(*subShard).addSub", fn) {
		return
	}
	var okVal ssa.Value
	EachInstr(fn, func(in ssa.Instruction) {
		ex, ok := in.(*ssa.Extract)
		if !ok || ex.Index != 1 || okVal != nil {
			return
		}
		lk, ok := ex.Tuple.(*ssa.Lookup)
		if ok && lk.CommaOk && loadsField(lk.X, "subShard", "subs") {
			okVal = ex
		}
	})
	if !c.Anchor("C26.R8", "comma-ok lookup of subShard.subs in addSub", okVal != nil) {
		return
	}
	reachUnder := func(val bool) map[*ssa.BasicBlock]bool {
		edge := assumeBool(okVal, val)
		seen := map[*ssa.BasicBlock]bool{}
		var walk func(b *ssa.BasicBlock)
		walk = func(b *ssa.BasicBlock) {
			if seen[b] {
				return
			}
			seen[b] = true
			for i, s := range b.Succs {
				if edge(b, i) {
					walk(s)
				}
			}
		}
		walk(fn.Blocks[0])
		return seen
	}
	whenTrue, whenFalse := reachUnder(true), reachUnder(false)
	n := 0
	var leaf func(v ssa.Value, at *ssa.BasicBlock, site ssa.Instruction, seen map[ssa.Value]bool)
	leaf = func(v ssa.Value, at *ssa.BasicBlock, site ssa.Instruction, seen map[ssa.Value]bool) {
		if seen[v] {
			return
		}
		seen[v] = true
		if k, ok := boolConst(v); ok {
			n++
			if k {
				c.Check("C26.R8", site, "'first' is reported true only where the channel was absent from subs", !whenTrue[at],
					"a path on which the channel already has local subscribers reports a first subscriber: the broker is subscribed twice")
			} else {
				c.Check("C26.R8", site, "'first' is reported false only where the channel was present in subs", !whenFalse[at],
					"a path on which the channel had no local subscriber reports 'not first' (through block "+at.String()+" of addSub): addSubscription skips Broker.Subscribe and the node has local interest without a broker subscription")
			}
			return
		}
		switch x := v.(type) {
		case *ssa.Phi:
			for i, e := range x.Edges {
				leaf(e, x.Block().Preds[i], site, seen)
			}
		case *ssa.UnOp:
			if x.Op == token.NOT && x.X == okVal {
				n++
				return
			}
		case *ssa.Extract:
			if x == okVal {
				n++
				c.Check("C26.R8", site, "'first' is the negation of the subs lookup", false, "the lookup result itself is returned: first and not-first are swapped")
			}
		}
	}
	EachInstr(fn, func(in ssa.Instruction) {
		r, ok := in.(*ssa.Return)
		if !ok || len(r.Results) != 3 {
			return
		}
		vals := retVals(r) // a deferred unlock spills the results into cells
		if k, isC := vals[2].(*ssa.Const); !isC || !k.IsNil() {
			return // error returns carry no verdict
		}
		leaf(vals[1], r.Block(), r, map[ssa.Value]bool{})
	})
	c.Anchor("C26.R8", "decided leaves of addSub's 'first' result (>= 2)", n >= 2)
}
