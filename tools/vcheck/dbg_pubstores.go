package main

import (
	"fmt"
	"os"
	"sort"
	"strings"
)

func init() {
	if os.Getenv("VCHECK_DBG_PUBSTORES") == "" {
		return
	}
	prev := dbgHook
	dbgHook = func(w *World) {
		if prev != nil {
			prev(w)
		}
		w.FieldStores("x", "y")
		var lines []string
		for k, sts := range w.fieldStoreIdx {
			if !strings.HasPrefix(k, "shared:Publication.") {
				continue
			}
			for _, st := range sts {
				lines = append(lines, fmt.Sprintf("%s %s in %s base=%s", k, w.InstrPos(st), FuncName(st.Parent()), D(st.Addr)))
			}
		}
		sort.Strings(lines)
		for _, l := range lines {
			fmt.Println(l)
		}
	}
}
