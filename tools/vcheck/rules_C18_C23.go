package main

import (
	"fmt"
	"go/ast"
	"go/token"
	"go/types"
	"sort"
	"strings"

	"golang.org/x/tools/go/ssa"
)

func init() {
	register(&PropMeta{
		ID:    "C18",
		Level: "other",
		Explanation: "structural agreement between the Redis and the Memory stream brokers, decided from source: (R1) the option fields (PublishOptions, HistoryOptions/HistoryFilter) each implementation reads are the same set, up to a frozen table of explained differences; (R2) for every broker Lua script, each Exec call site passes as many KEYS/ARGV as the script indexes (no nil reads) and every ARGV the Go side passes is read by every script that can receive it (no option silently ignored by one storage mode); (R3) the reply shapes the Go side indexes exist in the script's returns.",
		NotDecided: "equality of any returned offsets, publications or positions: those are runtime values produced by Redis, which is not available; no test or model compares results.",
		Rules: map[string]string{"C18.R1": "K6b option-field use: Memory vs Redis", "C18.R2": "K6c+K10 ARGV/KEYS arity of broker scripts", "C18.R3": "K10 reply arity"},
		Run: runC18,
	})
	register(&PropMeta{
		ID:    "C23",
		Level: "other",
		Explanation: "structural agreement between the Redis and the Memory map brokers, decided from source: (R1) the fields of MapPublishOptions/MapRemoveOptions/MapReadStateOptions/MapReadStreamOptions read by each implementation are the same set up to a frozen table of explained differences; (R2) ARGV/KEYS arity of the eight map scripts at every Exec site, and the two call sites of the add script agree; (R3) the suppression reasons the add script returns are exactly the Go SuppressReason constants and are tested in the same order as in the memory hub (idempotency, version, key exists / key not found, position mismatch).",
		NotDecided: "equality of state or stream contents, offsets, and page boundaries (runtime values; Redis is not available).",
		Rules: map[string]string{"C23.R1": "K6b option-field use: Memory vs Redis", "C23.R2": "K6c+K10 ARGV/KEYS arity of map scripts", "C23.R3": "K10 suppression vocabulary and order", "C23.R4": "K11 sibling templates of the cleanup registration key", "C23.R5": "exhaustiveness: Clear covers every key family"},
		Run: runC23,
	})
}

// fieldsReadFrom collects the fields of the named struct type read (Field / FieldAddr) in the
// functions reachable from roots through static module calls and closures.
func (w *World) fieldsReadFrom(roots []*ssa.Function, typ string, stopAt func(*ssa.Function) bool) (map[string]string, int) {
	out := map[string]string{}
	seen := map[*ssa.Function]bool{}
	var visit func(f *ssa.Function, depth int)
	visit = func(f *ssa.Function, depth int) {
		if f == nil || seen[f] || depth > 8 || !w.inModule(f) || (stopAt != nil && stopAt(f)) {
			return
		}
		seen[f] = true
		EachInstr(f, func(in ssa.Instruction) {
			switch x := in.(type) {
			case *ssa.Field:
				if typeShort(x.X.Type()) == typ {
					name := x.X.Type().Underlying().(*types.Struct).Field(x.Field).Name()
					if _, ok := out[name]; !ok {
						out[name] = w.InstrPos(in)
					}
				}
			case *ssa.FieldAddr:
				if typeShort(x.X.Type()) == typ {
					if st, ok := deref(x.X.Type()).Underlying().(*types.Struct); ok {
						// a pure initialisation (only stored to) is not a read
						read := false
						for _, r := range *x.Referrers() {
							if s, isS := r.(*ssa.Store); isS && s.Addr == x {
								continue
							}
							read = true
						}
						if read {
							name := st.Field(x.Field).Name()
							if _, ok := out[name]; !ok {
								out[name] = w.InstrPos(in)
							}
						}
					}
				}
			case *ssa.MakeClosure:
				if fn, ok := x.Fn.(*ssa.Function); ok {
					visit(fn, depth+1)
				}
			}
			if ci := asCall(in); ci != nil {
				if cal := w.Callee(ci); cal != nil {
					visit(cal, depth+1)
				}
			}
		})
	}
	for _, r := range roots {
		visit(r, 0)
	}
	return out, len(seen)
}

func deref(t types.Type) types.Type {
	if p, ok := t.Underlying().(*types.Pointer); ok {
		return p.Elem()
	}
	return t
}

type fieldDiffException struct {
	typ, field, side, reason string
}

// compareOptionUse emits one obligation per field of typ: read by both sides, by neither, or by one
// side with a frozen explanation.
func compareOptionUse(c *Ctx, rule, typ string, memRoots, redisRoots []string, exceptions []fieldDiffException) {
	w := c.W
	var mr, rr []*ssa.Function
	for _, n := range memRoots {
		if f := c.Fn(rule, "centrifuge", n); f != nil {
			mr = append(mr, f)
		}
	}
	for _, n := range redisRoots {
		if f := c.Fn(rule, "centrifuge", n); f != nil {
			rr = append(rr, f)
		}
	}
	if len(mr) == 0 || len(rr) == 0 {
		return
	}
	_, st := w.Struct("centrifuge", typ)
	if !c.Anchor(rule, "struct "+typ, st != nil) {
		return
	}
	isRedisFn := func(f *ssa.Function) bool {
		n := shortFuncName(f)
		return strings.HasPrefix(n, "Redis")
	}
	isMemFn := func(f *ssa.Function) bool {
		n := shortFuncName(f)
		return strings.HasPrefix(n, "Memory")
	}
	mem, nm := w.fieldsReadFrom(mr, typ, isRedisFn)
	red, nr := w.fieldsReadFrom(rr, typ, isMemFn)
	c.Anchor(rule, fmt.Sprintf("%s: functions analysed memory=%d redis=%d", typ, nm, nr), nm > 0 && nr > 0)
	exc := map[string]fieldDiffException{}
	for _, e := range exceptions {
		if e.typ == typ {
			exc[e.field] = e
		}
	}
	for i := 0; i < st.NumFields(); i++ {
		f := st.Field(i).Name()
		_, inM := mem[f]
		_, inR := red[f]
		site := typ + "." + f + ": used by both brokers or by neither"
		switch {
		case inM == inR:
			c.CheckAt(rule, site, firstNonEmpty(mem[f], red[f]), true, "")
			if e, has := exc[f]; has {
				c.CheckAt(rule, typ+"."+f+": frozen exception still needed", "", false, "exception '"+e.reason+"' is stale: both sides now agree; remove it from the table")
			}
		default:
			side := "memory"
			if inR {
				side = "redis"
			}
			e, has := exc[f]
			ok := has && e.side == side
			detail := fmt.Sprintf("read only by the %s implementation (%s)", side, firstNonEmpty(mem[f], red[f]))
			if ok {
				detail += "; accepted: " + e.reason
			} else {
				detail += ": an option one broker honours and the other ignores makes their results differ"
			}
			c.CheckAt(rule, site, firstNonEmpty(mem[f], red[f]), ok, detail)
		}
	}
}

func firstNonEmpty(a, b string) string {
	if a != "" {
		return a
	}
	return b
}

// ---- Lua script call sites -----------------------------------------------------------------------

type scriptSite struct {
	call    ssa.CallInstruction
	scripts []string // lua file names the receiver may be
	nKeys   int      // -1 unknown
	nArgs   int      // minimum number of ARGV when !argsExact
	argsExact bool
	args    []string // descriptors of the ARGV elements
}

// embedSources maps a package-level string variable to the file named by its //go:embed directive.
func (w *World) embedSources() map[string]string {
	out := map[string]string{}
	for _, p := range w.Pkgs {
		for _, f := range p.Syntax {
			for _, d := range f.Decls {
				gd, ok := d.(*ast.GenDecl)
				if !ok {
					continue
				}
				for _, sp := range gd.Specs {
					vs, ok := sp.(*ast.ValueSpec)
					if !ok || len(vs.Names) != 1 {
						continue
					}
					doc := vs.Doc
					if doc == nil {
						doc = gd.Doc
					}
					if doc == nil {
						continue
					}
					for _, cm := range doc.List {
						if strings.HasPrefix(cm.Text, "//go:embed ") {
							path := strings.TrimSpace(strings.TrimPrefix(cm.Text, "//go:embed "))
							if strings.HasSuffix(path, ".lua") {
								out[vs.Names[0].Name] = path[strings.LastIndex(path, "/")+1:]
							}
						}
					}
				}
			}
		}
	}
	return out
}

// scriptFields maps "<Type>.<field>" to the lua file its rueidis.NewLuaScript source comes from.
func (w *World) scriptFields() map[string]string {
	emb := w.embedSources()
	out := map[string]string{}
	for _, f := range w.AllFuncs {
		EachInstr(f, func(in ssa.Instruction) {
			st, ok := in.(*ssa.Store)
			if !ok {
				return
			}
			fa, ok := st.Addr.(*ssa.FieldAddr)
			if !ok {
				return
			}
			call, ok := st.Val.(*ssa.Call)
			if !ok {
				return
			}
			cal := call.Call.StaticCallee()
			if cal == nil || cal.Name() != "NewLuaScript" || len(call.Call.Args) < 1 {
				return
			}
			src := call.Call.Args[0]
			if u, ok := src.(*ssa.UnOp); ok {
				if g, ok := u.X.(*ssa.Global); ok {
					if file, has := emb[g.Name()]; has {
						typ, fld, ok := FieldOf(fa)
						if ok {
							out[typ+"."+fld] = file
						}
					}
				}
			}
		})
	}
	return out
}

// sliceLitLen: the number of elements of a []string built as a literal, nil, or by appending literal
// element lists to an empty slice. exact=false when a loop or a spread of unknown length adds more.
func sliceLitLen(v ssa.Value) (int, []string) {
	n, _, el := sliceShape(v, map[ssa.Value]bool{}, 0)
	return n, el
}

func sliceShape(v ssa.Value, seen map[ssa.Value]bool, depth int) (n int, exact bool, elems []string) {
	if v == nil || depth > 12 {
		return -1, false, nil
	}
	if seen[v] {
		return -2, false, nil // cycle marker: ignored by phi
	}
	seen[v] = true
	switch x := v.(type) {
	case *ssa.Const:
		if x.IsNil() {
			return 0, true, nil
		}
	case *ssa.MakeSlice:
		if l, ok := constIntOf(x.Len); ok && l == 0 {
			return 0, true, nil
		}
	case *ssa.Slice:
		al, ok := x.X.(*ssa.Alloc)
		if !ok {
			return -1, false, nil
		}
		arr, ok := deref(al.Type()).Underlying().(*types.Array)
		if !ok {
			return -1, false, nil
		}
		n := int(arr.Len())
		elems := make([]string, n)
		for _, r := range *al.Referrers() {
			ia, ok := r.(*ssa.IndexAddr)
			if !ok {
				continue
			}
			idx, isC := constIntOf(ia.Index)
			if !isC || idx < 0 || int(idx) >= n {
				continue
			}
			for _, rr := range *ia.Referrers() {
				if st, ok := rr.(*ssa.Store); ok && st.Addr == ia {
					elems[idx] = D(st.Val)
				}
			}
		}
		return n, true, elems
	case *ssa.Call:
		if b, ok := x.Call.Value.(*ssa.Builtin); ok && b.Name() == "append" && len(x.Call.Args) == 2 {
			bn, bex, bel := sliceShape(x.Call.Args[0], seen, depth+1)
			if bn == -2 {
				return -2, false, nil
			}
			if bn < 0 {
				return -1, false, nil
			}
			an, aex, ael := sliceShape(x.Call.Args[1], seen, depth+1)
			if an < 0 {
				return bn, false, bel
			}
			return bn + an, bex && aex, append(append([]string{}, bel...), ael...)
		}
	case *ssa.Phi:
		best, bestEl, ex := -1, []string(nil), true
		for _, e := range x.Edges {
			en, eex, eel := sliceShape(e, seen, depth+1)
			if en == -2 {
				ex = false
				continue
			}
			if en < 0 {
				return -1, false, nil
			}
			if best < 0 || en < best {
				best, bestEl = en, eel
			}
			if !eex || (best >= 0 && en != best) {
				ex = false
			}
		}
		return best, ex, bestEl
	}
	return -1, false, nil
}

func (w *World) scriptSites() []scriptSite {
	fields := w.scriptFields()
	var out []scriptSite
	var resolve func(v ssa.Value, depth int, acc map[string]bool)
	resolve = func(v ssa.Value, depth int, acc map[string]bool) {
		if depth > 6 {
			return
		}
		switch x := v.(type) {
		case *ssa.Phi:
			for _, e := range x.Edges {
				resolve(e, depth+1, acc)
			}
		case *ssa.UnOp:
			if fa, ok := x.X.(*ssa.FieldAddr); ok {
				if typ, fld, ok := FieldOf(fa); ok {
					if file, has := fields[typ+"."+fld]; has {
						acc[file] = true
					}
				}
				return
			}
			if al, ok := x.X.(*ssa.Alloc); ok {
				for _, r := range *al.Referrers() {
					if st, ok := r.(*ssa.Store); ok && st.Addr == al {
						resolve(st.Val, depth+1, acc)
					}
				}
			}
		case *ssa.Field:
			if typ, fld, ok := FieldOf(x); ok {
				if file, has := fields[typ+"."+fld]; has {
					acc[file] = true
				}
			}
		}
	}
	for _, f := range w.AllFuncs {
		if !w.inModule(f) || strings.HasSuffix(w.Pos(f.Pos()), "_test.go") {
			continue
		}
		EachInstr(f, func(in ssa.Instruction) {
			ci := asCall(in)
			if ci == nil {
				return
			}
			cal := ci.Common().StaticCallee()
			if cal == nil || cal.Name() != "Exec" || cal.Signature.Recv() == nil || typeShort(cal.Signature.Recv().Type()) != "Lua" {
				return
			}
			args := ci.Common().Args // recv, ctx, client, keys, args
			if len(args) != 5 {
				return
			}
			acc := map[string]bool{}
			resolve(args[0], 0, acc)
			var names []string
			for n := range acc {
				names = append(names, n)
			}
			sort.Strings(names)
			nk, _ := sliceLitLen(args[3])
			na, aex, el := sliceShape(args[4], map[ssa.Value]bool{}, 0)
			out = append(out, scriptSite{call: ci, scripts: names, nKeys: nk, nArgs: na, argsExact: aex, args: el})
		})
	}
	return out
}

// readsIndex reports whether the script reads tbl[i] with a constant index.
func (s *luaScript) readsIndex(tbl string, i int) bool {
	t := s.Toks
	want := fmt.Sprint(i)
	for k := 0; k+3 < len(t); k++ {
		if t[k].Kind == "name" && t[k].Text == tbl && t[k+1].Text == "[" && t[k+2].Kind == "number" && t[k+2].Text == want && t[k+3].Text == "]" {
			return true
		}
	}
	return false
}

func checkScriptArity(c *Ctx, rule string, files []string) {
	w := c.W
	lua := w.LuaScripts()
	want := map[string]bool{}
	for _, f := range files {
		want[f] = true
		c.Anchor(rule, "lua script "+f, lua[f] != nil)
	}
	seenScript := map[string]int{}
	for _, s := range w.scriptSites() {
		rel := false
		for _, n := range s.scripts {
			if want[n] {
				rel = true
			}
		}
		if !rel {
			continue
		}
		c.Check(rule, s.call, "Exec site passes literal KEYS and ARGV slices", s.nKeys >= 0 && s.nArgs >= 0, "arity can only be decided for slice literals")
		if s.nKeys < 0 || s.nArgs < 0 {
			continue
		}
		for _, n := range s.scripts {
			sc := lua[n]
			if sc == nil {
				continue
			}
			seenScript[n]++
			mk, ma := sc.maxIndex("KEYS"), sc.maxIndex("ARGV")
			c.Check(rule, s.call, n+": every KEYS[i] the script indexes is passed", mk <= s.nKeys, fmt.Sprintf("script indexes KEYS[%d], the call passes %d keys: the missing ones read as nil", mk, s.nKeys))
			c.Check(rule, s.call, n+": every ARGV[i] the script indexes is passed", ma <= s.nArgs, fmt.Sprintf("script indexes ARGV[%d], the call passes %d arguments: the missing ones read as nil", ma, s.nArgs))
			if !s.argsExact {
				c.Check(rule, s.call, n+": a variable-length ARGV tail is consumed by a script that indexes ARGV dynamically", sc.usesDynamicIndex("ARGV"), "the call appends a run-time number of arguments after the fixed ones")
			}
			for i := 1; i <= s.nArgs; i++ {
				what := ""
				if i-1 < len(s.args) {
					what = s.args[i-1]
				}
				c.Check(rule, s.call, fmt.Sprintf("%s: ARGV[%d] passed by the call is read by the script", n, i), sc.readsIndex("ARGV", i),
					fmt.Sprintf("the call passes %s as ARGV[%d] but %s never reads it: the option behind it is ignored by this storage mode while the sibling script and the memory broker honour it", what, i, n))
			}
			if !sc.usesDynamicIndex("KEYS") {
				for i := 1; i <= s.nKeys; i++ {
					c.Check(rule, s.call, fmt.Sprintf("%s: KEYS[%d] passed by the call is used by the script", n, i), sc.readsIndex("KEYS", i), "a key the script never touches")
				}
			}
		}
	}
	for _, f := range files {
		c.CheckAt(rule, "lua script "+f+" has an Exec call site", "internal/redis_lua/"+f, seenScript[f] >= 1, "a script that is never executed, or whose call site could not be resolved to it")
	}
}

// luaReturnArity lists, for every `return { … }` of a script, the number of top-level elements of
// the table (0 for a non-table return) together with its line.
func luaReturnArity(sc *luaScript) (tables []int, lines []int, nonTable int) {
	for _, ev := range sc.Events {
		if ev.Kind != "return" {
			continue
		}
		if len(ev.Ret) == 0 || ev.Ret[0].Text != "{" {
			nonTable++
			continue
		}
		depth, n, any := 0, 0, false
		for _, t := range ev.Ret {
			switch t.Text {
			case "{", "(", "[":
				depth++
			case "}", ")", "]":
				depth--
			case ",":
				if depth == 1 {
					n++
				}
			default:
				if depth >= 1 {
					any = true
				}
			}
			if depth == 0 && t.Text == "}" {
				break
			}
		}
		if any {
			n++
		}
		tables = append(tables, n)
		lines = append(lines, ev.Line)
	}
	return
}

// checkReplyUse (R3): a script that can answer with a table (a cached or suppressed outcome) must have
// its reply read as an array at every call site, and the constant indexes the Go side reads must exist
// in every table the script returns.
func checkReplyUse(c *Ctx, rule string, files []string) {
	w := c.W
	lua := w.LuaScripts()
	want := map[string]bool{}
	for _, f := range files {
		want[f] = true
	}
	for _, s := range w.scriptSites() {
		for _, n := range s.scripts {
			sc := lua[n]
			if !want[n] || sc == nil {
				continue
			}
			tables, _, _ := luaReturnArity(sc)
			if len(tables) == 0 {
				continue
			}
			minLen := tables[0]
			for _, t := range tables {
				if t < minLen {
					minLen = t
				}
			}
			v := s.call.Value()
			if v == nil {
				continue
			}
			// how is the RedisResult consumed?
			asArray := false
			maxIdx := int64(-1)
			var visit func(v ssa.Value, depth int)
			seen := map[ssa.Value]bool{}
			visit = func(v ssa.Value, depth int) {
				if v == nil || seen[v] || depth > 8 || v.Referrers() == nil {
					return
				}
				seen[v] = true
				for _, r := range *v.Referrers() {
					switch x := r.(type) {
					case *ssa.Call:
						if cal := x.Call.StaticCallee(); cal != nil && (cal.Name() == "ToArray" || cal.Name() == "AsStrSlice" || cal.Name() == "ToAny") {
							asArray = true
							visit(x, depth+1)
						}
					case *ssa.Extract:
						visit(x, depth+1)
					case *ssa.Phi:
						visit(x, depth+1)
					case *ssa.Store:
						if al, ok := x.Addr.(*ssa.Alloc); ok && x.Val == v {
							for _, rr := range *al.Referrers() {
								if u, ok := rr.(*ssa.UnOp); ok && u.X == al {
									visit(u, depth+1)
								}
							}
						}
					case *ssa.IndexAddr:
						if k, isC := constIntOf(x.Index); isC && k > maxIdx {
							maxIdx = k
						}
					case *ssa.Index:
						if k, isC := constIntOf(x.Index); isC && k > maxIdx {
							maxIdx = k
						}
					}
				}
			}
			visit(v, 0)
			c.Check(rule, s.call, n+": the script's table reply (cached / suppressed outcome) is read by the caller", asArray,
				"the script answers a repeated idempotency key with a table instead of publishing; a caller that looks only at the error reports the duplicate as a fresh, unsuppressed publish with an empty position, while the memory broker reports Suppressed with the cached position")
			if asArray && maxIdx >= 0 {
				c.Check(rule, s.call, n+": every reply element the caller always reads exists in every table the script returns", int(maxIdx) < minLen || guardedByLen(s.call, maxIdx),
					fmt.Sprintf("caller reads element %d, the shortest table the script returns has %d", maxIdx, minLen))
			}
		}
	}
}

// guardedByLen: the function compares len(replies) against constants, so longer indexes are reads the
// code makes only after a length test (the detail of which test guards which read is in the bounds rules).
func guardedByLen(ci ssa.CallInstruction, _ int64) bool {
	found := false
	EachInstr(ci.Parent(), func(in ssa.Instruction) {
		if b, ok := in.(*ssa.BinOp); ok && strings.HasPrefix(D(b.X), "len(") {
			if _, isC := constIntOf(b.Y); isC {
				found = true
			}
		}
	})
	return found
}

func runC18(c *Ctx) {
	exceptions := []fieldDiffException{
		{"PublishOptions", "Offset", "redis", "fan-out transport field: a map broker that fans out through a PUB/SUB broker pre-assigns the position and the Redis broker copies it into the wire publication; the memory broker delivers in-process and no in-repo caller sets it (broker.go documents it as such)"},
		{"PublishOptions", "PrevData", "redis", "fan-out transport field (previous data for delta on the receiving node), same documented purpose as Offset; in-process delivery passes prevPub directly"},
	}
	compareOptionUse(c, "C18.R1", "PublishOptions", []string{"(*MemoryBroker).Publish"}, []string{"(*RedisBroker).Publish"}, exceptions)
	compareOptionUse(c, "C18.R1", "HistoryOptions", []string{"(*MemoryBroker).History"}, []string{"(*RedisBroker).History"}, exceptions)
	compareOptionUse(c, "C18.R1", "HistoryFilter", []string{"(*MemoryBroker).History"}, []string{"(*RedisBroker).History"}, exceptions)
	checkScriptArity(c, "C18.R2", []string{"broker_publish_idempotent.lua", "broker_history_add_list.lua", "broker_history_add_stream.lua", "broker_history_list.lua", "broker_history_stream.lua"})
	checkReplyUse(c, "C18.R3", []string{"broker_publish_idempotent.lua", "broker_history_add_list.lua", "broker_history_add_stream.lua", "broker_history_list.lua", "broker_history_stream.lua"})
}

func runC23(c *Ctx) {
	w := c.W
	exceptions := []fieldDiffException{}
	compareOptionUse(c, "C23.R1", "MapPublishOptions", []string{"(*MemoryMapBroker).Publish"}, []string{"(*RedisMapBroker).Publish"}, exceptions)
	compareOptionUse(c, "C23.R1", "MapRemoveOptions", []string{"(*MemoryMapBroker).Remove"}, []string{"(*RedisMapBroker).Remove"}, exceptions)
	compareOptionUse(c, "C23.R1", "MapReadStateOptions", []string{"(*MemoryMapBroker).ReadState"}, []string{"(*RedisMapBroker).ReadState"}, exceptions)
	compareOptionUse(c, "C23.R1", "MapReadStreamOptions", []string{"(*MemoryMapBroker).ReadStream"}, []string{"(*RedisMapBroker).ReadStream"}, exceptions)
	checkScriptArity(c, "C23.R2", []string{"map_broker_add.lua", "map_broker_read_ordered.lua", "map_broker_read_unordered.lua", "map_broker_stream_read.lua", "map_broker_read_meta.lua", "map_broker_stats.lua", "map_broker_find_expired.lua", "map_broker_batch_remove.lua"})
	// sibling call sites of the add script agree
	var addSites []scriptSite
	for _, s := range w.scriptSites() {
		for _, n := range s.scripts {
			if n == "map_broker_add.lua" {
				addSites = append(addSites, s)
			}
		}
	}
	if c.Anchor("C23.R2", "two call sites of the add script (publish, remove)", len(addSites) >= 2) {
		for _, s := range addSites[1:] {
			c.Check("C23.R2", s.call, "add-script call sites pass the same number of KEYS and ARGV", s.nKeys == addSites[0].nKeys && s.nArgs == addSites[0].nArgs, fmt.Sprintf("%d/%d vs %d/%d", s.nKeys, s.nArgs, addSites[0].nKeys, addSites[0].nArgs))
		}
	}
	runC23Keys(c)
	// R3 vocabulary and order
	sc := w.LuaScripts()["map_broker_add.lua"]
	if c.Anchor("C23.R3", "map_broker_add.lua", sc != nil) {
		goReasons := map[string]string{}
		for _, name := range []string{"SuppressReasonIdempotency", "SuppressReasonVersion", "SuppressReasonKeyExists", "SuppressReasonKeyNotFound", "SuppressReasonPositionMismatch"} {
			if v, ok := w.ConstString("centrifuge", name); c.Anchor("C23.R3", "constant "+name, ok) {
				goReasons[v] = name
			}
		}
		first := map[string]int{}
		var order []string
		for _, ev := range sc.Events {
			if ev.Kind != "return" {
				continue
			}
			for _, t := range ev.Ret {
				if t.Kind == "string" && t.Text != "" {
					if _, isReason := goReasons[t.Text]; isReason {
						if _, seen := first[t.Text]; !seen {
							first[t.Text] = ev.Line
							order = append(order, t.Text)
						}
					} else if ev.Ret[len(ev.Ret)-1].Text == "}" && looksLikeReason(t.Text) {
						c.CheckAt("C23.R3", "map_broker_add.lua: reason \""+t.Text+"\" is a SuppressReason constant", luaPos(sc, ev.Line), false, "the Go side maps the third reply element to SuppressReason; an unknown string is reported as an unknown reason")
					}
				}
			}
		}
		for v, name := range goReasons {
			_, has := first[v]
			c.CheckAt("C23.R3", "map_broker_add.lua returns reason "+name, "internal/redis_lua/map_broker_add.lua", has, "the memory hub can suppress with \""+v+"\"; the script never does")
		}
		// memory order
		add := w.Func("centrifuge", "(*mapHub).add")
		if add != nil {
			var memOrder []string
			seenR := map[string]bool{}
			type rr struct {
				reason string
				ret    *ssa.Return
			}
			var rets []rr
			EachInstr(add, func(in ssa.Instruction) {
				r, ok := in.(*ssa.Return)
				if !ok {
					return
				}
				vals := retVals(r)
				if len(vals) != 4 {
					return
				}
				if sv, ok := constStrOf(vals[2]); ok && sv != "" {
					rets = append(rets, rr{sv, r})
				}
			})
			// order by reachability: a before b when some return of a's test precedes b's in the CFG
			sort.SliceStable(rets, func(i, j int) bool { return rets[i].ret.Block().Index < rets[j].ret.Block().Index })
			for _, r := range rets {
				if !seenR[r.reason] {
					seenR[r.reason] = true
					memOrder = append(memOrder, r.reason)
				}
			}
			var luaOrder []string
			for _, o := range order {
				if o != "idempotency" {
					luaOrder = append(luaOrder, o)
				}
			}
			c.CheckAt("C23.R3", "suppression tests in the same order in map_broker_add.lua and mapHub.add", "internal/redis_lua/map_broker_add.lua", strings.Join(luaOrder, "<") == strings.Join(memOrder, "<"),
				"lua: "+strings.Join(luaOrder, " < ")+"; memory: "+strings.Join(memOrder, " < ")+": when two conditions hold at once the brokers would report different reasons")
		}
	}
}

// runC23Keys: (R4) every site that builds a key of the cleanup-registration family puts the same
// operand into the hash tag as the family's builder does (the registration written by the add script
// must be the key the cleanup worker scans); (R5) Clear deletes every per-channel key family the
// broker has a builder for (state left behind — e.g. per-key versions — changes later outcomes, while
// the memory broker drops the whole channel).
func runC23Keys(c *Ctx) {
	w := c.W
	type site struct {
		in  ssa.Instruction
		tag string
	}
	var sites []site
	for _, f := range w.AllFuncs {
		if !w.inModule(f) || strings.HasSuffix(w.Pos(f.Pos()), "_test.go") {
			continue
		}
		EachInstr(f, func(in ssa.Instruction) {
			b, ok := in.(*ssa.BinOp)
			if !ok || b.Op != token.ADD {
				return
			}
			// outermost concatenation only
			for _, r := range *b.Referrers() {
				if rb, ok := r.(*ssa.BinOp); ok && rb.Op == token.ADD {
					return
				}
			}
			parts := concatParts(b, 0)
			for i, p := range parts {
				if strings.HasPrefix(p, "\"") && strings.Contains(p, ":cleanup:channels:{") && i+1 < len(parts) {
					sites = append(sites, site{in, parts[i+1]})
				}
			}
		})
	}
	if c.Anchor("C23.R4", "constructions of the cleanup registration key with a hash tag", len(sites) >= 2) {
		for _, s := range sites {
			ok := strings.Contains(s.tag, "pubSubPartitionHashTag(")
			c.Check("C23.R4", s.in, "cleanup registration key is tagged with the partition's hash tag", ok,
				"the add script registers a channel under …:cleanup:channels:{tag(partition)}; a site that tags with "+s.tag+" names a different key whenever precomputed partition tags are enabled, so the cleanup worker never sees the registration and expired keys are never removed")
		}
	}
	// R5
	clear := c.Fn("C23.R5", "centrifuge", "(*RedisMapBroker).Clear")
	bk := w.Func("centrifuge", "(*RedisMapBroker).buildKey")
	if clear == nil || !c.Anchor("C23.R5", "(*RedisMapBroker).buildKey", bk != nil) {
		return
	}
	n := 0
	for _, f := range w.AllFuncs {
		if !w.inModule(f) || f.Signature.Recv() == nil || typeShort(f.Signature.Recv().Type()) != "RedisMapBroker" || f == bk {
			continue
		}
		calls := CallsIn(f, false, w.calleeFn(bk))
		if len(calls) != 1 || len(f.Blocks) != 1 {
			continue
		}
		infix, isC := constStrOf(calls[0].Common().Args[3])
		if !isC {
			continue
		}
		n++
		used := len(CallsIn(clear, true, w.calleeFn(f))) > 0
		c.CheckAt("C23.R5", "(*centrifuge.RedisMapBroker).Clear deletes the "+infix+" key family ("+f.Name()+")", w.Pos(clear.Pos()), used,
			"Clear must leave nothing of the channel behind: the memory broker drops the whole channel, so a surviving key family (per-key versions, order index, expiry index) makes the next operations diverge")
	}
	c.Anchor("C23.R5", "per-channel key family builders of the Redis map broker", n >= 5)
}

func looksLikeReason(s string) bool {
	if len(s) < 4 || len(s) > 24 {
		return false
	}
	for _, r := range s {
		if !(r == '_' || (r >= 'a' && r <= 'z')) {
			return false
		}
	}
	return true
}
