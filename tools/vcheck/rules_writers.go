package main

import (
	"fmt"
	"go/token"
	"strings"

	"golang.org/x/tools/go/ssa"
)

func init() {
	register(&PropMeta{
		ID:    "C12",
		Level: "other",
		Explanation: "(R1) every transport write issued by the connection writer (WriteFn / WriteManyFn) runs with writer.mu held in the same critical section as the queue drain that produced its items, so drains and writes of concurrent flushers (writer goroutine, timer flush, close-with-flush) cannot interleave; " +
			"(R2) every caller of writer.enqueue/enqueueMany tests the returned *Disconnect and on non-nil starts closing the connection; enqueue returns DisconnectSlow exactly on the size > MaxQueueSize edge, after the item was added; " +
			"(R3) writer.close marks the writer closed, and on the flush edge drains with CloseRemaining before writing the remainder, otherwise just closes the queue, all under writer.mu; " +
			"(R4) every access of the queue's fields holds the queue mutex.",
		NotDecided: "the ring-buffer index arithmetic (resize, shrink): loss or duplication at value level is outside any sound static bound in reach; the direct-write mode of replies (replyWithoutQueue) bypasses the queue by design.",
		Rules:      map[string]string{"C12.R1": "K3: drain and write in one critical section", "C12.R2": "K4 error discipline on enqueue results; K2 slow-consumer edge", "C12.R3": "K1 order in writer.close", "C12.R4": "K3 lockset on queue.Queue fields"},
		Run:        runC12,
	})
	register(&PropMeta{
		ID:    "C13",
		Level: "other",
		Explanation: "(R1) channelWriter.buffer/latestPubs/timer/timerStop are accessed only under the channel writer's mutex and its flush callback is invoked only from flushLocked with that mutex held (a batch is cut and handed over atomically); " +
			"(R2) the timer-driven flush is dominated by the timerStop identity test, close() flushes only on flushRemaining and drops both buffers on every path; " +
			"(R3) a latest-publication batch is the buffered join/leave pushes followed by the per-key latest publications, and both buffers are reset before the hand-over; " +
			"(R4) the per-connection registry of channel writers is accessed under its lock and delWriter closes the writer it removes.",
		NotDecided: "per-key coalescing results (values); timing of the batch delay.",
		Rules:      map[string]string{"C13.R1": "K3 lockset + K4 who-may-call flushFn", "C13.R2": "K2 guards, must-pass stores in close", "C13.R3": "K1 order in flushLocked", "C13.R4": "K3 lockset on perChannelWriter.writers"},
		Run:        runC13,
	})
}

func isFuncFieldCall(ci ssa.CallInstruction, typ string, fields ...string) bool {
	for _, f := range fields {
		if fieldFuncCall(typ, f)(ci) {
			return true
		}
	}
	return false
}

func runC12(c *Ctx) {
	w := c.W
	li := w.Locks()
	drain := w.calleeIs("Queue.RemoveManyInto", "Queue.RemoveManyIntoShrink", "Queue.CloseRemaining", "Queue.RemoveMany")
	n := 0
	for _, f := range w.AllFuncs {
		if !strings.HasPrefix(shortFuncName(f), "writer.") {
			continue
		}
		for _, wc := range CallsIn(f, false, func(ci ssa.CallInstruction) bool { return isFuncFieldCall(ci, "writerConfig", "WriteFn", "WriteManyFn") }) {
			n++
			held := li.HeldAt(wc)
			okLock := held.Holds("writer.mu", true)
			// the drain that feeds it
			var d ssa.CallInstruction
			for _, dc := range CallsIn(f, false, drain) {
				if Reaches(dc, wc) {
					d = dc
				}
			}
			okSection := d != nil && li.HeldAt(d).Holds("writer.mu", true) && unlockBetween(f, d, wc, "writer.mu") == nil
			if d == nil {
				// a dispatch helper (write one / write many) called with the drained batch: judge every
				// call site of the helper in its caller
				callers := w.Callers(f)
				okSection = len(callers) > 0
				for _, cs := range callers {
					g := cs.Parent()
					var dd ssa.CallInstruction
					for _, dc := range CallsIn(g, false, drain) {
						if Reaches(dc, cs) {
							dd = dc
						}
					}
					if dd == nil || !li.HeldAt(dd).Holds("writer.mu", true) || unlockBetween(g, dd, cs, "writer.mu") != nil || unlockBetween(f, f.Blocks[0].Instrs[0], wc, "writer.mu") != nil {
						okSection = false
					}
				}
			}
			det := "the batch leaves the queue and reaches the transport in one critical section; otherwise a concurrent close-with-flush (or timer flush) writes later messages first and the drained batch is written after close returned"
			if !okLock || !okSection {
				det += fmt.Sprintf(" (held at write: %s; drain under lock: %v)", held, d != nil && li.HeldAt(d).Holds("writer.mu", true))
			}
			c.Check("C12.R1", wc, "transport write under writer.mu in the critical section of its drain", okLock && okSection, det)
		}
	}
	c.Floor("C12.R1", 3)

	// ---- R2
	for _, name := range []string{"(*writer).enqueue", "(*writer).enqueueMany"} {
		fn := c.Fn("C12.R2", "centrifuge", name)
		if fn == nil {
			continue
		}
		for _, ci := range w.Callers(fn) {
			v := ci.Value()
			handled := false
			if v != nil && v.Referrers() != nil {
				// the result may be spilled to a cell when a closure captures it: also follow loads of that cell
				users := append([]ssa.Instruction{}, *v.Referrers()...)
				for _, r := range *v.Referrers() {
					if st, ok := r.(*ssa.Store); ok && st.Val == v {
						if al, ok := st.Addr.(*ssa.Alloc); ok && al.Referrers() != nil {
							for _, ar := range *al.Referrers() {
								if ld, ok := ar.(*ssa.UnOp); ok && ld.Op == token.MUL && ld.Referrers() != nil {
									users = append(users, *ld.Referrers()...)
								}
							}
						}
					}
				}
				for _, r := range users {
					b, ok := r.(*ssa.BinOp)
					if !ok || b.Op != token.NEQ || !isNilConst(b.Y) {
						continue
					}
					for _, ifi := range ifsOn(b) {
						hit := PathQ{Goal: func(in ssa.Instruction) bool {
							x := asCall(in)
							if x == nil {
								return false
							}
							closeP := w.calleeIs("Client.close", "Client.spawnCloseUnlessClosing", "Client.Disconnect")
							if closeP(x) {
								return true
							}
							if cal := w.Callee(x); cal != nil && w.MayReach(cal, closeP, 2) {
								return true
							}
							return false
						}}.FromBlock(ifi.Block().Succs[0])
						if hit != nil {
							handled = true
						}
					}
				}
			}
			c.Check("C12.R2", ci, "enqueue result tested and a non-nil Disconnect closes the connection", handled, "a connection whose queue overflowed (slow consumer) or whose writer is closed must be closed, not silently skipped")
		}
		// slow edge
		var add ssa.CallInstruction
		for _, a := range CallsIn(fn, false, w.calleeIs("Queue.Add", "Queue.AddMany")) {
			add = a
		}
		slowOK := false
		// the test may sit in the function itself or in helpers it calls (a shared tail, a predicate)
		isSizeCmp := func(v ssa.Value) bool {
			b, ok := v.(*ssa.BinOp)
			return ok && b.Op == token.GTR && strings.Contains(D(b.X), "Queue.Size(") && strings.Contains(D(b.Y), "MaxQueueSize")
		}
		returnsSizeCmp := func(f *ssa.Function) bool {
			found := false
			EachInstr(f, func(in ssa.Instruction) {
				if isSizeCmp2(in, isSizeCmp) {
					found = true
				}
			})
			return found
		}
		dv := w.Deep(fn, 2)
		dv.Each(func(in ssa.Instruction) {
			r, ok := in.(*ssa.Return)
			if !ok || len(r.Results) != 1 || !strings.Contains(D(retVals(r)[0]), "DisconnectSlow") {
				return
			}
			g := GuardedBy(r, func(g Guard) bool {
				if !g.Pol {
					return false
				}
				if isSizeCmp(g.Cond) {
					return true
				}
				// a boolean helper that makes the comparison
				if call, ok := g.Cond.(*ssa.Call); ok {
					if cal := w.Callee(call); cal != nil && w.inModule(cal) && returnsSizeCmp(cal) {
						return true
					}
				}
				return false
			})
			if g && add != nil && (in.Parent() != fn || Precedes(add, r)) {
				slowOK = true
			}
		})
		c.CheckAt("C12.R2", name+": DisconnectSlow exactly when the queued size exceeds MaxQueueSize", w.Pos(fn.Pos()), slowOK, "exceeding the configured queue size must close the connection as a slow consumer")
		// flush holds writer.mu across the whole transport write (R1). A producer that takes the same lock
		// before it compares the size blocks exactly when the peer stopped reading — nobody reports the
		// overflow while it grows. The comparison is therefore made without writer.mu on every call path.
		var mayHold func(in ssa.Instruction, depth int) bool
		mayHold = func(in ssa.Instruction, depth int) bool {
			if w.Locks().HeldAt(in).Holds("writer.mu", false) {
				return true
			}
			if depth <= 0 || in.Parent() == fn {
				return false
			}
			for _, site := range w.Callers(in.Parent()) {
				if mayHold(site, depth-1) {
					return true
				}
			}
			return false
		}
		dv.Each(func(in ssa.Instruction) {
			if !isSizeCmp2(in, isSizeCmp) {
				return
			}
			c.Check("C12.R2", in, name+": the slow-consumer size test is made without writer.mu", !mayHold(in, 3),
				"flush holds writer.mu for the whole transport write: a producer that waits for it before testing the size blocks while the peer is stuck, so the queue grows past MaxQueueSize and the connection is never closed as slow")
		})
	}
	c.Floor("C12.R2", 4)

	// ---- R3
	cl := c.Fn("C12.R3", "centrifuge", "(*writer).close")
	if cl != nil {
		flushParam := paramNamed(cl, "flushRemaining")
		cr := CallsIn(cl, false, w.calleeIs("Queue.CloseRemaining"))
		qc := CallsIn(cl, false, w.calleeIs("Queue.Close"))
		wm := CallsIn(cl, false, func(ci ssa.CallInstruction) bool { return isFuncFieldCall(ci, "writerConfig", "WriteManyFn", "WriteFn") })
		if c.Anchor("C12.R3", "CloseRemaining / Close / WriteManyFn in writer.close", len(cr) == 1 && len(qc) == 1 && len(wm) >= 1 && flushParam != nil) {
			c.Check("C12.R3", cr[0], "CloseRemaining only on the flushRemaining edge", GuardedBy(cr[0], func(g Guard) bool { return g.Pol && resolveCell(g.Cond) == ssa.Value(flushParam) }), "closing with flush must deliver everything queued before the close")
			c.Check("C12.R3", qc[0], "plain Close only on the no-flush edge", GuardedBy(qc[0], func(g Guard) bool { return !g.Pol && resolveCell(g.Cond) == ssa.Value(flushParam) }), "closing without flush must not write")
			for _, x := range wm {
				c.Check("C12.R3", x, "remaining messages written after CloseRemaining", Precedes(cr[0], x) && strings.Contains(D(x.Common().Args[0]), "CloseRemaining("), "the flush must write exactly what CloseRemaining drained")
			}
			// closed flag set before draining, under the lock, after the already-closed test
			okClosed := false
			for _, st := range storesToField(cl, false, "writer", "closed") {
				if v, known := boolConst(st.Val); known && v && Precedes(st, cr[0]) && li.HeldAt(st).Holds("writer.mu", true) &&
					GuardedBy(st, func(g Guard) bool { return !g.Pol && strings.HasSuffix(D(g.Cond), "writer.closed") }) {
					okClosed = true
				}
			}
			c.Check("C12.R3", cr[0], "writer marked closed (once) before the final drain", okClosed, "a second close would flush or close the queue twice")
		}
	}

	// ---- R4
	k := 0
	for _, f := range w.AllFuncs {
		if f.Pkg == nil || shortPkg(f.Pkg.Pkg.Path()) != "internal/queue" || f.Name() == "New" {
			continue
		}
		qs, _ := w.Struct("internal/queue", "Queue")
		if qs == nil {
			break
		}
		_, st := w.Struct("internal/queue", "Queue")
		for i := 0; i < st.NumFields(); i++ {
			fld := st.Field(i).Name()
			if fld == "mu" || fld == "cond" {
				continue
			}
			for _, a := range FieldAccesses(f, "Queue", fld) {
				// immutable configuration fields are set in New only
				if !a.Write && (fld == "initCap") {
					continue
				}
				k++
				held := li.HeldAt(a.In)
				c.Check("C12.R4", a.In, "Queue."+fld+" "+a.Kind+" under the queue mutex", held.Holds("Queue.mu", a.Write), "unsynchronised queue access (held: "+held.String()+")")
			}
		}
	}
	c.Floor("C12.R4", 40)
}

func runC13(c *Ctx) {
	w := c.W
	li := w.Locks()
	k := 0
	for _, f := range w.AllFuncs {
		if f.Name() == "newChannelWriter" {
			continue
		}
		for _, fld := range []string{"buffer", "latestPubs", "timer", "timerStop", "latestOnly"} {
			for _, a := range FieldAccesses(f, "channelWriter", fld) {
				k++
				held := li.HeldAt(a.In)
				c.Check("C13.R1", a.In, "channelWriter."+fld+" "+a.Kind+" under the channel writer mutex", held.Holds("channelWriter.mu", true), "batch state touched outside the mutex (held: "+held.String()+"; entry of "+FuncName(f)+": "+li.Entry(f).String()+")")
			}
		}
		for _, fc := range CallsIn(f, false, func(ci ssa.CallInstruction) bool { return isFuncFieldCall(ci, "channelWriter", "flushFn") }) {
			held := li.HeldAt(fc)
			c.Check("C13.R1", fc, "flush callback invoked only from flushLocked with the mutex held", shortFuncName(f) == "channelWriter.flushLocked" && held.Holds("channelWriter.mu", true),
				"cutting a batch and handing it over must be atomic: outside the lock a later flush (size trigger, close) overtakes an earlier batch, the batch aliasing the buffer is overwritten, and close(false) no longer waits for an in-flight timer flush (held: "+held.String()+")")
		}
	}
	c.Floor("C13.R1", 25)

	// ---- R2
	wt := c.Fn("C13.R2", "centrifuge", "(*channelWriter).waitTimer")
	flush := w.calleeIs("channelWriter.flushLocked")
	if wt != nil {
		for _, fc := range CallsIn(wt, false, flush) {
			okG := GuardedBy(fc, func(g Guard) bool {
				b, ok := g.Cond.(*ssa.BinOp)
				return ok && g.Pol && b.Op == token.EQL && strings.HasSuffix(D(b.X), "channelWriter.timerStop")
			})
			c.Check("C13.R2", fc, "timer flush dominated by the timerStop identity test", okG, "a timer whose batch was already flushed or whose writer was closed must not flush again (delivery after the subscription ended)")
		}
	}
	cl := c.Fn("C13.R2", "centrifuge", "(*channelWriter).close")
	if cl != nil {
		fp := paramNamed(cl, "flushRemaining")
		for _, fc := range CallsIn(cl, false, flush) {
			c.Check("C13.R2", fc, "close flushes only when asked to", fp != nil && GuardedBy(fc, func(g Guard) bool { return g.Pol && resolveCell(g.Cond) == ssa.Value(fp) }), "nothing buffered for a channel is delivered after the subscription ended or the connection closed without flush")
		}
		for _, fld := range []string{"buffer", "latestPubs"} {
			isNilStore := func(in ssa.Instruction) bool {
				st, ok := in.(*ssa.Store)
				if !ok || !isNilConst(st.Val) {
					return false
				}
				fa, ok := st.Addr.(*ssa.FieldAddr)
				return ok && fieldAddrIs(fa, "channelWriter", fld)
			}
			bad := PathQ{Stop: isNilStore, Goal: isReturn}.FromEntry(cl)
			c.CheckAt("C13.R2", "(*channelWriter).close: drops "+fld+" on every path", w.Pos(cl.Pos()), bad == nil, "a closed channel writer must keep nothing to deliver later")
		}
		stops := CallsIn(cl, false, w.calleeIs("channelWriter.stopTimerLocked"))
		c.CheckAt("C13.R2", "(*channelWriter).close: stops the batch timer", w.Pos(cl.Pos()), len(stops) > 0, "a running timer would flush after close")
	}

	// ---- R3
	fl := c.Fn("C13.R3", "centrifuge", "(*channelWriter).flushLocked")
	if fl != nil {
		fcalls := CallsIn(fl, false, func(ci ssa.CallInstruction) bool { return isFuncFieldCall(ci, "channelWriter", "flushFn") })
		if c.Anchor("C13.R3", "flushFn call in flushLocked", len(fcalls) == 1) {
			fc := fcalls[0]
			for _, fld := range []string{"buffer", "latestPubs"} {
				reset := false
				for _, st := range storesToField(fl, false, "channelWriter", fld) {
					if Precedes(st, fc) {
						reset = true
					}
				}
				c.Check("C13.R3", fc, fld+" reset before the batch is handed over", reset, "an un-reset buffer is delivered again by the next flush (duplicates)")
			}
			// latest-mode batch order: buffer appended before latestPubs
			var firstBuf, firstLatest ssa.Instruction
			EachInstr(fl, func(in ssa.Instruction) {
				fa, ok := in.(*ssa.FieldAddr)
				if !ok {
					return
				}
				if !GuardedBy(fa, func(g Guard) bool { return g.Pol && strings.HasSuffix(D(g.Cond), "channelWriter.latestOnly") }) {
					return
				}
				if fieldAddrIs(fa, "channelWriter", "buffer") && firstBuf == nil {
					firstBuf = fa
				}
				if fieldAddrIs(fa, "channelWriter", "latestPubs") && firstLatest == nil {
					// skip the len() test in the condition itself
					if GuardedBy(fa, func(g Guard) bool {
						b, ok := g.Cond.(*ssa.BinOp)
						return ok && g.Pol && b.Op == token.GTR && strings.Contains(D(b.X), "latestPubs")
					}) {
						firstLatest = fa
					}
				}
			})
			ok := firstBuf != nil && firstLatest != nil && (Precedes(firstBuf, firstLatest))
			c.Check("C13.R3", fc, "latest-mode batch = buffered join/leave pushes, then latest publications", ok, "in latest-publication mode a flush delivers join/leave pushes followed by only the newest publication of each key")
		}
	}

	// ---- R4
	for _, f := range w.AllFuncs {
		if f.Name() == "newPerChannelWriter" {
			continue
		}
		for _, a := range FieldAccesses(f, "perChannelWriter", "writers") {
			held := li.HeldAt(a.In)
			c.Check("C13.R4", a.In, "perChannelWriter.writers "+a.Kind+" under its lock", held.Holds("perChannelWriter.mu", a.Write), "registry of channel writers accessed without its lock (held: "+held.String()+")")
		}
	}
	dw := c.Fn("C13.R4", "centrifuge", "(*perChannelWriter).delWriter")
	if dw != nil {
		cls := CallsIn(dw, false, w.calleeIs("channelWriter.close"))
		dels := mapDeletesOf(dw, false, "perChannelWriter", "writers")
		ok := len(cls) == 1 && len(dels) == 1 && li.HeldAt(cls[0]).Holds("perChannelWriter.mu", true)
		c.CheckAt("C13.R4", "(*perChannelWriter).delWriter: closes the writer it removes, under the registry lock", w.Pos(dw.Pos()), ok, "a removed but unclosed writer keeps its timer and buffer and delivers after the subscription ended")
		if len(cls) == 1 && len(cls[0].Common().Args) == 2 {
			p := paramNamed(dw, "flushRemaining")
			c.Check("C13.R4", cls[0], "delWriter forwards its flush decision", p != nil && cls[0].Common().Args[1] == ssa.Value(p), "the caller decides whether the remainder is delivered")
		}
	}
}
