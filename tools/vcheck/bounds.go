package main

import (
	"fmt"
	"go/constant"
	"go/token"
	"go/types"
	"sort"
	"strings"

	"golang.org/x/tools/go/ssa"
)

// K9 — a small linear-arithmetic prover for index/slice obligations.
// Facts and goals are linear inequalities  Σ cᵢ·xᵢ + k ≥ 0  over symbolic atoms (SSA values and
// len(...) of SSA values, value-numbered structurally). A goal is discharged when facts ∧ ¬goal is
// infeasible over the rationals (Fourier–Motzkin elimination inside the analyzer; no external solver).

type lin struct {
	c map[string]int64
	k int64
}

func newLin() lin { return lin{c: map[string]int64{}} }

func (a lin) clone() lin {
	o := newLin()
	for k, v := range a.c {
		o.c[k] = v
	}
	o.k = a.k
	return o
}

func (a lin) add(b lin, s int64) lin {
	o := a.clone()
	for k, v := range b.c {
		o.c[k] += s * v
		if o.c[k] == 0 {
			delete(o.c, k)
		}
	}
	o.k += s * b.k
	return o
}

func (a lin) scale(s int64) lin {
	o := newLin()
	for k, v := range a.c {
		if v*s != 0 {
			o.c[k] = v * s
		}
	}
	o.k = a.k * s
	return o
}

func linConst(k int64) lin { l := newLin(); l.k = k; return l }
func linAtom(name string) lin {
	l := newLin()
	l.c[name] = 1
	return l
}

func (a lin) String() string {
	var ks []string
	for k := range a.c {
		ks = append(ks, k)
	}
	sort.Strings(ks)
	var parts []string
	for _, k := range ks {
		parts = append(parts, fmt.Sprintf("%d·%s", a.c[k], k))
	}
	parts = append(parts, fmt.Sprint(a.k))
	return strings.Join(parts, " + ")
}

func gcd(a, b int64) int64 {
	if a < 0 {
		a = -a
	}
	if b < 0 {
		b = -b
	}
	for b != 0 {
		a, b = b, a%b
	}
	return a
}

// fmInfeasible: is the conjunction of `l ≥ 0` for l in cons infeasible?
func fmInfeasible(cons []lin) bool {
	cur := cons
	for iter := 0; iter < 40; iter++ {
		// constant contradictions
		vars := map[string]int{}
		for _, l := range cur {
			if len(l.c) == 0 && l.k < 0 {
				return true
			}
			for v := range l.c {
				vars[v]++
			}
		}
		if len(vars) == 0 {
			return false
		}
		// pick the variable minimising pos*neg
		best, bestCost := "", int(^uint(0)>>1)
		names := make([]string, 0, len(vars))
		for v := range vars {
			names = append(names, v)
		}
		sort.Strings(names)
		for _, v := range names {
			p, n := 0, 0
			for _, l := range cur {
				if l.c[v] > 0 {
					p++
				} else if l.c[v] < 0 {
					n++
				}
			}
			if cost := p * n; cost < bestCost {
				best, bestCost = v, cost
			}
		}
		var pos, neg, rest []lin
		for _, l := range cur {
			switch {
			case l.c[best] > 0:
				pos = append(pos, l)
			case l.c[best] < 0:
				neg = append(neg, l)
			default:
				rest = append(rest, l)
			}
		}
		for _, p := range pos {
			for _, n := range neg {
				a, b := p.c[best], -n.c[best]
				comb := p.scale(b).add(n.scale(a), 1)
				delete(comb.c, best)
				g := int64(0)
				for _, v := range comb.c {
					g = gcd(g, v)
				}
				if g > 1 {
					for k := range comb.c {
						comb.c[k] /= g
					}
					// floor division keeps soundness for ≥ 0 over integers
					if comb.k >= 0 {
						comb.k /= g
					} else {
						comb.k = -((-comb.k + g - 1) / g)
					}
				}
				rest = append(rest, comb)
			}
		}
		if len(rest) > 4000 {
			return false
		}
		cur = rest
	}
	return false
}

// boundsCtx collects facts for one function.
type boundsCtx struct {
	w     *World
	fn    *ssa.Function
	facts []lin
	seenA map[string]bool
}

// atomKey value-numbers a value structurally (go/ssa has no CSE).
func atomKey(v ssa.Value) string {
	d := D(v)
	if strings.Contains(d, "…") || strings.Contains(d, "φ") {
		return fmt.Sprintf("%s@%s", d, v.Name())
	}
	return d
}

// lenPreserving strips conversions that keep the length (string<->[]byte and the repo's zero-copy helpers).
func lenPreserving(v ssa.Value) ssa.Value {
	for i := 0; i < 6; i++ {
		switch x := v.(type) {
		case *ssa.Convert:
			if isStringOrBytes(x.X.Type()) && isStringOrBytes(x.Type()) {
				v = x.X
				continue
			}
		case *ssa.ChangeType:
			v = x.X
			continue
		case *ssa.Call:
			if f := x.Call.StaticCallee(); f != nil && (f.Name() == "BytesToString" || f.Name() == "StringToBytes") && len(x.Call.Args) == 1 {
				v = x.Call.Args[0]
				continue
			}
		}
		break
	}
	return v
}

func isStringOrBytes(t types.Type) bool {
	switch u := t.Underlying().(type) {
	case *types.Basic:
		return u.Info()&types.IsString != 0
	case *types.Slice:
		if b, ok := u.Elem().Underlying().(*types.Basic); ok {
			return b.Kind() == types.Byte || b.Kind() == types.Uint8
		}
	}
	return false
}

// lenOf returns a linear term for len(v).
func (b *boundsCtx) lenOf(v ssa.Value, depth int) lin {
	v = lenPreserving(v)
	if depth > 8 {
		return b.lenAtom(v)
	}
	switch x := v.(type) {
	case *ssa.Const:
		if x.Value != nil && x.Value.Kind() == constant.String {
			return linConst(int64(len(constant.StringVal(x.Value))))
		}
	case *ssa.Slice:
		base := b.lenOf(x.X, depth+1)
		if pt, ok := x.X.Type().Underlying().(*types.Pointer); ok {
			if at, ok := pt.Elem().Underlying().(*types.Array); ok {
				base = linConst(at.Len())
			}
		}
		lo := linConst(0)
		if x.Low != nil {
			lo = b.term(x.Low, depth+1)
		}
		hi := base
		if x.High != nil {
			hi = b.term(x.High, depth+1)
		}
		return hi.add(lo, -1)
	case *ssa.UnOp:
		if x.Op == token.MUL {
			if g, ok := x.X.(*ssa.Global); ok {
				if n, ok := b.w.globalConstLen(g); ok {
					return linConst(n)
				}
			}
		}
	}
	return b.lenAtom(v)
}

func (b *boundsCtx) lenAtom(v ssa.Value) lin {
	name := "len(" + atomKey(v) + ")"
	if !b.seenA[name] {
		b.seenA[name] = true
		b.facts = append(b.facts, linAtom(name)) // len ≥ 0
	}
	return linAtom(name)
}

// globalConstLen: a package-level []byte/string variable that is only ever assigned once, from a constant.
func (w *World) globalConstLen(g *ssa.Global) (int64, bool) {
	var n int64 = -1
	stores := 0
	for _, f := range w.AllFuncs {
		EachInstr(f, func(in ssa.Instruction) {
			st, ok := in.(*ssa.Store)
			if !ok || st.Addr != g {
				return
			}
			stores++
			v := lenPreserving(st.Val)
			switch x := v.(type) {
			case *ssa.Const:
				if x.Value != nil && x.Value.Kind() == constant.String {
					n = int64(len(constant.StringVal(x.Value)))
				}
			case *ssa.Slice:
				// []byte("..") compiles to a slice of a fresh array initialised from a constant: take array length
				if pt, ok := x.X.Type().Underlying().(*types.Pointer); ok {
					if at, ok := pt.Elem().Underlying().(*types.Array); ok && x.Low == nil && x.High == nil {
						n = at.Len()
					}
				}
			}
		})
	}
	if g.Pkg != nil && stores == 0 {
		if init := g.Pkg.Func("init"); init != nil {
			EachInstr(init, func(in ssa.Instruction) {
				st, ok := in.(*ssa.Store)
				if !ok || st.Addr != g {
					return
				}
				stores++
				v := lenPreserving(st.Val)
				if x, ok := v.(*ssa.Const); ok && x.Value != nil && x.Value.Kind() == constant.String {
					n = int64(len(constant.StringVal(x.Value)))
				}
				if x, ok := v.(*ssa.Slice); ok {
					if pt, ok := x.X.Type().Underlying().(*types.Pointer); ok {
						if at, ok := pt.Elem().Underlying().(*types.Array); ok && x.Low == nil && x.High == nil {
							n = at.Len()
						}
					}
				}
			})
		}
	}
	if stores == 1 && n >= 0 {
		return n, true
	}
	return 0, false
}

// wireInt: v is a number parsed from external input (strconv.Atoi/ParseInt/ParseUint, possibly
// converted): nothing bounds it, so arithmetic on it can wrap around.
func wireInt(v ssa.Value, depth int) bool {
	if v == nil || depth > 4 {
		return false
	}
	switch x := v.(type) {
	case *ssa.Extract:
		if call, ok := x.Tuple.(*ssa.Call); ok && x.Index == 0 {
			if f := call.Call.StaticCallee(); f != nil && f.Pkg != nil && f.Pkg.Pkg.Path() == "strconv" {
				switch f.Name() {
				case "Atoi", "ParseInt", "ParseUint":
					return true
				}
			}
		}
	case *ssa.Convert:
		return wireInt(x.X, depth+1)
	case *ssa.Phi:
		for _, e := range x.Edges {
			if wireInt(e, depth+1) {
				return true
			}
		}
	}
	return false
}

// guardTerm linearises an operand of a comparison guard. Machine integers wrap: `n+1` computed from an
// unbounded parsed number is not n+1 for n = MaxInt, so a guard such as `len(s) < n+1` says nothing
// about n. Such an operand is kept as an opaque atom (the test then yields no fact about n).
func (b *boundsCtx) guardTerm(v ssa.Value) lin {
	if bo, ok := v.(*ssa.BinOp); ok {
		switch bo.Op {
		case token.ADD, token.SUB, token.MUL:
			if wireInt(bo.X, 0) || wireInt(bo.Y, 0) {
				return linAtom("wrap:" + atomKey(v))
			}
		}
	}
	return b.term(v, 0)
}

// term linearises an integer-valued SSA value.
func (b *boundsCtx) term(v ssa.Value, depth int) lin {
	if depth > 10 {
		return linAtom(atomKey(v))
	}
	switch x := v.(type) {
	case *ssa.Const:
		if x.Value != nil && x.Value.Kind() == constant.Int {
			if n, ok := constant.Int64Val(x.Value); ok {
				return linConst(n)
			}
		}
	case *ssa.BinOp:
		switch x.Op {
		case token.ADD:
			return b.term(x.X, depth+1).add(b.term(x.Y, depth+1), 1)
		case token.SUB:
			return b.term(x.X, depth+1).add(b.term(x.Y, depth+1), -1)
		case token.MUL:
			if n, ok := constIntOf(x.Y); ok {
				return b.term(x.X, depth+1).scale(n)
			}
			if n, ok := constIntOf(x.X); ok {
				return b.term(x.Y, depth+1).scale(n)
			}
		}
	case *ssa.Call:
		if bi, ok := x.Call.Value.(*ssa.Builtin); ok && bi.Name() == "len" && len(x.Call.Args) == 1 {
			return b.lenOf(x.Call.Args[0], depth+1)
		}
	case *ssa.Convert:
		if bt, ok := x.X.Type().Underlying().(*types.Basic); ok && bt.Info()&types.IsInteger != 0 {
			if rt, ok := x.Type().Underlying().(*types.Basic); ok && rt.Info()&types.IsInteger != 0 && rt.Info()&types.IsUnsigned == 0 {
				return b.term(x.X, depth+1)
			}
		}
	case *ssa.Phi:
		same := true
		for _, e := range x.Edges {
			if e != x.Edges[0] {
				same = false
			}
		}
		if same && len(x.Edges) > 0 {
			return b.term(x.Edges[0], depth+1)
		}
	}
	return linAtom(atomKey(v))
}

// indexLike: r = strings.Index/IndexByte/bytes.Index/IndexByte(s, sep) → (s, len(sep) term).
func (b *boundsCtx) indexCall(v ssa.Value) (ssa.Value, lin, bool) {
	call, ok := v.(*ssa.Call)
	if !ok {
		return nil, lin{}, false
	}
	f := call.Call.StaticCallee()
	if f == nil || f.Pkg == nil || (f.Pkg.Pkg.Path() != "strings" && f.Pkg.Pkg.Path() != "bytes") {
		return nil, lin{}, false
	}
	switch f.Name() {
	case "Index":
		return call.Call.Args[0], b.lenOf(call.Call.Args[1], 0), true
	case "IndexByte", "IndexRune":
		return call.Call.Args[0], linConst(1), true
	}
	return nil, lin{}, false
}

// addGuardFacts turns the guards dominating `in` into linear facts.
func (b *boundsCtx) addGuardFacts(in ssa.Instruction) (facts []lin, neq [][2]lin) {
	var indexResults []ssa.Value
	seenIdx := map[ssa.Value]bool{}
	noteIndex := func(v ssa.Value) {
		if _, _, ok := b.indexCall(v); ok && !seenIdx[v] {
			seenIdx[v] = true
			indexResults = append(indexResults, v)
		}
	}
	for _, g := range Guards(in) {
		switch c := g.Cond.(type) {
		case *ssa.BinOp:
			if !isCmp(c.Op) {
				continue
			}
			xt, ok := c.X.Type().Underlying().(*types.Basic)
			if !ok || xt.Info()&types.IsInteger == 0 {
				continue
			}
			noteIndex(c.X)
			noteIndex(c.Y)
			x, y := b.guardTerm(c.X), b.guardTerm(c.Y)
			op := c.Op
			if !g.Pol {
				op = map[token.Token]token.Token{token.LSS: token.GEQ, token.GEQ: token.LSS, token.GTR: token.LEQ, token.LEQ: token.GTR, token.EQL: token.NEQ, token.NEQ: token.EQL}[op]
			}
			switch op {
			case token.LSS: // x < y  ⇒ y - x - 1 ≥ 0
				facts = append(facts, y.add(x, -1).add(linConst(1), -1))
			case token.LEQ:
				facts = append(facts, y.add(x, -1))
			case token.GTR:
				facts = append(facts, x.add(y, -1).add(linConst(1), -1))
			case token.GEQ:
				facts = append(facts, x.add(y, -1))
			case token.EQL:
				facts = append(facts, x.add(y, -1), y.add(x, -1))
			case token.NEQ:
				neq = append(neq, [2]lin{x, y})
			}
		case *ssa.Call:
			// HasPrefix(s, p) true ⇒ len(s) ≥ len(p)
			if f := c.Call.StaticCallee(); f != nil && f.Pkg != nil && (f.Pkg.Pkg.Path() == "strings" || f.Pkg.Pkg.Path() == "bytes") && (f.Name() == "HasPrefix" || f.Name() == "HasSuffix") && g.Pol {
				facts = append(facts, b.lenOf(c.Call.Args[0], 0).add(b.lenOf(c.Call.Args[1], 0), -1))
			}
		}
	}
	// index results: r ≥ -1 always; if the facts imply r ≥ 0 then r + len(sep) ≤ len(s)
	for _, r := range indexResults {
		s, seplen, _ := b.indexCall(r)
		rt := b.term(r, 0)
		facts = append(facts, rt.add(linConst(1), 1)) // r + 1 ≥ 0
		// strengthen with disequalities r != -1
		for _, ne := range neq {
			d := ne[0].add(ne[1], -1)
			// r - (-1) form
			if len(d.c) == 1 && (d.add(rt, -1).k == 1 && len(d.add(rt, -1).c) == 0) {
				facts = append(facts, rt) // r ≥ 0
			}
		}
		// does r ≥ 0 follow?  check facts ∧ (r ≤ -1) infeasible
		test := append(append([]lin{}, b.facts...), facts...)
		test = append(test, rt.scale(-1).add(linConst(1), -1)) // -r - 1 ≥ 0
		if fmInfeasible(test) {
			facts = append(facts, b.lenOf(s, 0).add(rt, -1).add(seplen, -1)) // len(s) - r - len(sep) ≥ 0
		}
	}
	// x ≠ c together with x ≥ c strengthens to x ≥ c+1 (and symmetric)
	for _, ne := range neq {
		d := ne[0].add(ne[1], -1) // d ≠ 0
		base := append(append([]lin{}, b.facts...), facts...)
		// if d ≥ 0 holds, then d ≥ 1
		if fmInfeasible(append(append([]lin{}, base...), d.scale(-1).add(linConst(1), -1))) {
			facts = append(facts, d.add(linConst(1), -1))
		} else if fmInfeasible(append(append([]lin{}, base...), d.add(linConst(1), -1))) {
			facts = append(facts, d.scale(-1).add(linConst(1), -1))
		}
	}
	return facts, neq
}

// prove: facts(in) ⊢ goal ≥ 0 ?
func (b *boundsCtx) prove(in ssa.Instruction, goal lin) bool {
	gf, _ := b.addGuardFacts(in)
	cons := append(append([]lin{}, b.facts...), gf...)
	// ¬(goal ≥ 0)  ≡  -goal - 1 ≥ 0
	cons = append(cons, goal.scale(-1).add(linConst(1), -1))
	res := fmInfeasible(cons)
	if !res && boundsDebug {
		fmt.Printf("UNPROVED at %s goal %s\n", b.w.InstrPos(in), goal)
		for _, f := range cons {
			fmt.Printf("   fact %s >= 0\n", f)
		}
	}
	return res
}

// boundsObligation is one index/slice site with its proof status.
type boundsObligation struct {
	In     ssa.Instruction
	What   string
	Proved bool
	Detail string
}

// checkBounds proves 0 ≤ lo ≤ hi ≤ len for every slice and 0 ≤ i < len for every index in fn.
func (w *World) checkBounds(fn *ssa.Function) []boundsObligation {
	b := &boundsCtx{w: w, fn: fn, seenA: map[string]bool{}}
	var out []boundsObligation
	// pre-register len atoms so their ≥0 facts exist
	EachInstr(fn, func(in ssa.Instruction) {
		switch x := in.(type) {
		case *ssa.Slice:
			b.lenOf(x.X, 0)
		}
	})
	EachInstr(fn, func(in ssa.Instruction) {
		switch x := in.(type) {
		case *ssa.Slice:
			if pt, ok := x.X.Type().Underlying().(*types.Pointer); ok {
				if _, isArr := pt.Elem().Underlying().(*types.Array); isArr && x.Low == nil && x.High == nil {
					return // arr[:] of a fresh array
				}
			}
			if !isStringOrBytes(x.X.Type()) {
				if _, isPtr := x.X.Type().Underlying().(*types.Pointer); !isPtr {
					return
				}
			}
			ln := b.lenOf(x.X, 0)
			lo := linConst(0)
			if x.Low != nil {
				lo = b.term(x.Low, 0)
			}
			hi := ln
			if x.High != nil {
				hi = b.term(x.High, 0)
			}
			var failed []string
			if x.Low != nil && !b.prove(in, lo) {
				failed = append(failed, "low ≥ 0")
			}
			if !b.prove(in, hi.add(lo, -1)) {
				failed = append(failed, "low ≤ high")
			}
			if x.High != nil && !b.prove(in, ln.add(hi, -1)) {
				failed = append(failed, "high ≤ len")
			}
			out = append(out, boundsObligation{in, "slice " + D(x), len(failed) == 0, strings.Join(failed, ", ")})
		case *ssa.Lookup:
			if bt, ok := x.X.Type().Underlying().(*types.Basic); !ok || bt.Info()&types.IsString == 0 {
				return
			}
			ln := b.lenOf(x.X, 0)
			idx := b.term(x.Index, 0)
			var failed []string
			if !b.prove(in, idx) {
				failed = append(failed, "index ≥ 0")
			}
			if !b.prove(in, ln.add(idx, -1).add(linConst(1), -1)) {
				failed = append(failed, "index < len")
			}
			out = append(out, boundsObligation{in, "index " + D(x), len(failed) == 0, strings.Join(failed, ", ")})
		case *ssa.IndexAddr:
			if _, isSlice := x.X.Type().Underlying().(*types.Slice); !isSlice {
				return
			}
			if !isStringOrBytes(x.X.Type()) {
				return
			}
			ln := b.lenOf(x.X, 0)
			idx := b.term(x.Index, 0)
			var failed []string
			if !b.prove(in, idx) {
				failed = append(failed, "index ≥ 0")
			}
			if !b.prove(in, ln.add(idx, -1).add(linConst(1), -1)) {
				failed = append(failed, "index < len")
			}
			out = append(out, boundsObligation{in, "index " + D(x), len(failed) == 0, strings.Join(failed, ", ")})
		}
	})
	return out
}
