package main

import (
	"go/ast"
	"go/types"
	"strings"
)

func init() {
	r4doc("C16", "C16.R7", "argument selection: no two same-typed arguments are passed in each other's parameter position")
	round3Hooks["C16"] = append(round3Hooks["C16"], runSwappedArguments)
}

// runSwappedArguments (C16.R7): where a call passes plain identifiers, an identifier that carries the name
// of a *different* parameter of the callee, of the same type, while that parameter's own position receives
// the identifier named like this one, is a swap (it compiles because the types agree). Decided on the
// syntax tree with resolved callees; applies to the whole module (the tags-filter pairs of the map
// subscribe path are the instances that matter for this property).
func runSwappedArguments(c *Ctx) {
	w := c.W
	calls := 0
	for _, p := range w.Pkgs {
		if p.TypesInfo == nil {
			continue
		}
		for i, file := range p.Syntax {
			if i < len(p.CompiledGoFiles) && strings.HasSuffix(p.CompiledGoFiles[i], "_test.go") {
				continue
			}
			ast.Inspect(file, func(n ast.Node) bool {
				call, ok := n.(*ast.CallExpr)
				if !ok {
					return true
				}
				var id *ast.Ident
				switch f := call.Fun.(type) {
				case *ast.Ident:
					id = f
				case *ast.SelectorExpr:
					id = f.Sel
				}
				if id == nil {
					return true
				}
				fn, ok := p.TypesInfo.Uses[id].(*types.Func)
				if !ok || fn.Pkg() == nil || !strings.HasPrefix(fn.Pkg().Path(), modPath) {
					return true
				}
				sig, ok := fn.Type().(*types.Signature)
				if !ok || sig.Variadic() || sig.Params().Len() != len(call.Args) || len(call.Args) < 2 {
					return true
				}
				names := make([]string, len(call.Args))
				for k, a := range call.Args {
					if ai, ok := a.(*ast.Ident); ok {
						names[k] = ai.Name
					}
				}
				calls++
				for a := 0; a < len(names); a++ {
					for b := a + 1; b < len(names); b++ {
						pa, pb := sig.Params().At(a), sig.Params().At(b)
						if names[a] == "" || names[b] == "" || pa.Name() == "" || pb.Name() == "" || pa.Name() == pb.Name() {
							continue
						}
						if !types.Identical(pa.Type(), pb.Type()) {
							continue
						}
						if names[a] == pb.Name() && names[b] == pa.Name() {
							c.CheckAt("C16.R7", fn.Name()+": arguments "+names[a]+" and "+names[b]+" are passed in their own positions", w.Pos(call.Pos()), false,
								"the callee's parameters "+pa.Name()+" and "+pb.Name()+" have the same type and receive each other's value: for the map subscribe path this puts the server tags filter where a client-supplied filter overrides it")
						}
					}
				}
				return true
			})
		}
	}
	c.CheckAt("C16.R7", "calls with identifier arguments examined for swapped same-typed positions", "client_map.go", calls >= 100, "")
}
