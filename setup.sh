#!/bin/sh
# Builds the analyzer from files on disk only (offline). Idempotent; rebuilds when sources are newer.
set -e
VERIF_DIR="$(cd "$(dirname "$0")" && pwd)"
export PATH=/opt/veriftools/go1.26.8/bin:$PATH
export GOFLAGS=-mod=mod GOPROXY=off GOSUMDB=off GOTOOLCHAIN=local
unset GOWORK
mkdir -p "$VERIF_DIR/bin" "$VERIF_DIR/.cache" "$VERIF_DIR/evidence"
(
  flock 9
  need=0
  [ -x "$VERIF_DIR/bin/vcheck" ] || need=1
  if [ $need = 0 ] && [ -n "$(find "$VERIF_DIR/tools/vcheck" -type f \( -name '*.go' -o -name go.mod -o -name go.sum \) -newer "$VERIF_DIR/bin/vcheck" | head -1)" ]; then need=1; fi
  if [ $need = 1 ]; then
    (cd "$VERIF_DIR/tools/vcheck" && go build -o "$VERIF_DIR/bin/vcheck.tmp" . && mv "$VERIF_DIR/bin/vcheck.tmp" "$VERIF_DIR/bin/vcheck")
  fi
) 9>"$VERIF_DIR/.cache/build.lock"
