#!/bin/sh
# usage: check.sh <property id> [quick|thorough]
# Decides one property by static analysis of /repo's current working tree (nothing is executed).
# Exit 0: held on everything analysed (KNOWN-FINDING lines possible). Exit 1: VIOLATION line printed.
VERIF_DIR="$(cd "$(dirname "$0")" && pwd)"
ID="$1"
TIER="${2:-${VERIF_TIER:-quick}}"
REPO="${VERIF_REPO:-/repo}"
export PATH=/opt/veriftools/go1.26.8/bin:$PATH
export GOFLAGS=-mod=mod GOPROXY=off GOSUMDB=off GOTOOLCHAIN=local CARGO_NET_OFFLINE=true
unset GOWORK
"$VERIF_DIR/setup.sh" >/dev/null 2>"$VERIF_DIR/.setup.err" || { cat "$VERIF_DIR/.setup.err"; echo "VIOLATION property=$ID replay=$VERIF_DIR/.setup.err"; exit 1; }
exec "$VERIF_DIR/bin/vcheck" -prop "$ID" -tier "$TIER" -repo "$REPO" -verif "$VERIF_DIR"
